fn main() {
    println!("cargo:rustc-link-arg-bins=-rdynamic");
}
