fn main(){}
