//! schedsim — controlled thread schedules (shuttle) over TurDB's own code.
//!
//! The `sched` build flavour (see ../shadow/turdb) compiles /repo unchanged with parking_lot
//! replaced by a shuttle-backed shim and the atomics of the concurrency-critical files switched to
//! shuttle's: every lock operation, condvar wait/notify and atomic access is a scheduling point
//! decided by a seeded scheduler. A failing schedule is recorded choice by choice and replayed
//! exactly.

mod determ;
mod scen;
mod scen_commit;
mod sched;

use simcore::driver::{self, CheckSpec, Engine};
use simcore::pool::{self, JobStatus, PoolCfg};
use simcore::Tier;
use std::time::Duration;

struct PropSpec {
    id: &'static str,
    profile: &'static str,
    quick_runs: u64,
    thorough_runs: u64,
}

const PROPS: &[PropSpec] = &[
    PropSpec { id: "C35", profile: "cache", quick_runs: 600, thorough_runs: 8000 },
    PropSpec { id: "C36", profile: "locks", quick_runs: 600, thorough_runs: 8000 },
    PropSpec { id: "C37", profile: "commit", quick_runs: 320, thorough_runs: 5000 },
    PropSpec { id: "C38", profile: "commit", quick_runs: 320, thorough_runs: 5000 },
    PropSpec { id: "C39", profile: "budget", quick_runs: 600, thorough_runs: 8000 },
];

fn arg_value(args: &[String], flag: &str) -> Option<String> {
    args.iter().position(|a| a == flag).and_then(|i| args.get(i + 1).cloned())
}
fn env_u64(k: &str) -> Option<u64> {
    std::env::var(k).ok().and_then(|v| v.parse().ok())
}
fn workers() -> usize {
    env_u64("VSIM_WORKERS")
        .map(|v| v as usize)
        .unwrap_or_else(|| std::thread::available_parallelism().map(|n| n.get()).unwrap_or(8).min(16))
}

fn spec_for(ps: &PropSpec, args: &[String]) -> CheckSpec {
    let tier = Tier::parse(&arg_value(args, "--tier").or_else(|| std::env::var("VERIF_TIER").ok()).unwrap_or_else(|| "quick".into()));
    let seed = arg_value(args, "--seed").and_then(|s| s.parse().ok()).or_else(|| env_u64("VERIF_SEED")).unwrap_or(1);
    let runs = arg_value(args, "--runs")
        .and_then(|s| s.parse().ok())
        .or_else(|| env_u64("VSIM_RUNS"))
        .unwrap_or(if tier == Tier::Thorough { ps.thorough_runs } else { ps.quick_runs });
    CheckSpec {
        property: ps.id.to_string(),
        profile: format!("{}@{}", ps.profile, ps.id),
        tier,
        seed,
        runs,
        workers: workers(),
        run_timeout: Duration::from_secs(if tier == Tier::Thorough { 300 } else { 120 }),
        batch_budget: Duration::from_secs(if tier == Tier::Thorough { 1200 } else { 120 }),
        level: "exploration".to_string(),
        also_owns: vec![],
        min_budget_runs: if tier == Tier::Thorough { 400 } else { 200 },
        min_budget_wall: Duration::from_secs(if tier == Tier::Thorough { 240 } else { 60 }),
        max_minimise: if tier == Tier::Thorough { 10 } else { 5 },
    }
}

fn cmd_check(args: &[String]) -> i32 {
    let id = match args.first() {
        Some(i) => i.clone(),
        None => {
            eprintln!("usage: vsched check <ID> [--tier quick|thorough] [--seed N] [--runs N]");
            return 2;
        }
    };
    let ps = match PROPS.iter().find(|p| p.id == id) {
        Some(p) => p,
        None => {
            eprintln!("unknown property {}", id);
            return 2;
        }
    };
    let spec = spec_for(ps, args);
    let engine = sched::SchedSim;
    if args.iter().any(|a| a == "--mkreplays") {
        return driver::make_known_replays(&engine, &spec);
    }
    driver::run_check(&engine, &spec)
}

fn cmd_survey(args: &[String]) -> i32 {
    if args.len() < 2 {
        eprintln!("usage: vsched survey <profile@prop> <n> [seed] [tier]");
        return 2;
    }
    let engine = sched::SchedSim;
    let profile = args[0].clone();
    let n: u64 = args[1].parse().unwrap_or(100);
    let seed: u64 = args.get(2).and_then(|s| s.parse().ok()).unwrap_or(1);
    let tier = Tier::parse(args.get(3).map(|s| s.as_str()).unwrap_or("quick"));
    let base = pool::default_scratch_base();
    let cfg = PoolCfg { workers: workers(), timeout: Duration::from_secs(120), scratch: base.join("survey"), deadline: None };
    let jobs: Vec<u64> = (0..n).collect();
    let t0 = std::time::Instant::now();
    let res = pool::run_jobs(&cfg, &jobs, |j| engine.run_seeded(&profile, seed, j, tier));
    pool::cleanup(&base);
    let mut hist: std::collections::BTreeMap<String, (u64, u64, String)> = Default::default();
    let mut clean = 0;
    let mut scheds = 0u64;
    for (j, st) in res {
        match st {
            JobStatus::Done(o) => {
                scheds += o.counters.get("schedules").copied().unwrap_or(0);
                if let Some(e) = &o.harness_error {
                    hist.entry(format!("HARNESS {}", e)).or_insert((0, j, String::new())).0 += 1;
                }
                if o.violations.is_empty() {
                    clean += 1;
                }
                for v in &o.violations {
                    hist.entry(v.sig_string()).or_insert((0, j, v.detail.clone())).0 += 1;
                }
            }
            other => {
                hist.entry(format!("{:?}", other).chars().take(300).collect()).or_insert((0, j, String::new())).0 += 1;
            }
        }
    }
    let mut v: Vec<_> = hist.into_iter().collect();
    v.sort_by_key(|(_, (c, _, _))| std::cmp::Reverse(*c));
    println!("{} runs, {} clean, {} schedules, {:.1}s", n, clean, scheds, t0.elapsed().as_secs_f64());
    for (sig, (c, j, d)) in v {
        let d: String = d.chars().take(600).collect();
        println!("{:5}x run{} {}\n        {}", c, j, sig, d);
    }
    0
}

fn cmd_selfcheck(args: &[String]) -> i32 {
    if args.len() < 3 || args[0] != "determinism" {
        eprintln!("usage: vsched selfcheck determinism <profile@prop> <n> [seed]");
        return 2;
    }
    let engine = sched::SchedSim;
    let profile = args[1].clone();
    let n: u64 = args[2].parse().unwrap_or(64);
    let seed: u64 = args.get(3).and_then(|s| s.parse().ok()).unwrap_or(1);
    let base = pool::default_scratch_base();
    let jobs: Vec<u64> = (0..n).collect();
    let mut hashes: Vec<Vec<(u64, String)>> = vec![];
    for (round, w) in [(0, 4usize), (1, 16usize)] {
        let cfg = PoolCfg { workers: w, timeout: Duration::from_secs(120), scratch: base.join(format!("det{}", round)), deadline: None };
        if round == 1 {
            std::env::set_var("VSIM_PAD", "x".repeat(777));
        }
        let res = pool::run_jobs(&cfg, &jobs, |j| engine.run_seeded(&profile, seed, j, Tier::Quick));
        hashes.push(
            res.into_iter()
                .map(|(j, st)| match st {
                    JobStatus::Done(o) => (j, format!("{:016x}/{}v/{:?}", o.events_hash, o.violations.len(), o.harness_error)),
                    other => (j, format!("{:?}", other).chars().take(60).collect()),
                })
                .collect(),
        );
    }
    pool::cleanup(&base);
    let mut bad = 0;
    for (a, b) in hashes[0].iter().zip(hashes[1].iter()) {
        if a != b {
            println!("DIVERGED run {}: {} vs {}", a.0, a.1, b.1);
            bad += 1;
        }
    }
    println!("determinism: {} seed pairs, {} diverged", n, bad);
    if bad > 0 {
        1
    } else {
        0
    }
}

fn main() {
    let args: Vec<String> = std::env::args().collect();
    simcore::noaslr::ensure();
    let code = match args.get(1).map(|s| s.as_str()) {
        Some("check") => cmd_check(&args[2..]),
        Some("replay") => match args.get(2) {
            Some(p) => driver::replay(&sched::SchedSim, std::path::Path::new(p)),
            None => 2,
        },
        Some("survey") => cmd_survey(&args[2..]),
        Some("selfcheck") => cmd_selfcheck(&args[2..]),
        _ => {
            eprintln!("usage: vsched check|replay|survey|selfcheck ...");
            2
        }
    };
    std::process::exit(code);
}
