//! Deterministic clock and entropy for the scheduler flavour (same idea as simdisk, without the
//! disk part): std's HashMap keys, WAL salts and timestamps become functions of a fixed seed, so a
//! recorded schedule meets the same scheduling points when it is replayed.

use libc::{c_int, c_long, c_void, size_t, ssize_t};
use std::sync::atomic::{AtomicBool, AtomicU64, Ordering};

static ACTIVE: AtomicBool = AtomicBool::new(false);
static CLOCK_US: AtomicU64 = AtomicU64::new(0);
static ENTROPY: AtomicU64 = AtomicU64::new(0x5EED);

pub fn install() {
    ACTIVE.store(true, Ordering::SeqCst);
}

/// Called at the start of every execution so that each one starts from the same clock/entropy.
pub fn reset(seed: u64) {
    CLOCK_US.store(0, Ordering::SeqCst);
    ENTROPY.store(simcore::rng::mix(seed, 0xE17), Ordering::SeqCst);
}

#[no_mangle]
pub unsafe extern "C" fn clock_gettime(clk: libc::clockid_t, ts: *mut libc::timespec) -> c_int {
    if !ACTIVE.load(Ordering::Relaxed) {
        return libc::syscall(libc::SYS_clock_gettime, clk, ts) as c_int;
    }
    let us = 1_700_000_000_000_000u64 + CLOCK_US.fetch_add(1, Ordering::Relaxed) + 1;
    if !ts.is_null() {
        (*ts).tv_sec = (us / 1_000_000) as libc::time_t;
        (*ts).tv_nsec = ((us % 1_000_000) * 1000) as c_long;
    }
    0
}

#[no_mangle]
pub unsafe extern "C" fn getrandom(buf: *mut c_void, len: size_t, flags: libc::c_uint) -> ssize_t {
    if !ACTIVE.load(Ordering::Relaxed) {
        return libc::syscall(libc::SYS_getrandom, buf, len, flags) as ssize_t;
    }
    let out = std::slice::from_raw_parts_mut(buf as *mut u8, len);
    let mut st = ENTROPY.load(Ordering::Relaxed);
    for chunk in out.chunks_mut(8) {
        let v = simcore::rng::splitmix64(&mut st).to_le_bytes();
        chunk.copy_from_slice(&v[..chunk.len()]);
    }
    ENTROPY.store(st, Ordering::Relaxed);
    len as ssize_t
}
