//! C37 / C38: concurrent COMMITs through the real `Database` (the real caller protocol:
//! execute_commit -> execute_small_commit -> group commit queue -> WAL), each thread with its own
//! cloned handle. After every commit returned, the directory is copied as it is (process-kill
//! image) and reopened: recovery must give every committed row with its last committed value.

use crate::scen::{Probes, TOp};
use shuttle::thread;
use std::path::{Path, PathBuf};
use std::sync::atomic::{AtomicU64, Ordering as O};
use std::sync::Arc;
use turdb::{Database, ExecuteResult, OwnedValue};

static EXEC_SEQ: AtomicU64 = AtomicU64::new(0);

macro_rules! violate {
    ($($arg:tt)*) => { panic!("INVARIANT {}", format!($($arg)*)) };
}

fn probe(p: &Probes, k: &str) {
    *p.lock().unwrap().entry(k.to_string()).or_insert(0) += 1;
}

fn copy_dir(from: &Path, to: &Path) {
    let _ = std::fs::create_dir_all(to);
    if let Ok(rd) = std::fs::read_dir(from) {
        for e in rd.flatten() {
            let p = e.path();
            let dst = to.join(e.file_name());
            if p.is_dir() {
                copy_dir(&p, &dst);
            } else {
                let _ = std::fs::copy(&p, &dst);
            }
        }
    }
}

fn rows_of(db: &Database, sql: &str) -> Result<Vec<Vec<OwnedValue>>, String> {
    match db.execute(sql) {
        Ok(ExecuteResult::Select { rows, .. }) => Ok(rows.into_iter().map(|r| r.values).collect()),
        Ok(other) => Err(format!("unexpected result {:?}", other)),
        Err(e) => Err(format!("{:#}", e)),
    }
}

fn wal_contains(dir: &Path, marker: &str) -> bool {
    let wal = dir.join("wal");
    let needle = marker.as_bytes();
    if let Ok(rd) = std::fs::read_dir(&wal) {
        for e in rd.flatten() {
            if let Ok(bytes) = std::fs::read(e.path()) {
                if bytes.windows(needle.len()).any(|w| w == needle) {
                    return true;
                }
            }
        }
    }
    false
}

pub fn run_commit(tables: usize, with_index: bool, threads: &[Vec<TOp>], probes: &Probes) {
    crate::determ::reset(7);
    let seq = EXEC_SEQ.fetch_add(1, O::SeqCst);
    let base: PathBuf = simcore::pool::child_scratch().join(format!("x{}", seq));
    let _ = std::fs::remove_dir_all(&base);
    let dbdir = base.join("db");
    let db = Database::create(&dbdir).expect("create");
    db.execute("PRAGMA wal = ON").expect("wal");
    db.execute("PRAGMA synchronous = FULL").expect("sync");
    for t in 0..tables {
        db.execute(&format!("CREATE TABLE t{} (id BIGINT PRIMARY KEY, who INT, v TEXT)", t)).expect("create table");
        if with_index {
            db.execute(&format!("CREATE INDEX ix{} ON t{} (who)", t, t)).expect("create index");
        }
        // the shared row every thread may update
        db.execute(&format!("INSERT INTO t{} VALUES (0, -1, 'base')", t)).expect("base row");
    }

    // what each thread committed: (table, id, marker)
    let committed: Arc<std::sync::Mutex<Vec<(usize, i64, String)>>> = Arc::new(std::sync::Mutex::new(vec![]));
    let shared_last: Arc<std::sync::Mutex<Vec<Vec<String>>>> = Arc::new(std::sync::Mutex::new(vec![vec![]; tables]));
    let mut handles = vec![];
    for (ti, ops) in threads.iter().enumerate() {
        let h = db.clone();
        let (ops, committed, shared_last, probes, dbdir) = (ops.clone(), committed.clone(), shared_last.clone(), probes.clone(), dbdir.clone());
        handles.push(thread::spawn(move || {
            let mut next_id: i64 = 1000 * (ti as i64 + 1);
            for (oi, op) in ops.iter().enumerate() {
                match op {
                    TOp::Auto { table } => {
                        next_id += 1;
                        let marker = format!("M{}x{}x{}", ti, oi, next_id);
                        match h.execute(&format!("INSERT INTO t{} VALUES ({}, {}, '{}')", table, next_id, ti, marker)) {
                            Ok(_) => {
                                committed.lock().unwrap().push((*table, next_id, marker));
                                probe(&probes, "autocommit_ok");
                            }
                            Err(e) => violate!("commit-failed kind=autocommit :: thread {} autocommit INSERT failed: {:#}", ti, e),
                        }
                    }
                    TOp::Txn { table, inserts, update_shared, long_value } => {
                        if let Err(e) = h.execute("BEGIN") {
                            violate!("commit-failed kind=begin :: thread {} BEGIN failed: {:#}", ti, e);
                        }
                        let mut mine = vec![];
                        let mut failed = None;
                        for k in 0..*inserts {
                            next_id += 1;
                            let marker = if *long_value && k == 0 { format!("M{}x{}x{}{}", ti, oi, next_id, "z".repeat(1500)) } else { format!("M{}x{}x{}", ti, oi, next_id) };
                            match h.execute(&format!("INSERT INTO t{} VALUES ({}, {}, '{}')", table, next_id, ti, marker)) {
                                Ok(_) => mine.push((*table, next_id, marker)),
                                Err(e) => {
                                    failed = Some(format!("INSERT: {:#}", e));
                                    break;
                                }
                            }
                        }
                        let mut shared_marker = None;
                        if failed.is_none() && *update_shared {
                            let m = format!("S{}x{}", ti, oi);
                            match h.execute(&format!("UPDATE t{} SET v = '{}' WHERE id = 0", table, m)) {
                                Ok(_) => shared_marker = Some(m),
                                Err(e) => failed = Some(format!("UPDATE: {:#}", e)),
                            }
                        }
                        if let Some(f) = failed {
                            // a statement inside the transaction failed (e.g. write-write conflict): roll back
                            let _ = h.execute("ROLLBACK");
                            probe(&probes, "txn_stmt_failed");
                            let _ = f;
                            continue;
                        }
                        match h.execute("COMMIT") {
                            Ok(_) => {
                                probe(&probes, "commit_ok");
                                // C37: the payload must be in the log before the submitter is told it succeeded
                                if let Some((_, _, marker)) = mine.first() {
                                    let short = &marker[..marker.len().min(12)];
                                    if !wal_contains(&dbdir, short) {
                                        violate!("commit-acked-before-log-write :: thread {} COMMIT returned Ok but no WAL segment contains its row marker {}", ti, short);
                                    }
                                }
                                committed.lock().unwrap().extend(mine);
                                if let Some(m) = shared_marker {
                                    shared_last.lock().unwrap()[*table].push(m);
                                }
                            }
                            Err(e) => violate!("commit-failed kind=commit :: thread {} COMMIT failed: {:#}", ti, e),
                        }
                    }
                }
            }
        }));
    }
    for h in handles {
        h.join().unwrap();
    }

    // no stuck flush flag: one more commit must go through
    if let Err(e) = db.execute("BEGIN").and_then(|_| db.execute("INSERT INTO t0 VALUES (999999, -2, 'after')")).and_then(|_| db.execute("COMMIT")) {
        violate!("commit-after-quiesce-failed :: a further single commit after all committers returned failed: {:#}", e);
    }

    // process-kill image: the files as they are now
    let img = base.join("img");
    copy_dir(&dbdir, &img);
    let committed = committed.lock().unwrap().clone();
    let shared_last = shared_last.lock().unwrap().clone();
    match Database::open(&img) {
        Err(e) => violate!("recovery-open-failed :: reopening the copy of the directory failed: {:#}", e),
        Ok(rdb) => {
            for t in 0..tables {
                let rows = match rows_of(&rdb, &format!("SELECT * FROM t{}", t)) {
                    Ok(r) => r,
                    Err(e) => violate!("recovered-table-unreadable :: table t{} after recovery: {}", t, e),
                };
                for (tb, id, marker) in committed.iter().filter(|c| c.0 == t) {
                    let found = rows.iter().find(|r| r.first() == Some(&OwnedValue::Int(*id)));
                    match found {
                        None => violate!("committed-row-missing-after-recovery :: row id {} of table t{} was committed (marker {}) but is absent after kill + recovery ({} rows recovered)", id, tb, &marker[..marker.len().min(16)], rows.len()),
                        Some(r) => {
                            if r.get(2) != Some(&OwnedValue::Text(marker.clone())) {
                                violate!("stale-value-after-recovery :: row id {} of table t{} recovered with value {:?}, committed {}", id, tb, r.get(2), &marker[..marker.len().min(16)]);
                            }
                        }
                    }
                    // every index finds it
                    match rows_of(&rdb, &format!("SELECT id FROM t{} WHERE id = {}", t, id)) {
                        Ok(r) if r.len() == 1 => {}
                        Ok(r) => violate!("index-misses-committed-row :: primary-key lookup of committed row id {} in t{} returns {} rows after recovery", id, t, r.len()),
                        Err(e) => violate!("recovered-table-unreadable :: lookup in t{} after recovery: {}", t, e),
                    }
                }
                // the shared row holds one of the committed values (the last committer's), never 'base' once someone committed
                if !shared_last[t].is_empty() {
                    let row0 = rows.iter().find(|r| r.first() == Some(&OwnedValue::Int(0)));
                    match row0.and_then(|r| r.get(2)) {
                        Some(OwnedValue::Text(v)) if shared_last[t].contains(v) => {}
                        other => violate!("stale-value-after-recovery :: shared row of t{} recovered as {:?}; committed updates: {:?}", t, other, shared_last[t]),
                    }
                }
            }
            drop(rdb);
        }
    }
    drop(db);
    let _ = std::fs::remove_dir_all(&base);
}
