//! schedsim engine: one run = one explicit scenario executed under many seeded schedules.

use crate::scen::{self, Scenario};
use serde::{Deserialize, Serialize};
use serde_json::{json, Value};
use shuttle::scheduler::{PctScheduler, RandomScheduler, ReplayScheduler, Schedule, Scheduler, Task, TaskId};
use shuttle::{Config, FailurePersistence, MaxSteps, Runner};
use simcore::driver::{ddmin_keepsets, Engine};
use simcore::rng::{fnv1a, mix};
use simcore::{Rng, RunOutcome, Tier, Violation};
use std::collections::BTreeMap;
use std::sync::{Arc, Mutex};

pub struct SchedSim;

/// Wraps a scheduler and records every choice of the current execution.
struct Recording<S: Scheduler> {
    inner: S,
    log: Arc<Mutex<Vec<i64>>>,
}

impl<S: Scheduler> Scheduler for Recording<S> {
    fn new_execution(&mut self) -> Option<Schedule> {
        self.log.lock().unwrap().clear();
        self.inner.new_execution()
    }
    fn next_task(&mut self, runnable: &[&Task], current: Option<TaskId>, is_yielding: bool) -> Option<TaskId> {
        let t = self.inner.next_task(runnable, current, is_yielding);
        if let Some(t) = t {
            self.log.lock().unwrap().push(usize::from(t) as i64);
        }
        t
    }
    fn next_u64(&mut self) -> u64 {
        self.log.lock().unwrap().push(-1);
        self.inner.next_u64()
    }
}

#[derive(Clone, Debug, Serialize, Deserialize)]
pub struct Case {
    pub engine: String,
    pub profile: String,
    pub property: String,
    pub scenario: Scenario,
    /// explicit schedule: task ids in order (-1 = a random draw)
    #[serde(default)]
    pub schedule: Option<Vec<i64>>,
    /// without an explicit schedule: seeded schedules to explore (replay of a seeded family)
    #[serde(default)]
    pub sched_seed: u64,
    #[serde(default)]
    pub iterations: usize,
    #[serde(default)]
    pub pct_depth: usize,
}

fn split_profile(p: &str) -> (String, String) {
    match p.split_once('@') {
        Some((a, b)) => (a.to_string(), b.to_string()),
        None => (p.to_string(), "C39".to_string()),
    }
}

fn config() -> Config {
    let mut c = Config::new();
    c.stack_size = 1 << 20;
    c.failure_persistence = FailurePersistence::None;
    c.max_steps = MaxSteps::FailAfter(400_000);
    c.silence_warnings = true;
    c
}

static LAST_PANIC: Mutex<Option<(String, String)>> = Mutex::new(None);

fn install_panic_hook() {
    std::panic::set_hook(Box::new(|info| {
        let site = info
            .location()
            .map(|l| {
                let f = l.file();
                let f = f.strip_prefix("/repo/").unwrap_or(f);
                format!("{}:{}", f, l.line())
            })
            .unwrap_or_else(|| "unknown".into());
        let msg = if let Some(s) = info.payload().downcast_ref::<&str>() {
            s.to_string()
        } else if let Some(s) = info.payload().downcast_ref::<String>() {
            s.clone()
        } else {
            String::new()
        };
        if let Ok(mut g) = LAST_PANIC.lock() {
            // keep the first panic of an execution (the root cause), not the ones it triggers
            if g.is_none() {
                *g = Some((site, msg));
            }
        }
    }));
}

/// Classify a panic of a shuttle execution into (verdict, signature extras, detail).
fn classify(site: &str, msg: &str) -> (String, Vec<(String, String)>, String) {
    if let Some(rest) = msg.strip_prefix("INVARIANT ") {
        // "INVARIANT <verdict> k=v k=v :: detail"
        let (head, detail) = rest.split_once(" :: ").unwrap_or((rest, ""));
        let mut parts = head.split_whitespace();
        let verdict = parts.next().unwrap_or("invariant").to_string();
        let extras: Vec<(String, String)> = parts.filter_map(|kv| kv.split_once('=').map(|(k, v)| (k.to_string(), v.to_string()))).collect();
        return (verdict, extras, detail.to_string());
    }
    let low = msg.to_lowercase();
    if low.contains("deadlock") {
        return ("deadlock".into(), vec![], msg.chars().take(400).collect());
    }
    if low.contains("exceeded max_steps") || low.contains("max_steps") {
        return ("livelock".into(), vec![], msg.chars().take(300).collect());
    }
    ("panic".into(), vec![("site".into(), site.to_string())], format!("panicked at {}: {}", site, msg.chars().take(300).collect::<String>()))
}

struct ExecResult {
    failed: Option<(String, String)>,
    schedule: Vec<i64>,
    iterations: usize,
    distinct: Vec<u64>,
    probes: BTreeMap<String, u64>,
}

/// Run `scn` under the given scheduler; stops at the first failing execution.
fn explore<S: Scheduler + 'static>(scn: &Scenario, scheduler: S) -> ExecResult {
    let log = Arc::new(Mutex::new(Vec::new()));
    let hashes = Arc::new(Mutex::new(Vec::new()));
    let rec = Recording { inner: scheduler, log: log.clone() };
    let runner = Runner::new(rec, config());
    let scn2 = Arc::new(scn.clone());
    let probes = Arc::new(Mutex::new(BTreeMap::new()));
    if let Ok(mut g) = LAST_PANIC.lock() {
        *g = None;
    }
    let iters = Arc::new(std::sync::atomic::AtomicUsize::new(0));
    let (l2, h2, p2, i2) = (log.clone(), hashes.clone(), probes.clone(), iters.clone());
    let res = std::panic::catch_unwind(std::panic::AssertUnwindSafe(move || {
        runner.run(move || {
            i2.fetch_add(1, std::sync::atomic::Ordering::Relaxed);
            scen::execute(&scn2, &p2);
            // end of a passing execution: remember its schedule hash
            let l = l2.lock().unwrap();
            let bytes: Vec<u8> = l.iter().flat_map(|x| x.to_le_bytes()).collect();
            h2.lock().unwrap().push(fnv1a(&bytes));
        })
    }));
    let schedule = log.lock().unwrap().clone();
    let failed = match res {
        Ok(_) => None,
        Err(p) => {
            let hook = LAST_PANIC.lock().ok().and_then(|mut g| g.take());
            let payload = if let Some(s) = p.downcast_ref::<String>() {
                s.clone()
            } else if let Some(s) = p.downcast_ref::<&str>() {
                s.to_string()
            } else {
                String::new()
            };
            match hook {
                Some((site, msg)) => {
                    // shuttle's own panics (deadlock, max steps) carry their message in the payload too
                    if msg.is_empty() {
                        Some((site, payload))
                    } else {
                        Some((site, msg))
                    }
                }
                None => Some(("unknown".into(), payload)),
            }
        }
    };
    let distinct = hashes.lock().unwrap().clone();
    let probes = probes.lock().unwrap().clone();
    ExecResult {
        failed,
        schedule,
        iterations: iters.load(std::sync::atomic::Ordering::Relaxed),
        distinct,
        probes,
    }
}

fn to_schedule(seed: u64, steps: &[i64]) -> Schedule {
    let mut s = Schedule::new(seed);
    for x in steps {
        if *x < 0 {
            s.push_random();
        } else {
            s.push_task(TaskId::from(*x as usize));
        }
    }
    s
}

impl SchedSim {
    fn run_case_inner(&self, c: &Case) -> RunOutcome {
        // deterministic clock / entropy only inside the simulation child (the coordinator's
        // watchdog needs the real clock)
        crate::determ::install();
        crate::determ::reset(7);
        install_panic_hook();
        let mut out = RunOutcome::default();
        let res = match &c.schedule {
            Some(steps) => {
                let mut rs = ReplayScheduler::new_from_schedule(to_schedule(c.sched_seed, steps));
                rs.set_allow_incomplete();
                explore(&c.scenario, rs)
            }
            None => {
                let iters = c.iterations.max(1);
                if c.pct_depth > 0 {
                    explore(&c.scenario, PctScheduler::new_from_seed(c.sched_seed, c.pct_depth, iters))
                } else {
                    explore(&c.scenario, RandomScheduler::new_from_seed(c.sched_seed, iters))
                }
            }
        };
        out.count("schedules", res.iterations as u64);
        for (k, v) in &res.probes {
            out.count(&format!("probe/{}", k), *v);
        }
        out.states = res.distinct.clone();
        let mut h = fnv1a(serde_json::to_string(&c.scenario).unwrap_or_default().as_bytes());
        for d in &res.distinct {
            h = mix(h, *d);
        }
        if let Some((site, msg)) = &res.failed {
            let (verdict, extras, detail) = classify(site, msg);
            let mut sig: BTreeMap<String, String> = BTreeMap::new();
            sig.insert("scenario".into(), c.scenario.kind().to_string());
            sig.insert("threads".into(), c.scenario.threads().to_string());
            for (k, v) in scen::signature(&c.scenario) {
                sig.insert(k, v);
            }
            for (k, v) in extras {
                sig.insert(k, v);
            }
            let mut vc = c.clone();
            vc.schedule = Some(res.schedule.clone());
            h = mix(h, fnv1a(verdict.as_bytes()));
            out.violations.push(Violation {
                property: scen::owner_of(&verdict, &c.property, &c.scenario),
                verdict,
                sig,
                detail: format!("{} | scenario: {} | schedule length {}", detail, c.scenario.describe(), res.schedule.len()),
                case: serde_json::to_value(&vc).unwrap_or(Value::Null),
            });
        }
        out.events_hash = h;
        out.fingerprint = fnv1a(serde_json::to_string(&c.scenario).unwrap_or_default().as_bytes());
        out.nontrivial = c.scenario.threads() >= 2;
        out.sample = json!({"scenario": c.scenario.describe(), "schedules_run": res.iterations, "distinct_schedules": res.distinct.len(),
            "example_schedule": res.schedule.iter().take(80).collect::<Vec<_>>()});
        out
    }
}

impl Engine for SchedSim {
    fn name(&self) -> &'static str {
        "schedsim"
    }

    fn run_seeded(&self, profile: &str, seed: u64, run: u64, tier: Tier) -> RunOutcome {
        let (pname, property) = split_profile(profile);
        let rseed = mix(seed, run);
        let mut rng = Rng::new(rseed);
        let scenario = scen::generate(&pname, &mut rng.fork("scenario"), tier == Tier::Thorough);
        let heavy = scenario.is_heavy();
        let iterations = match (heavy, tier) {
            (true, Tier::Quick) => 12,
            (true, Tier::Thorough) => 40,
            (false, Tier::Quick) => 150,
            (false, Tier::Thorough) => 600,
        };
        let c = Case {
            engine: "schedsim".into(),
            profile: pname,
            property,
            scenario,
            schedule: None,
            sched_seed: rng.next_u64(),
            iterations,
            pct_depth: 0,
        };
        let mut c = c;
        c.pct_depth = if c.scenario.wants_pct() { 3 } else if run % 2 == 1 { 2 + (run % 3) as usize } else { 0 };
        if c.scenario.wants_pct() {
            c.iterations *= 8;
        }
        self.run_case_inner(&c)
    }

    fn run_case(&self, case: &Value) -> RunOutcome {
        match serde_json::from_value::<Case>(case.clone()) {
            Ok(c) => self.run_case_inner(&c),
            Err(e) => RunOutcome { harness_error: Some(format!("bad schedsim case: {}", e)), ..Default::default() },
        }
    }

    fn shrink(&self, case: &Value) -> Vec<Value> {
        let c: Case = match serde_json::from_value(case.clone()) {
            Ok(c) => c,
            Err(_) => return vec![],
        };
        let mut out = vec![];
        // smaller scenarios, re-explored with the same seed family (the explicit schedule no longer fits)
        for s in scen::shrink(&c.scenario) {
            let mut d = c.clone();
            d.scenario = s;
            d.schedule = None;
            if d.iterations == 0 {
                d.iterations = 200;
            }
            d.iterations = d.iterations.max(200);
            out.push(serde_json::to_value(&d).unwrap());
        }
        let _ = ddmin_keepsets(0);
        out
    }

    fn rule(&self, profile: &str) -> String {
        let (p, _) = split_profile(profile);
        format!(
            "evaluation = one seeded scenario (profile '{}': 2-4 threads x 2-5 operations on the real component, explicit and replayable) explored under a batch of seeded schedules (RandomScheduler on even runs, PCT depth 2-4 on odd runs) by shuttle, every lock/condvar/atomic operation being a scheduling point; non-trivial = at least 2 threads; distinct = distinct scenarios; 'distinct_states' counts distinct complete schedules (hash of the recorded choice sequence)",
            p
        )
    }

    fn real_vs_stub(&self) -> Value {
        json!({
            "real": ["turdb (all modules, built from /repo working tree; the component under test is the shipped code)", "std", "memmap2 / kernel page cache for the whole-database scenarios"],
            "simulated": ["thread scheduling (shuttle: seeded random and PCT)", "parking_lot Mutex/RwLock/Condvar (shim over shuttle::sync)", "std atomics of budget.rs, page_locks.rs, group_commit.rs, cache.rs, page_buffer.rs, mvcc/transaction.rs (cfg switch to shuttle::sync::atomic)", "condvar timeouts never fire by themselves (a waiter nobody wakes is a reported deadlock)"]
        })
    }

    fn assumptions(&self, _profile: &str) -> Vec<String> {
        vec![
            "sequential consistency: shuttle does not reorder memory operations; weak-memory-only races are not explored".to_string(),
            "atomics outside the six switched files and every non-atomic shared access are not scheduling points".to_string(),
            "bounds: 2-4 threads, 2-5 operations per thread".to_string(),
        ]
    }
}
