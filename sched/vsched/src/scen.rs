//! Scenarios: explicit, serialisable descriptions of what each thread does; executed inside a
//! shuttle execution against the real TurDB components.

use serde::{Deserialize, Serialize};
use shuttle::thread;
use simcore::Rng;
use std::collections::BTreeMap;
use std::sync::atomic::{AtomicI64, AtomicU64, Ordering as O};
use std::sync::{Arc, Mutex};
use turdb::memory::{MemoryBudget, Pool};

pub type Probes = Arc<Mutex<BTreeMap<String, u64>>>;

fn probe(p: &Probes, k: &str) {
    *p.lock().unwrap().entry(k.to_string()).or_insert(0) += 1;
}

macro_rules! violate {
    ($($arg:tt)*) => { panic!("INVARIANT {}", format!($($arg)*)) };
}

#[derive(Clone, Copy, Debug, Serialize, Deserialize, PartialEq, Eq)]
pub enum PoolK {
    Cache,
    Query,
    Recovery,
    Schema,
    Shared,
}

impl PoolK {
    fn real(&self) -> Pool {
        match self {
            PoolK::Cache => Pool::Cache,
            PoolK::Query => Pool::Query,
            PoolK::Recovery => Pool::Recovery,
            PoolK::Schema => Pool::Schema,
            PoolK::Shared => Pool::Shared,
        }
    }
    const ALL: [PoolK; 5] = [PoolK::Cache, PoolK::Query, PoolK::Recovery, PoolK::Schema, PoolK::Shared];
}

#[derive(Clone, Debug, Serialize, Deserialize, PartialEq)]
pub enum BOp {
    Alloc(PoolK, usize),
    TryAlloc(PoolK, usize),
    /// release this thread's most recent unreleased successful allocation
    ReleaseLast,
}

#[derive(Clone, Debug, Serialize, Deserialize, PartialEq)]
pub enum LOp {
    Read(u32),
    Write(u32),
    WriteMulti(Vec<u32>),
    IntentShared,
    IntentExclusive,
}

#[derive(Clone, Debug, Serialize, Deserialize, PartialEq)]
pub enum COp {
    /// pin (get_or_insert), verify, optionally write a new pattern, yield, verify again, unpin
    Pin { key: (u32, u32), write: bool },
    Get { key: (u32, u32) },
    EvictAll,
}

#[derive(Clone, Debug, Serialize, Deserialize, PartialEq)]
pub enum TOp {
    /// one explicit transaction: BEGIN; `rows` inserts (+ optional update of the shared row); COMMIT
    Txn { table: usize, inserts: usize, update_shared: bool, long_value: bool },
    /// autocommit insert
    Auto { table: usize },
}

#[derive(Clone, Debug, Serialize, Deserialize, PartialEq)]
pub enum Scenario {
    Budget { limit: usize, threads: Vec<Vec<BOp>> },
    Locks { threads: Vec<Vec<LOp>> },
    Cache {
        threads: Vec<Vec<COp>>,
        /// entries per shard (cache capacity = 64 x this)
        #[serde(default = "one")]
        per_shard: usize,
    },
    Commit { tables: usize, with_index: bool, threads: Vec<Vec<TOp>> },
}

impl Scenario {
    pub fn kind(&self) -> &'static str {
        match self {
            Scenario::Budget { .. } => "budget",
            Scenario::Locks { .. } => "locks",
            Scenario::Cache { .. } => "cache",
            Scenario::Commit { .. } => "commit",
        }
    }
    pub fn threads(&self) -> usize {
        match self {
            Scenario::Budget { threads, .. } => threads.len(),
            Scenario::Locks { threads } => threads.len(),
            Scenario::Cache { threads, .. } => threads.len(),
            Scenario::Commit { threads, .. } => threads.len(),
        }
    }
    pub fn is_heavy(&self) -> bool {
        matches!(self, Scenario::Commit { .. })
    }
    /// scenarios whose interesting interleavings need a few precisely placed preemptions
    pub fn wants_pct(&self) -> bool {
        match self {
            Scenario::Locks { threads } => threads.len() == 4 && threads.iter().all(|t| t.len() <= 2),
            _ => false,
        }
    }
    pub fn describe(&self) -> String {
        let s = serde_json::to_string(self).unwrap_or_default();
        if s.len() > 900 {
            format!("{}…", &s[..900])
        } else {
            s
        }
    }
}

pub fn signature(s: &Scenario) -> Vec<(String, String)> {
    match s {
        Scenario::Budget { threads, .. } => {
            let mut pools: Vec<String> = vec![];
            for t in threads {
                for op in t {
                    if let BOp::Alloc(p, _) | BOp::TryAlloc(p, _) = op {
                        let n = format!("{:?}", p);
                        if !pools.contains(&n) {
                            pools.push(n);
                        }
                    }
                }
            }
            pools.sort();
            vec![("pools".into(), if pools.len() > 1 { "several".into() } else { "one".into() })]
        }
        Scenario::Locks { threads } => {
            let multi = threads.iter().any(|t| t.iter().any(|o| matches!(o, LOp::WriteMulti(_))));
            let reads = threads.iter().any(|t| t.iter().any(|o| matches!(o, LOp::Read(_))));
            vec![("write_multi".into(), multi.to_string()), ("readers".into(), reads.to_string())]
        }
        Scenario::Cache { threads, per_shard } => {
            let evict = threads.iter().any(|t| t.iter().any(|o| matches!(o, COp::EvictAll)));
            vec![("evict_all".into(), evict.to_string()), ("per_shard".into(), per_shard.to_string())]
        }
        Scenario::Commit { tables, with_index, threads } => {
            let shared = threads.iter().any(|t| t.iter().any(|o| matches!(o, TOp::Txn { update_shared: true, .. })));
            let long = threads.iter().any(|t| t.iter().any(|o| matches!(o, TOp::Txn { long_value: true, .. })));
            let same_table = {
                let mut seen = std::collections::BTreeSet::new();
                let mut dup = false;
                for (i, t) in threads.iter().enumerate() {
                    for o in t {
                        let tb = match o {
                            TOp::Txn { table, .. } | TOp::Auto { table } => *table,
                        };
                        if !seen.insert((tb, i)) {
                            continue;
                        }
                        if seen.iter().any(|(t2, i2)| *t2 == tb && *i2 != i) {
                            dup = true;
                        }
                    }
                }
                dup
            };
            vec![
                ("tables".into(), tables.to_string()),
                ("with_index".into(), with_index.to_string()),
                ("update_shared_row".into(), shared.to_string()),
                ("long_value".into(), long.to_string()),
                ("threads_share_table".into(), same_table.to_string()),
            ]
        }
    }
}

/// Which property owns a verdict.
pub fn owner_of(verdict: &str, requested: &str, s: &Scenario) -> String {
    match s {
        Scenario::Commit { .. } => match verdict {
            "committed-row-missing-after-recovery" | "stale-value-after-recovery" | "index-misses-committed-row" | "recovery-open-failed" | "recovered-table-unreadable" => "C38".to_string(),
            "deadlock" | "livelock" | "commit-acked-before-log-write" | "commit-failed" | "commit-after-quiesce-failed" => "C37".to_string(),
            _ => requested.to_string(),
        },
        Scenario::Budget { .. } => "C39".to_string(),
        Scenario::Locks { .. } => "C36".to_string(),
        Scenario::Cache { .. } => "C35".to_string(),
    }
}

// ---------------------------------------------------------------------------------- generation

pub fn generate(profile: &str, rng: &mut Rng, thorough: bool) -> Scenario {
    match profile {
        "budget" => {
            let nthreads = if rng.chance(1, 3) { 3 } else { 2 };
            let limit = 4 * 1024 * 1024;
            let mut threads = vec![];
            for _ in 0..nthreads {
                let n = rng.range(2, 5) as usize;
                let mut ops = vec![];
                let mut outstanding = 0;
                for _ in 0..n {
                    if outstanding > 0 && rng.chance(1, 3) {
                        ops.push(BOp::ReleaseLast);
                        outstanding -= 1;
                    } else {
                        let pool = if rng.chance(1, 2) { PoolK::ALL[rng.usize_below(5)] } else { *rng.pick(&[PoolK::Cache, PoolK::Query]) };
                        // sizes such that two concurrent requests fit individually but not together
                        let bytes = *rng.pick(&[1_600_000usize, 2_000_000, 1_200_000, 900_000, 2_600_000, 300_000, 3_000_000]);
                        if rng.chance(1, 3) {
                            ops.push(BOp::TryAlloc(pool, bytes));
                        } else {
                            ops.push(BOp::Alloc(pool, bytes));
                        }
                        outstanding += 1;
                    }
                }
                threads.push(ops);
            }
            Scenario::Budget { limit, threads }
        }
        "locks" => {
            // a third of the scenarios hammer one page with four threads (entry cleanup races need
            // release / re-create / late cleanup by three or four actors)
            let hot = rng.chance(1, 3);
            let _ = thorough;
            let nthreads = if hot { 4 } else { rng.range(2, 4) as usize };
            let npages = if hot { 1 } else { rng.range(1, 2) as u32 };
            let mut threads = vec![];
            for _ in 0..nthreads {
                let n = if hot { rng.range(1, 2) as usize } else { rng.range(2, 3) as usize };
                let mut ops = vec![];
                for _ in 0..n {
                    let page = rng.below(npages as u64) as u32;
                    if hot {
                        ops.push(if rng.chance(5, 6) { LOp::Write(0) } else { LOp::Read(0) });
                        continue;
                    }
                    ops.push(match rng.below(8) {
                        0 | 1 | 2 => LOp::Write(page),
                        3 | 4 => LOp::Read(page),
                        5 => LOp::WriteMulti((0..npages).collect()),
                        6 => LOp::IntentShared,
                        _ => LOp::IntentExclusive,
                    });
                }
                threads.push(ops);
            }
            Scenario::Locks { threads }
        }
        "cache" => {
            let nthreads = if rng.chance(1, 3) { 3 } else { 2 };
            // keys colliding in one or two shards (64 shards, one entry each): same (file*31+page) % 64
            // per-shard capacity 1, 2 or 4; with more than one entry per shard the keys are five pages
            // of one shard (eviction order, index fix-up after removal) plus one of another shard
            let per_shard = *rng.pick(&[1usize, 1, 2, 4]);
            let keys: Vec<(u32, u32)> = if per_shard == 1 {
                vec![(1, 0), (1, 64), (1, 128), (2, 33), (1, 1)]
            } else {
                vec![(1, 0), (1, 64), (1, 128), (1, 192), (1, 384), (1, 320), (1, 1)]
            };
            let mut threads = vec![];
            for _ in 0..nthreads {
                let n = if per_shard == 1 { rng.range(3, 5) } else { rng.range(4, 8) } as usize;
                let mut ops = vec![];
                for _ in 0..n {
                    let span = if per_shard > 1 { keys.len() } else if rng.chance(3, 4) { 3 } else { keys.len() };
                    let key = keys[rng.usize_below(span)];
                    ops.push(match rng.below(8) {
                        0..=4 => COp::Pin { key, write: rng.chance(1, 2) },
                        5 | 6 => COp::Get { key },
                        _ => COp::EvictAll,
                    });
                }
                threads.push(ops);
            }
            Scenario::Cache { threads, per_shard }
        }
        _ => {
            let nthreads = if rng.chance(1, 3) { 3 } else { 2 };
            let tables = if rng.chance(1, 2) { 1 } else { nthreads };
            let mut threads = vec![];
            for i in 0..nthreads {
                let n = rng.range(1, 2) as usize;
                let mut ops = vec![];
                for _ in 0..n {
                    let table = if tables == 1 { 0 } else { i % tables };
                    if rng.chance(1, 5) {
                        ops.push(TOp::Auto { table });
                    } else {
                        ops.push(TOp::Txn {
                            table,
                            inserts: *rng.pick(&[1usize, 1, 2, 3, 40]),
                            update_shared: rng.chance(1, 3),
                            long_value: rng.chance(1, 8),
                        });
                    }
                }
                threads.push(ops);
            }
            Scenario::Commit { tables, with_index: rng.chance(1, 2), threads }
        }
    }
}

pub fn shrink(s: &Scenario) -> Vec<Scenario> {
    fn drop_variants<T: Clone>(threads: &[Vec<T>]) -> Vec<Vec<Vec<T>>> {
        let mut out = vec![];
        // drop a whole thread (keep >= 2)
        if threads.len() > 2 {
            for i in 0..threads.len() {
                let mut t = threads.to_vec();
                t.remove(i);
                out.push(t);
            }
        }
        // drop one op of one thread (keep >= 1 op)
        for i in 0..threads.len() {
            if threads[i].len() > 1 {
                for j in 0..threads[i].len() {
                    let mut t = threads.to_vec();
                    t[i].remove(j);
                    out.push(t);
                }
            }
        }
        out
    }
    match s {
        Scenario::Budget { limit, threads } => drop_variants(threads).into_iter().map(|t| Scenario::Budget { limit: *limit, threads: t }).collect(),
        Scenario::Locks { threads } => drop_variants(threads).into_iter().map(|t| Scenario::Locks { threads: t }).collect(),
        Scenario::Cache { threads, per_shard } => drop_variants(threads).into_iter().map(|t| Scenario::Cache { threads: t, per_shard: *per_shard }).collect(),
        Scenario::Commit { tables, with_index, threads } => {
            let mut out: Vec<Scenario> = drop_variants(threads).into_iter().map(|t| Scenario::Commit { tables: *tables, with_index: *with_index, threads: t }).collect();
            if *with_index {
                out.push(Scenario::Commit { tables: *tables, with_index: false, threads: threads.clone() });
            }
            // simpler transactions
            for (i, t) in threads.iter().enumerate() {
                for (j, op) in t.iter().enumerate() {
                    if let TOp::Txn { table, inserts, update_shared, long_value } = op {
                        let mut alts = vec![];
                        if *inserts > 1 {
                            alts.push(TOp::Txn { table: *table, inserts: 1, update_shared: *update_shared, long_value: *long_value });
                        }
                        if *update_shared {
                            alts.push(TOp::Txn { table: *table, inserts: *inserts, update_shared: false, long_value: *long_value });
                        }
                        if *long_value {
                            alts.push(TOp::Txn { table: *table, inserts: *inserts, update_shared: *update_shared, long_value: false });
                        }
                        for a in alts {
                            let mut th = threads.clone();
                            th[i][j] = a;
                            out.push(Scenario::Commit { tables: *tables, with_index: *with_index, threads: th });
                        }
                    }
                }
            }
            out
        }
    }
}

// ----------------------------------------------------------------------------------- execution

pub fn execute(s: &Scenario, probes: &Probes) {
    match s {
        Scenario::Budget { limit, threads } => run_budget(*limit, threads, probes),
        Scenario::Locks { threads } => run_locks(threads, probes),
        Scenario::Cache { threads, per_shard } => run_cache(threads, *per_shard, probes),
        Scenario::Commit { tables, with_index, threads } => crate::scen_commit::run_commit(*tables, *with_index, threads, probes),
    }
}

fn run_budget(limit: usize, threads: &[Vec<BOp>], probes: &Probes) {
    let budget = Arc::new(MemoryBudget::with_limit(limit));
    let limit = budget.total_limit();
    // harness ledger of successful, unreleased allocations per pool
    let ledger: Arc<Vec<AtomicI64>> = Arc::new((0..5).map(|_| AtomicI64::new(0)).collect());
    let mut handles = vec![];
    for (ti, ops) in threads.iter().enumerate() {
        let (budget, ledger, ops, probes) = (budget.clone(), ledger.clone(), ops.clone(), probes.clone());
        handles.push(thread::spawn(move || {
            let mut mine: Vec<(PoolK, usize)> = vec![];
            for op in &ops {
                match op {
                    BOp::Alloc(p, n) | BOp::TryAlloc(p, n) => {
                        let ok = if matches!(op, BOp::Alloc(..)) { budget.allocate(p.real(), *n).is_ok() } else { budget.try_allocate(p.real(), *n) };
                        if ok {
                            probe(&probes, "alloc_ok");
                            mine.push((*p, *n));
                            ledger[PoolK::ALL.iter().position(|x| x == p).unwrap()].fetch_add(*n as i64, O::SeqCst);
                            let used = budget.total_used();
                            if used > limit {
                                violate!("limit-exceeded :: thread {} allocated {} bytes in {:?}; total tracked usage {} > limit {}", ti, n, p, used, limit);
                            }
                        } else {
                            probe(&probes, "alloc_refused");
                        }
                    }
                    BOp::ReleaseLast => {
                        if let Some((p, n)) = mine.pop() {
                            budget.release(p.real(), n);
                            ledger[PoolK::ALL.iter().position(|x| *x == p).unwrap()].fetch_sub(n as i64, O::SeqCst);
                        }
                    }
                }
            }
            mine
        }));
    }
    let mut outstanding: Vec<(PoolK, usize)> = vec![];
    for h in handles {
        outstanding.extend(h.join().unwrap());
    }
    // each pool's usage = successful allocations - releases
    let expected_total: i64 = ledger.iter().map(|a| a.load(O::SeqCst)).sum();
    if budget.total_used() as i64 != expected_total {
        violate!("pool-accounting-mismatch :: total_used {} but successful allocations minus releases = {}", budget.total_used(), expected_total);
    }
    for (p, n) in outstanding {
        budget.release(p.real(), n);
    }
    if budget.total_used() != 0 {
        violate!("not-zero-after-release :: total_used {} after releasing everything", budget.total_used());
    }
}

fn run_locks(threads: &[Vec<LOp>], probes: &Probes) {
    use turdb::database::page_locks::PageLockManager;
    let mgr = Arc::new(PageLockManager::new());
    let writers: Arc<Vec<AtomicI64>> = Arc::new((0..4).map(|_| AtomicI64::new(0)).collect());
    let readers: Arc<Vec<AtomicI64>> = Arc::new((0..4).map(|_| AtomicI64::new(0)).collect());
    let mut handles = vec![];
    for (ti, ops) in threads.iter().enumerate() {
        let (mgr, writers, readers, ops, probes) = (mgr.clone(), writers.clone(), readers.clone(), ops.clone(), probes.clone());
        handles.push(thread::spawn(move || {
            for op in &ops {
                match op {
                    LOp::Read(p) => {
                        let _g = mgr.page_read(1, *p);
                        readers[*p as usize].fetch_add(1, O::SeqCst);
                        let w = writers[*p as usize].load(O::SeqCst);
                        if w != 0 {
                            violate!("reader-with-writer :: thread {} holds a read lock on page {} while {} writer(s) hold the write lock", ti, p, w);
                        }
                        thread::yield_now();
                        let w = writers[*p as usize].load(O::SeqCst);
                        if w != 0 {
                            violate!("reader-with-writer :: thread {} holds a read lock on page {} while {} writer(s) hold the write lock", ti, p, w);
                        }
                        readers[*p as usize].fetch_sub(1, O::SeqCst);
                        probe(&probes, "read_lock");
                    }
                    LOp::Write(p) => {
                        let _g = mgr.page_write(1, *p);
                        crit_write(&writers, &readers, &[*p], ti);
                        probe(&probes, "write_lock");
                    }
                    LOp::WriteMulti(ps) => {
                        let pages: Vec<(u32, u32)> = ps.iter().map(|p| (1u32, *p)).collect();
                        let _g = mgr.page_write_multi(&pages);
                        crit_write(&writers, &readers, ps, ti);
                        probe(&probes, "write_multi_lock");
                    }
                    LOp::IntentShared => {
                        let _g = mgr.table_intent_shared(1);
                        thread::yield_now();
                        probe(&probes, "intent_shared");
                    }
                    LOp::IntentExclusive => {
                        let _g = mgr.table_intent_exclusive(1);
                        thread::yield_now();
                        probe(&probes, "intent_exclusive");
                    }
                }
            }
        }));
    }
    for h in handles {
        h.join().unwrap();
    }
    let (pages, tables) = mgr.verif_entry_counts();
    if pages != 0 || tables != 0 {
        violate!("lock-table-not-empty :: after every guard was dropped the lock tables still hold {} page entries and {} table entries", pages, tables);
    }
}

fn crit_write(writers: &[AtomicI64], readers: &[AtomicI64], pages: &[u32], ti: usize) {
    for p in pages {
        let w = writers[*p as usize].fetch_add(1, O::SeqCst) + 1;
        let r = readers[*p as usize].load(O::SeqCst);
        if w != 1 {
            violate!("two-writers :: thread {} holds the write lock on page {} together with {} other writer(s)", ti, p, w - 1);
        }
        if r != 0 {
            violate!("writer-with-reader :: thread {} holds the write lock on page {} while {} reader(s) hold read locks", ti, p, r);
        }
    }
    thread::yield_now();
    for p in pages {
        let w = writers[*p as usize].load(O::SeqCst);
        let r = readers[*p as usize].load(O::SeqCst);
        if w != 1 {
            violate!("two-writers :: thread {} holds the write lock on page {} together with {} other writer(s)", ti, p, w - 1);
        }
        if r != 0 {
            violate!("writer-with-reader :: thread {} holds the write lock on page {} while {} reader(s) hold read locks", ti, p, r);
        }
    }
    for p in pages {
        writers[*p as usize].fetch_sub(1, O::SeqCst);
    }
}

fn pattern(key: (u32, u32), seq: u64) -> u8 {
    // one byte identifies (key, write sequence); never 0
    (((key.0 * 7 + key.1 * 3) as u64 * 16 + seq % 16) % 250 + 1) as u8
}

fn key_of_pattern(b: u8, keys: &[(u32, u32)]) -> Option<(u32, u32)> {
    for k in keys {
        for seq in 0..16 {
            if pattern(*k, seq) == b {
                return Some(*k);
            }
        }
    }
    None
}

fn one() -> usize {
    1
}

fn run_cache(threads: &[Vec<COp>], per_shard: usize, probes: &Probes) {
    use turdb::storage::{PageCache, PageKey};
    let budget = Arc::new(MemoryBudget::with_limit(4 * 1024 * 1024));
    let cache = Arc::new(PageCache::with_budget(64 * per_shard.max(1), Some(budget.clone())).expect("cache"));
    let all_keys: Vec<(u32, u32)> = {
        let mut v = vec![];
        for t in threads {
            for op in t {
                let k = match op {
                    COp::Pin { key, .. } | COp::Get { key } => Some(*key),
                    _ => None,
                };
                if let Some(k) = k {
                    if !v.contains(&k) {
                        v.push(k);
                    }
                }
            }
        }
        v
    };
    // distinct patterns per key required for attribution
    let seq = Arc::new(AtomicU64::new(1));
    let mut handles = vec![];
    for (ti, ops) in threads.iter().enumerate() {
        let (cache, ops, probes, seq, all_keys) = (cache.clone(), ops.clone(), probes.clone(), seq.clone(), all_keys.clone());
        handles.push(thread::spawn(move || {
            let check = |data: &[u8], key: (u32, u32), when: &str| {
                let b = data[0];
                let uniform = data.iter().all(|x| *x == b);
                match key_of_pattern(b, &all_keys) {
                    Some(k) if k == key && uniform => {}
                    Some(k) if k != key => violate!("other-keys-data :: thread {} {} key {:?}: page holds the pattern of key {:?}", ti, when, key, k),
                    _ => violate!("mixed-page-content :: thread {} {} key {:?}: page content is not one pattern written for this key (first byte {}, uniform={})", ti, when, key, b, uniform),
                }
            };
            for op in &ops {
                match op {
                    COp::Pin { key, write } => {
                        let pk = PageKey::new(key.0, key.1);
                        let k = *key;
                        match cache.get_or_insert(pk, |d| {
                            d.fill(pattern(k, 0));
                            Ok(())
                        }) {
                            Ok(mut r) => {
                                probe(&probes, "pinned");
                                check(r.data(), k, "after pinning");
                                if *write {
                                    let s = seq.fetch_add(1, O::SeqCst);
                                    r.data_mut().fill(pattern(k, s));
                                }
                                let before = r.data()[0];
                                thread::yield_now();
                                // still pinned: must still be there with what we saw / wrote
                                let d = r.data();
                                check(d, k, "while pinned");
                                if *write && d[0] != before {
                                    // only one writer per key at a time is not guaranteed by the scenario;
                                    // a different pattern of the same key is acceptable, another key's is not
                                }
                                if cache.get(&pk).is_none() {
                                    violate!("pinned-page-evicted :: thread {} holds a pin on key {:?} but the cache no longer contains it", ti, k);
                                }
                            }
                            Err(_) => probe(&probes, "insert_refused"),
                        }
                    }
                    COp::Get { key } => {
                        let pk = PageKey::new(key.0, key.1);
                        if let Some(r) = cache.get(&pk) {
                            check(r.data(), *key, "after get");
                            probe(&probes, "get_hit");
                        } else {
                            probe(&probes, "get_miss");
                        }
                    }
                    COp::EvictAll => {
                        cache.evict_all_unpinned();
                        probe(&probes, "evict_all");
                    }
                }
                if cache.len() > cache.capacity() {
                    violate!("over-capacity :: cache holds {} entries, capacity {}", cache.len(), cache.capacity());
                }
            }
        }));
    }
    for h in handles {
        h.join().unwrap();
    }
    // at most `per_shard` entries per distinct shard, and never more entries than distinct keys
    let shards: std::collections::BTreeSet<usize> = all_keys.iter().map(|k| ((k.0 as usize) * 31 + k.1 as usize) % 64).collect();
    if cache.len() > shards.len() * per_shard.max(1) {
        violate!("over-capacity :: {} entries cached for keys that map to {} shards of {} entries", cache.len(), shards.len(), per_shard);
    }
    if cache.len() > all_keys.len() {
        violate!("duplicate-entry :: {} entries cached although only {} distinct keys were ever requested", cache.len(), all_keys.len());
    }
    // every key still cached must resolve to a page carrying one of its own patterns
    for k in &all_keys {
        if let Some(r) = cache.get(&PageKey::new(k.0, k.1)) {
            let b = r.data()[0];
            match key_of_pattern(b, &all_keys) {
                Some(kk) if kk == *k && r.data().iter().all(|x| *x == b) => {}
                Some(kk) if kk != *k => violate!("other-keys-data :: at the end key {:?} resolves to a page holding the pattern of key {:?}", k, kk),
                _ => violate!("mixed-page-content :: at the end key {:?}: page content is not one pattern written for this key", k),
            }
        }
    }
    let cached = cache.len();
    let used = budget.stats().cache_used;
    if used != cached * 16384 {
        violate!("cache-budget-mismatch :: {} pages cached but {} bytes accounted in the budget", cached, used);
    }
    cache.clear();
    if budget.total_used() != 0 {
        violate!("budget-not-zero-after-clear :: {} bytes still accounted after the cache was emptied", budget.total_used());
    }
}
