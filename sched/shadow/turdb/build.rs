fn main() {
    println!("cargo:rustc-cfg=kahflane_turdb_verif");
    println!("cargo:rustc-cfg=kahflane_turdb_verif_sched");
    println!("cargo:rustc-check-cfg=cfg(kahflane_turdb_verif)");
    println!("cargo:rustc-check-cfg=cfg(kahflane_turdb_verif_sched)");
    println!("cargo:rerun-if-changed=/repo/src");
    println!("cargo:rerun-if-changed=build.rs");
}
