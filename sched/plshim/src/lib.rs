//! parking_lot look-alike over shuttle primitives (see Cargo.toml).

use shuttle::sync::{Condvar as SCondvar, Mutex as SMutex, MutexGuard as SMutexGuard};
use std::cell::UnsafeCell;
use std::ops::{Deref, DerefMut};
use std::time::{Duration, Instant};

// ------------------------------------------------------------------------------------- Mutex

pub struct Mutex<T: ?Sized> {
    inner: SMutex<T>,
}

pub struct MutexGuard<'a, T: ?Sized> {
    inner: Option<SMutexGuard<'a, T>>,
}

impl<T> Mutex<T> {
    pub const fn new(value: T) -> Self {
        Mutex { inner: SMutex::new(value) }
    }
    pub fn into_inner(self) -> T {
        match self.inner.into_inner() {
            Ok(v) => v,
            Err(p) => p.into_inner(),
        }
    }
}

impl<T: ?Sized> Mutex<T> {
    pub fn lock(&self) -> MutexGuard<'_, T> {
        let g = match self.inner.lock() {
            Ok(g) => g,
            Err(p) => p.into_inner(),
        };
        MutexGuard { inner: Some(g) }
    }
    pub fn try_lock(&self) -> Option<MutexGuard<'_, T>> {
        match self.inner.try_lock() {
            Ok(g) => Some(MutexGuard { inner: Some(g) }),
            Err(std::sync::TryLockError::Poisoned(p)) => Some(MutexGuard { inner: Some(p.into_inner()) }),
            Err(std::sync::TryLockError::WouldBlock) => None,
        }
    }
    pub fn get_mut(&mut self) -> &mut T {
        match self.inner.get_mut() {
            Ok(v) => v,
            Err(p) => p.into_inner(),
        }
    }
}

impl<T: Default> Default for Mutex<T> {
    fn default() -> Self {
        Mutex::new(T::default())
    }
}

impl<T: ?Sized + std::fmt::Debug> std::fmt::Debug for Mutex<T> {
    fn fmt(&self, f: &mut std::fmt::Formatter<'_>) -> std::fmt::Result {
        f.write_str("Mutex { .. }")
    }
}

impl<T: ?Sized> Deref for MutexGuard<'_, T> {
    type Target = T;
    fn deref(&self) -> &T {
        self.inner.as_ref().expect("guard present")
    }
}
impl<T: ?Sized> DerefMut for MutexGuard<'_, T> {
    fn deref_mut(&mut self) -> &mut T {
        self.inner.as_mut().expect("guard present")
    }
}

// ----------------------------------------------------------------------------------- Condvar

pub struct WaitTimeoutResult(bool);
impl WaitTimeoutResult {
    pub fn timed_out(&self) -> bool {
        self.0
    }
}

pub struct Condvar {
    inner: SCondvar,
}

impl Condvar {
    pub const fn new() -> Self {
        Condvar { inner: SCondvar::new() }
    }
    pub fn wait<T>(&self, guard: &mut MutexGuard<'_, T>) {
        let g = guard.inner.take().expect("guard present");
        let g = match self.inner.wait(g) {
            Ok(g) => g,
            Err(p) => p.into_inner(),
        };
        guard.inner = Some(g);
    }
    /// Never times out by itself (as in shuttle): a waiter nobody wakes is a deadlock the
    /// scheduler reports.
    pub fn wait_for<T>(&self, guard: &mut MutexGuard<'_, T>, _timeout: Duration) -> WaitTimeoutResult {
        self.wait(guard);
        WaitTimeoutResult(false)
    }
    pub fn wait_until<T>(&self, guard: &mut MutexGuard<'_, T>, _deadline: Instant) -> WaitTimeoutResult {
        self.wait(guard);
        WaitTimeoutResult(false)
    }
    pub fn notify_one(&self) -> bool {
        self.inner.notify_one();
        true
    }
    pub fn notify_all(&self) -> usize {
        self.inner.notify_all();
        0
    }
}

impl Default for Condvar {
    fn default() -> Self {
        Condvar::new()
    }
}

impl std::fmt::Debug for Condvar {
    fn fmt(&self, f: &mut std::fmt::Formatter<'_>) -> std::fmt::Result {
        f.write_str("Condvar { .. }")
    }
}

// ------------------------------------------------------------------------------------ RwLock

struct RwState {
    readers: usize,
    writer: bool,
}

pub struct RwLock<T: ?Sized> {
    state: SMutex<RwState>,
    cv: SCondvar,
    data: UnsafeCell<T>,
}

// SAFETY: access to `data` is serialised by the reader/writer state machine.
unsafe impl<T: ?Sized + Send> Send for RwLock<T> {}
unsafe impl<T: ?Sized + Send + Sync> Sync for RwLock<T> {}

pub struct RwLockReadGuard<'a, T: ?Sized> {
    lock: &'a RwLock<T>,
}
pub struct RwLockWriteGuard<'a, T: ?Sized> {
    lock: &'a RwLock<T>,
}

impl<T> RwLock<T> {
    pub const fn new(value: T) -> Self {
        RwLock {
            state: SMutex::new(RwState { readers: 0, writer: false }),
            cv: SCondvar::new(),
            data: UnsafeCell::new(value),
        }
    }
    pub fn into_inner(self) -> T {
        self.data.into_inner()
    }
}

impl<T: ?Sized> RwLock<T> {
    fn st(&self) -> SMutexGuard<'_, RwState> {
        match self.state.lock() {
            Ok(g) => g,
            Err(p) => p.into_inner(),
        }
    }
    pub fn read(&self) -> RwLockReadGuard<'_, T> {
        let mut s = self.st();
        while s.writer {
            s = match self.cv.wait(s) {
                Ok(g) => g,
                Err(p) => p.into_inner(),
            };
        }
        s.readers += 1;
        RwLockReadGuard { lock: self }
    }
    pub fn write(&self) -> RwLockWriteGuard<'_, T> {
        let mut s = self.st();
        while s.writer || s.readers > 0 {
            s = match self.cv.wait(s) {
                Ok(g) => g,
                Err(p) => p.into_inner(),
            };
        }
        s.writer = true;
        RwLockWriteGuard { lock: self }
    }
    pub fn try_read(&self) -> Option<RwLockReadGuard<'_, T>> {
        let mut s = self.st();
        if s.writer {
            None
        } else {
            s.readers += 1;
            Some(RwLockReadGuard { lock: self })
        }
    }
    pub fn try_write(&self) -> Option<RwLockWriteGuard<'_, T>> {
        let mut s = self.st();
        if s.writer || s.readers > 0 {
            None
        } else {
            s.writer = true;
            Some(RwLockWriteGuard { lock: self })
        }
    }
    /// # Safety
    /// A read lock must be held by the caller (its guard having been forgotten).
    pub unsafe fn force_unlock_read(&self) {
        let mut s = self.st();
        s.readers = s.readers.saturating_sub(1);
        drop(s);
        self.cv.notify_all();
    }
    /// # Safety
    /// The write lock must be held by the caller (its guard having been forgotten).
    pub unsafe fn force_unlock_write(&self) {
        let mut s = self.st();
        s.writer = false;
        drop(s);
        self.cv.notify_all();
    }
    pub fn get_mut(&mut self) -> &mut T {
        self.data.get_mut()
    }
}

impl<T: Default> Default for RwLock<T> {
    fn default() -> Self {
        RwLock::new(T::default())
    }
}

impl<T: ?Sized> std::fmt::Debug for RwLock<T> {
    fn fmt(&self, f: &mut std::fmt::Formatter<'_>) -> std::fmt::Result {
        f.write_str("RwLock { .. }")
    }
}

impl<T: ?Sized> Deref for RwLockReadGuard<'_, T> {
    type Target = T;
    fn deref(&self) -> &T {
        // SAFETY: shared access while readers > 0 and no writer
        unsafe { &*self.lock.data.get() }
    }
}
impl<T: ?Sized> Drop for RwLockReadGuard<'_, T> {
    fn drop(&mut self) {
        // SAFETY: this guard holds one read lock
        unsafe { self.lock.force_unlock_read() }
    }
}
impl<T: ?Sized> Deref for RwLockWriteGuard<'_, T> {
    type Target = T;
    fn deref(&self) -> &T {
        // SAFETY: exclusive access while writer == true
        unsafe { &*self.lock.data.get() }
    }
}
impl<T: ?Sized> DerefMut for RwLockWriteGuard<'_, T> {
    fn deref_mut(&mut self) -> &mut T {
        // SAFETY: exclusive access while writer == true
        unsafe { &mut *self.lock.data.get() }
    }
}
impl<T: ?Sized> Drop for RwLockWriteGuard<'_, T> {
    fn drop(&mut self) {
        // SAFETY: this guard holds the write lock
        unsafe { self.lock.force_unlock_write() }
    }
}
