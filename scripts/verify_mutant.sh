#!/bin/bash
# usage: verify_mutant.sh <scratch worktree of /repo> <dir with patch.diff demo.rs>
# confirms: demo passes without the patch, fails with it, the repository's own suite still passes with it
wt=$1; d=$2
cd "$wt" || exit 2
if [ -n "$(git status --porcelain | grep -v '^?? out/')" ]; then echo "worktree not clean:"; git status --porcelain | head; exit 2; fi
cp "$d/demo.rs" tests/seeded_demo.rs
CARGO_NET_OFFLINE=true cargo test --offline --test seeded_demo >/tmp/vm.$$.log 2>&1; r0=$?
echo "demo without patch: rc=$r0 ($(grep -E '^test result' /tmp/vm.$$.log | head -1))"
git apply "$d/patch.diff" || { echo "patch does not apply"; rm -f tests/seeded_demo.rs; exit 2; }
CARGO_NET_OFFLINE=true cargo test --offline --test seeded_demo >/tmp/vm.$$.log 2>&1; r1=$?
echo "demo with patch: rc=$r1 ($(grep -E '^test result|panicked' /tmp/vm.$$.log | head -2 | tr '\n' ' '))"
rm -f tests/seeded_demo.rs
/verif/scripts/baseline.sh "$wt"; r2=$?
echo "suite with patch: rc=$r2"
git checkout -- . ; rm -f /tmp/vm.$$.log
[ $r0 -eq 0 ] && [ $r1 -ne 0 ] && [ $r2 -eq 0 ] && echo "CONFIRMED" || echo "NOT CONFIRMED"
