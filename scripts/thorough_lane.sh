#!/bin/bash
# usage: thorough_lane.sh <workers> <id>...  runs thorough checks sequentially with a worker cap
w=$1; shift
cd /verif
for c in "$@"; do
  t0=$(date +%s)
  out=$(VSIM_WORKERS=$w ./check $c --tier thorough 2>&1); rc=$?
  t1=$(date +%s)
  echo "== $c rc=$rc $((t1-t0))s $(echo "$out" | grep -c '^VIOLATION') violations, $(echo "$out" | grep -c '^KNOWN-FINDING') known; $(echo "$out" | grep '^runs=')"
  echo "$out" | grep -E "^violation|^  (after|step|crash)|HARNESS" | cut -c1-600 | head -16
done
