#!/bin/bash
# Offline build of every engine from files on disk only.
set -e
export CARGO_NET_OFFLINE=true
cd /verif/sim && cargo build --offline 2>&1 | tail -3
if [ -d /verif/sched ]; then cd /verif/sched && cargo build --offline 2>&1 | tail -3; fi
