#!/bin/bash
# Mutant lab: a scratch copy of /verif wired to a scratch worktree of /repo (/tmp/lab/repo), so that
# seeded changes can be tried without touching /repo while registered checks run. Scratch only:
# nothing registered in MANIFEST.json depends on it.
set -e
mkdir -p /tmp/lab
[ -d /tmp/lab/repo ] || git -C /repo worktree add -q --detach /tmp/lab/repo HEAD
git -C /tmp/lab/repo reset -q --hard; git -C /tmp/lab/repo checkout -q --detach $(git -C /repo rev-parse HEAD)
rsync -a --delete --exclude 'target' --exclude '.git' --exclude 'replays' --exclude 'evidence' /verif/ /tmp/lab/verif/
mkdir -p /tmp/lab/verif/evidence /tmp/lab/verif/replays
cd /tmp/lab/verif
grep -rlE "/repo|/verif" --include='*.rs' --include='*.toml' --include='*.sh' --include='check' --include='*.py' . | xargs sed -i -e 's#/verif#/tmp/lab/verif#g' -e 's#/repo#/tmp/lab/repo#g'
echo "lab synced to $(git -C /tmp/lab/repo rev-parse --short HEAD)"
