#!/usr/bin/env python3
"""Prints the markdown table of DESIGN.md §13.10 from /verif/seeded/*/meta.json."""
import json,glob,os
rows=[]
for d in sorted(glob.glob('/verif/seeded/*/meta.json')):
    m=json.load(open(d)); k=os.path.basename(os.path.dirname(d))
    c=m.get('checks',{})
    caught=", ".join(c.get('caught_by',[])) or "—"
    missed=", ".join(c.get('missed_by',[]))
    first="yes" if not c.get('missed_first') else "no"
    note=c.get('strengthening') or c.get('note') or ""
    summ=m.get('summary','').replace('|','/')
    if len(summ)>170: summ=summ[:167]+"…"
    rows.append(f"| {k} | {summ} | {caught}{(' (not: '+missed+')') if missed else ''} | {first} | {note.replace('|','/')} |")
print("| id | change | caught by check(s) | at first attempt | what was strengthened / why missed |")
print("|---|---|---|---|---|")
print("\n".join(rows))
