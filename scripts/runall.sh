#!/bin/bash
# runs every registered quick check once, sequentially; prints one summary line per check
cd /verif
for c in $(python3 -c "import json; print(' '.join(x['property_id'] for x in json.load(open('MANIFEST.json'))['checks']))"); do
  t0=$(date +%s)
  out=$(./check $c --tier ${1:-quick} 2>&1); rc=$?
  t1=$(date +%s)
  echo "== $c rc=$rc $((t1-t0))s  $(echo "$out" | grep -c '^VIOLATION') violations, $(echo "$out" | grep -c '^KNOWN-FINDING') known"
  echo "$out" | grep -E "^violation|^  (after|step|crash)|HARNESS" | cut -c1-500 | head -12
done
