#!/bin/bash
# usage: trymutant.sh <patch.diff> <check id>...   applies the patch to /repo, runs the quick checks, reverts
p=$1; shift
cd /repo || exit 2
if [ -n "$(git status --porcelain)" ]; then echo "repo not clean"; exit 2; fi
git apply --3way "$p" 2>/dev/null || git apply "$p" || { echo "patch does not apply"; exit 2; }
cd /verif
for c in "$@"; do
  out=$(./check $c --tier ${TIER:-quick} 2>&1); rc=$?
  echo "== $c rc=$rc $(echo "$out" | grep -c '^VIOLATION') violations, $(echo "$out" | grep -c '^KNOWN-FINDING') known"
  echo "$out" | grep -E "^violation|^  (after|step|crash)|HARNESS|^VIOLATION" | cut -c1-400 | head -${LINES_MAX:-8}
done
git -C /repo reset -q --hard HEAD
(cd /verif/sim && cargo build --offline -q 2>/dev/null; cd /verif/sched && cargo build --offline -q 2>/dev/null)  # binaries back to the unchanged tree
git -C /repo status --porcelain | head -3
