#!/bin/bash
# runs every registered quick check under several seeds; prints only checks that do not exit 0
cd /verif
for s in "$@"; do
  for c in $(python3 -c "import json; print(' '.join(x['property_id'] for x in json.load(open('MANIFEST.json'))['checks']))"); do
    out=$(./check $c --tier quick --seed $s 2>&1); rc=$?
    if [ $rc -ne 0 ]; then
      echo "== seed $s $c rc=$rc"
      echo "$out" | grep -E "^violation|^  (after|step|crash)|HARNESS" | cut -c1-600 | head -12
    else
      echo "ok seed $s $c"
    fi
  done
done
