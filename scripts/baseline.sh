#!/bin/bash
# Runs the repository's own test suite with the verification guard OFF (plain cargo, /repo's own
# manifest) and checks that every test in BASELINE.json's stable_pass list passes.
# exit 0 = all stable tests pass; 1 = some stable test failed or is missing.
set -u
cd "${1:-/repo}"
LOG=$(mktemp /tmp/baseline.XXXXXX.log)
CARGO_NET_OFFLINE=true cargo test --workspace --no-fail-fast --offline -- --test-threads 8 >"$LOG" 2>&1
python3 - "$LOG" <<'PY'
import json,re,sys
log=open(sys.argv[1],errors='replace').read()
base=json.load(open('/root/.vp/BASELINE.json'))
stable=set(base['stable_pass'])
# map "turdb::a::b" / "turdb::tests/file::name" -> test name as cargo prints it
passed=set(); failed=set()
cur=None
for line in log.splitlines():
    m=re.match(r'\s+Running (unittests )?(\S+)',line)
    if m:
        path=m.group(2)
        if path.startswith('src/lib.rs'): cur='lib'
        elif path.startswith('tests/'): cur=path[len('tests/'):].split('.')[0]
        else: cur=path
        continue
    m=re.match(r'test (\S+) \.\.\. (ok|FAILED|ignored)',line)
    if m:
        name,res=m.group(1),m.group(2)
        key=(cur,name)
        (passed if res=='ok' else failed if res=='FAILED' else set()).add(key)
def norm(s):
    # baseline ids look like "turdb::module::test" (lib) or "turdb::<testfile>::test" / "turdb::<testfile>$test"
    return s
names_passed=set()
for cur,name in passed:
    names_passed.add(name)
    names_passed.add(f"{cur}::{name}")
missing=[]
for s in sorted(stable):
    t=s.split('::',1)[1] if '::' in s else s
    t2=t.replace('$','::')
    last=t2
    ok = t2 in names_passed
    if not ok: missing.append(s)
print(f"stable tests: {len(stable)}  passed-in-this-run: {len(passed)}  failed-in-this-run: {len(failed)}  stable-not-passing: {len(missing)}")
for m in missing[:40]: print("  NOT PASSING:",m)
sys.exit(1 if missing else 0)
PY
rc=$?
rm -f "$LOG"
exit $rc
