#!/usr/bin/env python3
"""Regenerates /verif/MANIFEST.json from the table below (keeps it schema-valid at all times)."""
import json, subprocess

PURE = {
 "C13": "parameter binding vs literal inlining is a pure function of (statement text, parameter values): no schedule, clock, fault, I/O or interleaving in the property; seeded input generation would be property-based testing, not simulation (DESIGN.md §7)",
 "C14": "WHERE / three-valued-logic evaluation is a pure function of (row, expression) (DESIGN.md §7)",
 "C15": "ORDER BY / LIMIT / OFFSET / DISTINCT are pure functions of (table contents, query) (DESIGN.md §7)",
 "C16": "aggregates and GROUP BY are pure functions of (table contents, query) (DESIGN.md §7)",
 "C18": "subquery and set-operation semantics are pure functions of (table contents, query) (DESIGN.md §7)",
 "C19": "equivalence of query rewrites is a metamorphic relation over inputs, with no fault or schedule dimension (DESIGN.md §7)",
 "C20": "scalar functions, CAST and arithmetic are pure functions of their arguments (DESIGN.md §7)",
 "C22": "robustness over all SQL texts / parameter lists is input-space fuzzing; no fault or schedule is part of the statement. Panics and hangs seen during simulated runs are still reported under the property whose check observed them (DESIGN.md §7)",
 "C24": "distance kernels and ORDER BY distance are pure functions of the vectors (DESIGN.md §7)",
 "C26": "key-encoding order/injectivity is a pure function of the values (DESIGN.md §7)",
 "C27": "varint round-trip is a pure function of the value / bytes (DESIGN.md §7)",
 "C30": "vectorised leaf search vs binary search is a pure function of (page, probe) (DESIGN.md §7); the AVX2 defect that blocked every other check was nevertheless repaired (fix: d6dfa8b)",
 "C31": "record build/read round-trip is a pure function of (schema, row) (DESIGN.md §7)",
 "C32": "JSON <-> JSONB round-trip is a pure function of the document (DESIGN.md §7)",
 "C33": "spill-row serialisation round-trip is a pure function of the row (DESIGN.md §7)",
 "C41": "calendar conversions are pure functions of the date/time fields (DESIGN.md §7)",
}

# id -> (engine, level, text, note, technique, design_ref)
DSIM_NOTE = "trusted base: the relational reference model (sim/vsim/src/dsim/model.rs) over the SQL subset of sim/DIALECT.md; simdisk's durability model; bounded histories (<= 80 operations, small value domains); sampling, not proof"
CLAIMS = {}
def claim(pid, engine, level, text, note, technique, ref):
    CLAIMS[pid] = dict(engine=engine, level=level, text=text, note=note, technique=technique, ref=ref)

import os
exec(open(os.path.join(os.path.dirname(__file__), "claims.py")).read())

NOT_DONE = {}  # id -> reason, for claimed-in-design properties whose check is not registered yet
if os.path.exists(os.path.join(os.path.dirname(__file__), "not_done.json")):
    NOT_DONE = json.load(open(os.path.join(os.path.dirname(__file__), "not_done.json")))

props = [json.loads(l)["id"] for l in open("/verif/properties.jsonl")]
checks = []
na = []
for pid in props:
    if pid in CLAIMS:
        c = CLAIMS[pid]
        checks.append({
            "property_id": pid,
            "quick_cmd": f"./check {pid} --tier quick",
            "thorough_cmd": f"./check {pid} --tier thorough",
            "evidence_file": f"/verif/evidence/{pid}.json",
            "replay_cmd_template": "./check replay {path}",
            "engine": c["engine"],
            "level_claimed": {"category": c["level"], "text": c["text"], "design_ref": c["ref"]},
            "level_note": c["note"],
            "technique": c["technique"],
        })
    elif pid in PURE:
        na.append({"property_id": pid, "reason": PURE[pid]})
    else:
        na.append({"property_id": pid, "reason": NOT_DONE.get(pid, "deterministic-simulation check designed (DESIGN.md §6) but not yet completed and demonstrated sound; withdrawn until it is")})

hooks_commits = subprocess.run(["git", "-C", "/repo", "log", "--format=%h %s", "--grep=^verif hook"], capture_output=True, text=True).stdout.strip().splitlines()
manifest = {
    "version": 1,
    "setup_cmd": "cd /verif && ./scripts/setup.sh",
    "hooks": {
        "guard": "--cfg kahflane_turdb_verif (and --cfg kahflane_turdb_verif_sched for the scheduler flavour)",
        "enable": "set only by the build scripts of the shadow manifests /verif/sim/shadow/turdb and /verif/sched/shadow/turdb, whose [lib] path is /repo/src/lib.rs; /repo/Cargo.toml and Cargo.lock are never touched, so every build through /repo's own manifest has the guard off",
        "baseline_off_cmd": "/verif/scripts/baseline.sh",
        "source_commits": [l.split()[0] for l in hooks_commits],
        "add_only": True,
    },
    "engines": [
        {"name": "dsim", "path": "sim/vsim", "serves_properties": [p for p in props if CLAIMS.get(p, {}).get("engine") == "dsim"], "kind_free_text": "whole-database deterministic simulation: real turdb::Database on simdisk (libc-boundary disk/clock/entropy simulation, crash images, injected I/O errors), relational reference model, seeded swarm workloads, twins"},
        {"name": "walsim", "path": "sim/walsim", "serves_properties": [p for p in props if CLAIMS.get(p, {}).get("engine") == "walsim"], "kind_free_text": "WAL public API histories + enumerated cut/zero-fill/flip faults on the segment files vs frame-list model"},
        {"name": "btsim", "path": "sim/btsim", "serves_properties": [p for p in props if CLAIMS.get(p, {}).get("engine") == "btsim"], "kind_free_text": "BTree/Freelist over an in-memory Storage vs ordered-map / set models, independent page walker"},
        {"name": "corruptsim", "path": "sim/corruptsim", "serves_properties": [p for p in props if CLAIMS.get(p, {}).get("engine") == "corruptsim"], "kind_free_text": "stored-byte faults on every file of a valid database and on harvested encodings; panic/abort/hang oracle"},
        {"name": "hnswsim", "path": "sim/hnswsim", "serves_properties": [p for p in props if CLAIMS.get(p, {}).get("engine") == "hnswsim"], "kind_free_text": "PersistentHnswIndex histories on simdisk vs brute-force row->vector model, reopen and sync-image differential"},
        {"name": "schedsim", "path": "sched/vsched", "serves_properties": [p for p in props if CLAIMS.get(p, {}).get("engine") == "schedsim"], "kind_free_text": "shuttle-controlled thread schedules over TurDB's own code (parking_lot replaced by a shuttle-backed shim, atomics switched by cfg)"},
    ],
    "checks": checks,
    "not_applicable": na,
    "notes": "Family: deterministic simulation with fault injection. One PRNG (VERIF_SEED, default 1) decides every workload, schedule and fault; every violation is minimised and written as an explicit replay file that is re-executed in a fresh process before it is reported. Known genuine defects are listed in /verif/known_findings.json (open entries print KNOWN-FINDING and exit 0; fixed entries suppress nothing). See DESIGN.md.",
}
json.dump(manifest, open("/verif/MANIFEST.json", "w"), indent=1)
print("checks:", [c["property_id"] for c in checks])
print("not_applicable:", [n["property_id"] for n in na])
