claim("C05", "dsim", "exploration",
      "Seeded search over DML histories (INSERT single/multi-row, UPDATE, DELETE, TRUNCATE, SELECT, COUNT(*)) over swarm-generated schemas, executed against the real Database; every statement's Ok/Err, affected-row count and RETURNING rows and, after every write, the full observation set (scan, COUNT(*), indexed lookups) are compared with a relational reference model. Exploration is the honest level: histories are sampled, not enumerated.",
      DSIM_NOTE, "deterministic simulation: op-by-op refinement against a relational reference model (fault-free profile)", "DESIGN.md §6 C05")
claim("C04", "dsim", "exploration",
      "Seeded histories with lifecycle events (Database::checkpoint, PRAGMA wal_checkpoint, automatic checkpoint via a small threshold, close()+open, drop+open) inserted at seeded operation boundaries, WAL on and off: the observation set Q (scan, COUNT(*), indexed lookups) after each event must equal the reference model's unchanged state, and a twin run of the same history without the events must produce an identical transcript for every later statement (covers AUTO_INCREMENT counters and write behaviour after reopen).",
      DSIM_NOTE, "deterministic simulation: lifecycle events at seeded points, model comparison + no-lifecycle twin differential", "DESIGN.md §6 C04")
claim("C06", "dsim", "exploration",
      "Seeded histories in which a share of the statements is aimed at failing (k-th row of a multi-row INSERT violates PK/UNIQUE/NOT NULL/CHECK/FK, colliding or constraint-violating UPDATEs, type errors) in autocommit and inside transactions; whenever the engine returns an error the observation set must equal the model's unchanged state. The injected-I/O-error variant (armed EIO/ENOSPC/EMFILE inside a statement through simdisk) is part of the same profile.",
      DSIM_NOTE, "deterministic simulation: failing statements (semantic and injected I/O faults) must leave the observation set unchanged", "DESIGN.md §6 C06")
claim("C07", "dsim", "exploration",
      "Seeded transaction histories with nested savepoints, RELEASE, ROLLBACK TO, ROLLBACK and close/drop of the handle with an open transaction; the model snapshots at BEGIN and every SAVEPOINT; after each rollback the observation set (rows, COUNT(*), index lookups) must equal the snapshot, and later writes must behave as in the snapshot (the run continues against the restored model).",
      DSIM_NOTE, "deterministic simulation: model snapshots at BEGIN/SAVEPOINT vs observation set after ROLLBACK [TO] / handle drop", "DESIGN.md §6 C07")
claim("C09", "dsim", "exploration",
      "Seeded histories over schemas rich in PRIMARY KEY / UNIQUE / NOT NULL / CHECK / FOREIGN KEY (RESTRICT, CASCADE) declarations; the model accepts a write iff the resulting state satisfies every declared constraint, and both directions are checked statement by statement: a write the model rejects must fail, a write it accepts must succeed.",
      DSIM_NOTE, "deterministic simulation: accept/reject of every write decided by a reference model of the declared constraints", "DESIGN.md §6 C09")
claim("C10", "dsim", "exploration",
      "Index-heavy seeded histories (CREATE/DROP INDEX as events, ascending/descending/random insert orders, updates of indexed columns, deletes, rollbacks): every point/range/IN lookup on an indexed column is compared with the model and with the engine's own full scan, and an index-free twin database receives the same DML and must give the same transcript.",
      DSIM_NOTE, "deterministic simulation: indexed lookups vs full scan vs model, plus index-free twin differential", "DESIGN.md §6 C10")
claim("C11", "dsim", "exploration",
      "PARTIAL (state/persistence dimension only): boundary-biased values per type (extreme integers, multi-kilobyte TEXT/BLOB through TOAST, UTF-8-valid blobs, floats) written by literal, bound-parameter and prepared paths must read back unchanged after later updates, deletes of neighbours, checkpoint, close/reopen. The quantifier 'all values of every type' itself is input-space exploration and outside this family.",
      DSIM_NOTE, "deterministic simulation: value fidelity through TOAST / update / lifecycle events against the model", "DESIGN.md §6 C11")
claim("C12", "dsim", "exploration",
      "Invariant monitor over every generated AUTO_INCREMENT id observed through RETURNING in seeded histories with explicit ids, deletes, rollbacks (full and to savepoint) and reopen cycles: strictly greater than every id previously generated or held for the table, never reused.",
      DSIM_NOTE, "deterministic simulation: monotonic / never-reused invariant over observed generated ids", "DESIGN.md §6 C12")
claim("C21", "dsim", "exploration",
      "Seeded interleavings of CREATE/DROP TABLE, CREATE/DROP INDEX, ALTER TABLE ADD/DROP/RENAME COLUMN and TRUNCATE with DML and with close/drop+reopen events, compared with the model's schema semantics after every step (added columns read as default or NULL, other columns intact, effects survive reopening).",
      DSIM_NOTE, "deterministic simulation: DDL interleaved with DML and reopen vs relational model", "DESIGN.md §6 C21")
claim("C42", "dsim", "exploration",
      "One seeded history is executed under 4 configurations sampled from {wal on/off} x {synchronous OFF/NORMAL/FULL} x {autoflush on/off} x {checkpoint threshold 2/50/default}, some histories with more than 22 tables and indexes so that more than 64 files are open; all transcripts (results, affected counts, error/ok, observation sets) must be identical and equal to the model's.",
      DSIM_NOTE, "deterministic simulation: configuration twins of one history must produce identical transcripts", "DESIGN.md §6 C42")
claim("C43", "dsim", "exploration",
      "Seeded histories in which row batches are loaded through insert_batch, bulk_insert and a re-executed prepared INSERT (insert_cached) interleaved with ordinary DML; the model applies the same rows with row-at-a-time INSERT semantics, and the observation set (scan, COUNT(*), index lookups), later constraint outcomes and generated ids must agree.",
      DSIM_NOTE, "deterministic simulation: bulk-load APIs vs row-at-a-time INSERT semantics of the reference model", "DESIGN.md §6 C43")
