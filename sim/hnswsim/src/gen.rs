//! Seeded generation of cases: a pure function of the Rng it is handed.

use crate::case::{Case, Op, Query};
use simcore::{Rng, Tier};
use std::collections::BTreeMap;

/// Component palettes (all exactly representable in f32).
const PALETTES: &[&[f32]] = &[
    &[-2.0, -1.0, 0.0, 1.0, 2.0, 3.0],
    &[0.0, 1.0],
    &[-1.0, -0.5, 0.0, 0.25, 0.5, 1.0],
    &[0.0, 0.0, 0.0, 1.0, -1.0],
    &[-1000.0, -1.0, 0.0, 0.5, 1.0, 1000.0],
    &[-1.0e6, -3.0, 0.0, 2.0, 1.0e6],
    &[0.125, 0.25, 0.375, 0.5, 0.625, 0.75, 0.875, 1.0],
];

fn gen_vec(rng: &mut Rng, dims: usize, pal: &[f32]) -> Vec<f32> {
    if pal.is_empty() {
        return gen_unit_vec(rng, dims);
    }
    (0..dims).map(|_| *rng.pick(pal)).collect()
}

/// A vector of Euclidean norm exactly 1 in f32: a signed basis vector, or (+-0.5) on four
/// coordinates.
fn gen_unit_vec(rng: &mut Rng, dims: usize) -> Vec<f32> {
    let mut v = vec![0.0f32; dims];
    if dims >= 4 && rng.chance(1, 2) {
        let mut idx: Vec<usize> = (0..dims).collect();
        rng.shuffle(&mut idx);
        for i in idx.into_iter().take(4) {
            v[i] = if rng.chance(1, 2) { 0.5 } else { -0.5 };
        }
    } else {
        let i = rng.usize_below(dims);
        v[i] = if rng.chance(1, 2) { 1.0 } else { -1.0 };
    }
    v
}

/// Level draw: a multiple of 1/4096 in (0, 1], sometimes tiny (high level), rarely 0.0 or 1.0.
fn gen_rnd(rng: &mut Rng, flat: bool) -> f64 {
    if flat {
        return 1.0;
    }
    match rng.below(100) {
        0 => 0.0,
        1..=3 => 1.0,
        4..=13 => (1 + rng.below(8)) as f64 / 4096.0,
        14..=29 => (1 + rng.below(256)) as f64 / 4096.0,
        _ => (1 + rng.below(4095)) as f64 / 4096.0,
    }
}

fn level_of(rnd: f64, m: u16) -> u8 {
    let ml = 1.0 / (m as f64).ln();
    ((-rnd.ln() * ml).floor() as u8).min(15)
}

pub fn gen_case(rng: &mut Rng, tier: Tier) -> Case {
    let dims = match rng.below(10) {
        0 => 1,
        1..=2 => 2,
        3..=4 => 3,
        5 => 4,
        6 => 5,
        7 => 6,
        8 => 7,
        _ => 8,
    } as usize;
    let metric = match rng.below(8) {
        0..=3 => "l2",
        4..=5 => "cosine",
        _ => "ip",
    };
    let quant = if rng.chance(3, 10) { "sq8" } else { "none" };
    let api = rng.weighted(&[35, 50, 15]); // plain, callback, mixed
    let m = *rng.pick(&[2u16, 4, 4, 8, 16, 16, 16, 32]);
    let ef_construction = *rng.pick(&[1u16, 4, 16, 100, 100, 200]);
    let ef_search = *rng.pick(&[16u16, 32, 64]);
    let flat_levels = rng.chance(1, 5);

    // size and delete profile
    let big = tier == Tier::Thorough;
    let n_ops = match rng.weighted(if big { &[20, 30, 30, 20] } else { &[35, 35, 20, 10] }) {
        0 => rng.range(3, 12),
        1 => rng.range(10, 40),
        2 => rng.range(40, 100),
        _ => rng.range(100, 220),
    } as usize;
    let del_profile = rng.weighted(&[35, 40, 25]); // none, light, heavy
    let (w_ins, w_del) = match del_profile {
        0 => (100, 0),
        1 => (80, 10),
        _ => (55, 30),
    };
    let w_vac = if del_profile == 0 { 1 } else { 5 };
    let w_sync = 3;
    let w_reopen = 4;
    let w_delmiss = 1;

    // vector pool: duplicates and ties are common when the pool is small
    // cosine indexes: half of the runs keep the documented precondition "vectors are normalised"
    // (an empty palette stands for exactly-unit-norm vectors)
    let unit_mode = metric == "cosine" && rng.chance(1, 2);
    let pal: &[f32] = if unit_mode { &[] } else { PALETTES[rng.usize_below(PALETTES.len())] };
    let pool_n = match rng.below(4) {
        0 => 3,
        1 => 8,
        2 => 24,
        _ => 200,
    };
    let mut pool: Vec<Vec<f32>> = (0..pool_n).map(|_| gen_vec(rng, dims, pal)).collect();
    if rng.chance(1, 3) && !unit_mode {
        pool[0] = vec![0.0; dims];
    }

    let mut ops: Vec<Op> = vec![];
    let mut live: Vec<u64> = vec![];
    let mut dead_rows: Vec<u64> = vec![];
    let mut by_node_dead: Vec<u64> = vec![];
    let mut levels: BTreeMap<u64, u8> = BTreeMap::new();
    let mut ep: Option<u64> = None;
    let mut max_level = 0u8;
    let mut next_row: u64 = if rng.chance(1, 10) { (1u64 << 40) + rng.below(1000) } else { 1 };
    let mut total_inserts = 0usize;
    let unsynced_ok = rng.chance(1, 3);

    while ops.len() < n_ops {
        let can_del = !live.is_empty();
        let k = rng.weighted(&[w_ins, if can_del { w_del } else { 0 }, w_vac, w_sync, w_reopen, w_delmiss]);
        match k {
            0 => {
                if total_inserts >= 200 {
                    // the file is kept at <= 200 nodes
                    if ops.len() + 1 >= n_ops {
                        break;
                    }
                    ops.push(Op::Sync);
                    continue;
                }
                let row = if !dead_rows.is_empty() && rng.chance(1, 6) {
                    let i = rng.usize_below(dead_rows.len());
                    let r = dead_rows.swap_remove(i);
                    by_node_dead.retain(|x| *x != r);
                    r
                } else {
                    let r = next_row;
                    next_row += 1 + if rng.chance(1, 10) { rng.below(5) } else { 0 };
                    r
                };
                let vec = if rng.chance(1, 12) { gen_vec(rng, dims, pal) } else { pool[rng.usize_below(pool.len())].clone() };
                let rnd = gen_rnd(rng, flat_levels);
                let cb = match api {
                    0 => false,
                    1 => true,
                    _ => rng.chance(1, 2),
                };
                let lvl = level_of(rnd, m);
                if ep.is_none() {
                    ep = Some(row);
                    max_level = lvl;
                } else if lvl > max_level {
                    ep = Some(row);
                    max_level = lvl;
                }
                levels.insert(row, lvl);
                live.push(row);
                total_inserts += 1;
                ops.push(Op::Insert { row, vec, rnd, cb });
            }
            1 => {
                // prefer the (predicted) entry point now and then
                let row = match ep {
                    Some(e) if live.contains(&e) && rng.chance(1, 4) => e,
                    _ => live[rng.usize_below(live.len())],
                };
                live.retain(|x| *x != row);
                dead_rows.push(row);
                let by_node = rng.chance(1, 4);
                if by_node {
                    by_node_dead.push(row);
                }
                ops.push(Op::Delete { row, by_node });
            }
            2 => ops.push(Op::Vacuum { max: *rng.pick(&[1usize, 2, 10, 1000]) }),
            3 => ops.push(Op::Sync),
            4 => ops.push(Op::Reopen { sync: !(unsynced_ok && rng.chance(1, 3)) }),
            _ => {
                let row = if !dead_rows.is_empty() && rng.chance(1, 2) {
                    let r = dead_rows[rng.usize_below(dead_rows.len())];
                    if by_node_dead.contains(&r) {
                        next_row + 1000
                    } else {
                        r
                    }
                } else {
                    next_row + 1000 + rng.below(10)
                };
                ops.push(Op::DeleteMissing { row });
            }
        }
    }

    // queries
    let mut queries: Vec<Query> = vec![];
    let nq = rng.range(4, 7) as usize;
    let ks = [1usize, 1, 2, 3, 5, 10, 40, 512];
    let efs = [1usize, 2, 4, 8, 16, 32, 64, 512];
    for qi in 0..nq {
        let vec = match rng.below(6) {
            0 | 1 => pool[rng.usize_below(pool.len())].clone(),
            2 => {
                let mut v = pool[rng.usize_below(pool.len())].clone();
                let i = rng.usize_below(dims);
                v[i] += *rng.pick(&[0.25f32, -0.25, 0.5, 1.5]);
                v
            }
            3 => vec![0.0; dims],
            4 => {
                let far = *rng.pick(&[1000.0f32, -1000.0, 1.0e6]);
                (0..dims).map(|_| far).collect()
            }
            _ => gen_vec(rng, dims, pal),
        };
        let (k, ef, filtered) = if qi == 0 {
            // the covering query: wider than any index of this engine (<= 200 nodes)
            (512, 512, false)
        } else if qi == 1 {
            // the same through search_filtered
            (512, 512, true)
        } else if qi == 2 {
            (*rng.pick(&[1usize, 3, 10]), *rng.pick(&[1usize, 2, 8, 32]), false)
        } else {
            (*rng.pick(&ks), *rng.pick(&efs), rng.chance(1, 3))
        };
        let vec = if qi == 1 { queries[0].vec.clone() } else { vec };
        queries.push(Query { vec, k, ef, filtered });
    }

    // extra SQ8 inputs: wide, narrow, offset and extreme ranges
    let mut sq8_extra: Vec<Vec<f32>> = vec![];
    if rng.chance(1, 2) {
        let n = rng.range(1, 3);
        for _ in 0..n {
            let v: Vec<f32> = match rng.below(7) {
                0 => (0..dims).map(|_| *rng.pick(&[1.0e6f32, 1.0e6 + 0.5, 1.0e6 + 1.0])).collect(),
                1 => (0..dims).map(|_| *rng.pick(&[-1.0e30f32, 0.0, 1.0e30])).collect(),
                2 => (0..dims).map(|_| *rng.pick(&[1.0e-30f32, 2.0e-30, 3.0e-30])).collect(),
                3 => (0..dims).map(|_| (rng.below(2001) as f32 - 1000.0) / 8.0).collect(),
                4 => (0..dims).map(|_| *rng.pick(&[7.5f32])).collect(),
                5 => (0..dims).map(|_| *rng.pick(&[-3.0e38f32, 3.0e38, 0.0])).collect(),
                _ => (0..dims).map(|_| (rng.below(255) as f32) / 254.0).collect(),
            };
            sq8_extra.push(v);
        }
    }

    Case {
        kind: "hnsw".into(),
        dims: dims as u16,
        m,
        ef_construction,
        ef_search,
        metric: metric.into(),
        quant: quant.into(),
        image_check: rng.chance(1, 2),
        ops,
        queries,
        sq8_extra,
    }
}
