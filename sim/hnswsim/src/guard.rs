//! Panic capture: TurDB panics become violations carrying the panic site.

use std::panic::{catch_unwind, AssertUnwindSafe};
use std::sync::Mutex;

static LAST_PANIC: Mutex<Option<String>> = Mutex::new(None);

pub fn install_panic_hook() {
    std::panic::set_hook(Box::new(|info| {
        let site = info
            .location()
            .map(|l| {
                let f = l.file();
                let f = f.strip_prefix("/repo/").unwrap_or(f);
                format!("{}:{}", f, l.line())
            })
            .unwrap_or_else(|| "unknown".into());
        let msg = if let Some(s) = info.payload().downcast_ref::<&str>() {
            s.to_string()
        } else if let Some(s) = info.payload().downcast_ref::<String>() {
            s.clone()
        } else {
            String::new()
        };
        eprintln!("panicked at {}: {}", site, msg);
        if let Ok(mut g) = LAST_PANIC.lock() {
            *g = Some(format!("{}|{}", site, msg));
        }
    }));
}

/// `Err((site, message))` if `f` panicked.
pub fn guarded<T>(f: impl FnOnce() -> T) -> Result<T, (String, String)> {
    match catch_unwind(AssertUnwindSafe(f)) {
        Ok(v) => Ok(v),
        Err(_) => {
            let s = LAST_PANIC.lock().ok().and_then(|mut g| g.take()).unwrap_or_else(|| "unknown|".into());
            let mut it = s.splitn(2, '|');
            let site = it.next().unwrap_or("unknown").to_string();
            let msg = it.next().unwrap_or("").to_string();
            Err((site, msg))
        }
    }
}

/// Error text with numbers replaced, so that signatures follow the message shape.
pub fn normalise_err(e: &str) -> String {
    let first = e.lines().next().unwrap_or("");
    let mut out = String::new();
    let mut in_num = false;
    for c in first.chars() {
        if c.is_ascii_digit() {
            if !in_num {
                out.push('N');
                in_num = true;
            }
        } else {
            in_num = false;
            out.push(c);
        }
    }
    out.chars().take(90).collect()
}
