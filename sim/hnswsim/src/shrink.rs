//! Strictly simpler variants of a case, most aggressive first. Any sub-list of the operations is
//! executable: the executor skips an insert of a row that is live and a delete of a row that is
//! not.

use crate::case::{Case, Op};
use serde_json::Value;
use simcore::driver::ddmin_keepsets;

fn to_value(c: &Case) -> Value {
    serde_json::to_value(c).unwrap_or(Value::Null)
}

pub fn shrink_case(c: &Case) -> Vec<Value> {
    let mut out: Vec<Value> = vec![];

    // drop operations
    for keep in ddmin_keepsets(c.ops.len()) {
        let mut n = c.clone();
        n.ops = keep.iter().map(|i| c.ops[*i].clone()).collect();
        out.push(to_value(&n));
    }
    // drop queries (one must stay)
    if c.queries.len() > 1 {
        for keep in ddmin_keepsets(c.queries.len()) {
            if keep.is_empty() {
                continue;
            }
            let mut n = c.clone();
            n.queries = keep.iter().map(|i| c.queries[*i].clone()).collect();
            out.push(to_value(&n));
        }
    }
    // drop the extra SQ8 inputs
    if !c.sq8_extra.is_empty() {
        let mut n = c.clone();
        n.sq8_extra.clear();
        out.push(to_value(&n));
        if c.sq8_extra.len() > 1 {
            for i in 0..c.sq8_extra.len() {
                let mut n = c.clone();
                n.sq8_extra = vec![c.sq8_extra[i].clone()];
                out.push(to_value(&n));
            }
        }
    }
    // fewer dimensions: drop one coordinate everywhere
    if c.dims > 1 {
        for d in (0..c.dims as usize).rev() {
            let mut n = c.clone();
            n.dims -= 1;
            for op in n.ops.iter_mut() {
                if let Op::Insert { vec, .. } = op {
                    if d < vec.len() {
                        vec.remove(d);
                    }
                }
            }
            for q in n.queries.iter_mut() {
                if d < q.vec.len() {
                    q.vec.remove(d);
                }
            }
            for v in n.sq8_extra.iter_mut() {
                if d < v.len() && v.len() > 1 {
                    v.remove(d);
                }
            }
            out.push(to_value(&n));
        }
    }
    // simpler settings
    if c.image_check {
        let mut n = c.clone();
        n.image_check = false;
        out.push(to_value(&n));
    }
    if c.quant != "none" {
        let mut n = c.clone();
        n.quant = "none".into();
        out.push(to_value(&n));
    }
    if c.ops.iter().any(|o| matches!(o, Op::Insert { cb: true, .. })) {
        let mut n = c.clone();
        for op in n.ops.iter_mut() {
            if let Op::Insert { cb, .. } = op {
                *cb = false;
            }
        }
        out.push(to_value(&n));
    }
    if c.ops.iter().any(|o| matches!(o, Op::Insert { rnd, .. } if *rnd != 1.0)) {
        let mut n = c.clone();
        for op in n.ops.iter_mut() {
            if let Op::Insert { rnd, .. } = op {
                *rnd = 1.0;
            }
        }
        out.push(to_value(&n));
        // one at a time
        for i in 0..c.ops.len() {
            if let Op::Insert { rnd, .. } = &c.ops[i] {
                if *rnd != 1.0 {
                    let mut n = c.clone();
                    if let Op::Insert { rnd, .. } = &mut n.ops[i] {
                        *rnd = 1.0;
                    }
                    out.push(to_value(&n));
                }
            }
        }
    }
    if c.ops.iter().any(|o| matches!(o, Op::Delete { by_node: true, .. })) {
        let mut n = c.clone();
        for op in n.ops.iter_mut() {
            if let Op::Delete { by_node, .. } = op {
                *by_node = false;
            }
        }
        out.push(to_value(&n));
    }
    if c.ops.iter().any(|o| matches!(o, Op::Reopen { sync: false })) && c.ops.iter().any(|o| matches!(o, Op::Reopen { sync: true })) {
        // keep only the kind of reopen that matters: try turning unsynced ones into synced ones
        let mut n = c.clone();
        for op in n.ops.iter_mut() {
            if let Op::Reopen { sync } = op {
                *sync = true;
            }
        }
        out.push(to_value(&n));
    }
    if c.m != 16 {
        let mut n = c.clone();
        n.m = 16;
        out.push(to_value(&n));
    }
    if c.ef_construction != 100 {
        let mut n = c.clone();
        n.ef_construction = 100;
        out.push(to_value(&n));
    }
    if c.queries.iter().any(|q| q.filtered) {
        for (qi, q) in c.queries.iter().enumerate() {
            if q.filtered {
                let mut n = c.clone();
                n.queries[qi].filtered = false;
                out.push(to_value(&n));
            }
        }
    }
    // narrower searches / smaller k
    for (qi, q) in c.queries.iter().enumerate() {
        for (k, ef) in [(q.k.min(10), q.ef.min(32)), (1, q.ef), (q.k, 1)] {
            if (k, ef) != (q.k, q.ef) && k >= 1 && ef >= 1 {
                let mut n = c.clone();
                n.queries[qi].k = k;
                n.queries[qi].ef = ef;
                out.push(to_value(&n));
            }
        }
    }
    // simpler vectors: zero one insert vector / the query at a time
    if c.ops.len() <= 12 {
        for i in 0..c.ops.len() {
            if let Op::Insert { vec, .. } = &c.ops[i] {
                if vec.iter().any(|x| *x != 0.0) {
                    let mut n = c.clone();
                    if let Op::Insert { vec, .. } = &mut n.ops[i] {
                        for x in vec.iter_mut() {
                            *x = 0.0;
                        }
                    }
                    out.push(to_value(&n));
                }
            }
        }
    }
    // row ids: renumber densely from 1 in order of first use
    {
        let mut map: std::collections::BTreeMap<u64, u64> = Default::default();
        let mut next = 1u64;
        let mut n = c.clone();
        for op in n.ops.iter_mut() {
            let r = match op {
                Op::Insert { row, .. } | Op::Delete { row, .. } | Op::DeleteMissing { row } => row,
                _ => continue,
            };
            let e = *map.entry(*r).or_insert_with(|| {
                let v = next;
                next += 1;
                v
            });
            *r = e;
        }
        if n.ops != c.ops {
            out.push(to_value(&n));
        }
    }
    out
}
