//! hnswsim: decides C25 (HNSW search returns live, correctly ranked neighbours) by seeded
//! deterministic simulation of `turdb::hnsw::PersistentHnswIndex` on simdisk against a
//! brute-force model. See ENGINE_GUIDE.md; CLI in the style of vsim / btsim.

mod case;
mod engine;
mod exec;
mod gen;
mod guard;
mod oracle;
mod shrink;

use engine::Hnswsim;
use simcore::driver::{self, CheckSpec, Engine};
use simcore::pool::{self, JobStatus, PoolCfg};
use simcore::Tier;
use std::time::Duration;

const PROPERTY: &str = "C25";
const PROFILE: &str = "hnsw@C25";
// quick: about a minute of batch time on 16 cores; thorough: about ten minutes
const QUICK_RUNS: u64 = 2000;
const THOROUGH_RUNS: u64 = 20000;

fn arg_value(args: &[String], flag: &str) -> Option<String> {
    args.iter().position(|a| a == flag).and_then(|i| args.get(i + 1).cloned())
}

fn env_u64(k: &str) -> Option<u64> {
    std::env::var(k).ok().and_then(|v| v.parse().ok())
}

fn workers() -> usize {
    env_u64("VSIM_WORKERS")
        .map(|v| v as usize)
        .unwrap_or_else(|| std::thread::available_parallelism().map(|n| n.get()).unwrap_or(8).min(16))
}

fn full_profile(p: &str) -> String {
    if p.contains('@') {
        p.to_string()
    } else {
        PROFILE.to_string()
    }
}

fn cmd_check(args: &[String]) -> i32 {
    let id = match args.first() {
        Some(i) => i.clone(),
        None => {
            eprintln!("usage: hnswsim check C25 [--tier quick|thorough] [--seed N] [--runs N]");
            return 2;
        }
    };
    if id != PROPERTY {
        eprintln!("unknown property {} (hnswsim serves C25)", id);
        return 2;
    }
    let tier = Tier::parse(&arg_value(args, "--tier").or_else(|| std::env::var("VERIF_TIER").ok()).unwrap_or_else(|| "quick".into()));
    let seed = arg_value(args, "--seed").and_then(|s| s.parse().ok()).or_else(|| env_u64("VERIF_SEED")).unwrap_or(1);
    let runs = arg_value(args, "--runs")
        .and_then(|s| s.parse().ok())
        .or_else(|| env_u64("VSIM_RUNS"))
        .unwrap_or(if tier == Tier::Thorough { THOROUGH_RUNS } else { QUICK_RUNS });
    let spec = CheckSpec {
        property: PROPERTY.to_string(),
        profile: PROFILE.to_string(),
        tier,
        seed,
        runs,
        workers: workers(),
        run_timeout: Duration::from_secs(if tier == Tier::Thorough { 300 } else { 90 }),
        batch_budget: Duration::from_secs(if tier == Tier::Thorough { 1500 } else { 150 }),
        level: "exploration".to_string(),
        also_owns: vec![],
        min_budget_runs: if tier == Tier::Thorough { 12000 } else { 4000 },
        min_budget_wall: Duration::from_secs(if tier == Tier::Thorough { 60 } else { 15 }),
        max_minimise: if tier == Tier::Thorough { 12 } else { 6 },
    };
    driver::run_check(&Hnswsim, &spec)
}

fn cmd_replay(args: &[String]) -> i32 {
    let path = match args.first() {
        Some(p) => std::path::PathBuf::from(p),
        None => {
            eprintln!("usage: hnswsim replay <file>");
            return 2;
        }
    };
    driver::replay(&Hnswsim, &path)
}

fn print_outcome(st: JobStatus, verbose: bool) {
    match st {
        JobStatus::Done(o) => {
            if verbose {
                println!("{}", serde_json::to_string_pretty(&o.sample).unwrap_or_default());
            }
            println!("counters: {:?}", o.counters);
            println!("events_hash={:016x} nontrivial={} harness_error={:?}", o.events_hash, o.nontrivial, o.harness_error);
            for v in &o.violations {
                println!("VIOL {} :: {}", v.sig_string(), v.detail);
            }
        }
        other => println!("{:?}", other),
    }
}

/// `hnswsim run1 <profile> <seed> <run> [tier]` — one seeded run, outcome printed.
fn cmd_run1(args: &[String]) -> i32 {
    if args.len() < 3 {
        eprintln!("usage: hnswsim run1 <profile|C25> <seed> <run> [tier]");
        return 2;
    }
    let profile = full_profile(&args[0]);
    let seed: u64 = args[1].parse().unwrap_or(1);
    let run: u64 = args[2].parse().unwrap_or(0);
    let tier = Tier::parse(args.get(3).map(|s| s.as_str()).unwrap_or("quick"));
    let base = pool::default_scratch_base();
    let cfg = PoolCfg { workers: 1, timeout: Duration::from_secs(300), scratch: base.join("run1"), deadline: None };
    let res = pool::run_jobs(&cfg, &[run], |j| Hnswsim.run_seeded(&profile, seed, j, tier));
    pool::cleanup(&base);
    for (_, st) in res {
        print_outcome(st, true);
    }
    0
}

/// `hnswsim gen <profile> <seed> <run> [tier]` — print the explicit case of a seeded run.
fn cmd_gen(args: &[String]) -> i32 {
    if args.len() < 3 {
        eprintln!("usage: hnswsim gen <profile|C25> <seed> <run> [tier]");
        return 2;
    }
    let profile = full_profile(&args[0]);
    let seed: u64 = args[1].parse().unwrap_or(1);
    let run: u64 = args[2].parse().unwrap_or(0);
    let tier = Tier::parse(args.get(3).map(|s| s.as_str()).unwrap_or("quick"));
    let case = engine::seeded_case(&profile, seed, run, tier);
    println!("{}", serde_json::to_string(&case).unwrap_or_default());
    0
}

/// `hnswsim case <file>` — run a bare case file (the `case` object of a replay file, or a whole
/// replay file) in a child and print the outcome.
fn cmd_case(args: &[String]) -> i32 {
    let path = match args.first() {
        Some(p) => p.clone(),
        None => {
            eprintln!("usage: hnswsim case <file>");
            return 2;
        }
    };
    let doc: serde_json::Value = match std::fs::read(&path).ok().and_then(|b| serde_json::from_slice(&b).ok()) {
        Some(d) => d,
        None => {
            eprintln!("cannot read {}", path);
            return 2;
        }
    };
    let case = if doc.get("case").is_some() { doc["case"].clone() } else { doc };
    let base = pool::default_scratch_base();
    let cfg = PoolCfg { workers: 1, timeout: Duration::from_secs(300), scratch: base.join("case"), deadline: None };
    let res = pool::run_jobs(&cfg, &[0], |_| driver::exec_case_inline(&Hnswsim, &case));
    pool::cleanup(&base);
    for (_, st) in res {
        print_outcome(st, true);
    }
    0
}

fn exec_in_child(base: &std::path::Path, case: &serde_json::Value) -> Vec<simcore::Violation> {
    let cfg = PoolCfg { workers: 1, timeout: Duration::from_secs(120), scratch: base.join("min"), deadline: None };
    let res = pool::run_jobs(&cfg, &[0], |_| driver::exec_case_inline(&Hnswsim, case));
    match res.into_iter().next() {
        Some((_, JobStatus::Done(o))) => o.violations,
        Some((_, JobStatus::Crashed { status, stderr_tail })) => {
            let mut sig = std::collections::BTreeMap::new();
            sig.insert("status".to_string(), status.clone());
            if let Some(s) = driver::panic_site(&stderr_tail) {
                sig.insert("site".to_string(), s);
            }
            vec![simcore::Violation { property: PROPERTY.into(), verdict: "process-died".into(), sig, detail: format!("child {}; stderr tail: {}", status, stderr_tail), case: case.clone() }]
        }
        Some((_, JobStatus::TimedOut { .. })) => {
            vec![simcore::Violation { property: PROPERTY.into(), verdict: "hang".into(), sig: Default::default(), detail: "watchdog".into(), case: case.clone() }]
        }
        None => vec![],
    }
}

/// `hnswsim min <profile> <seed> <run> [sig-substring] [tier] [--out dir]` — triage aid: run one
/// seeded case, pick its first violation whose signature string contains the substring, minimise
/// it (same greedy loop as the driver, larger budget, each candidate in its own child) and print
/// the minimal case.
fn cmd_min(args: &[String]) -> i32 {
    if args.len() < 3 {
        eprintln!("usage: hnswsim min <profile|C25> <seed> <run> [sig-substring] [tier] [--out dir] [--name file]");
        return 2;
    }
    let profile = full_profile(&args[0]);
    let seed: u64 = args[1].parse().unwrap_or(1);
    let run: u64 = args[2].parse().unwrap_or(0);
    let want = args.get(3).filter(|s| !s.starts_with("--")).cloned().unwrap_or_default();
    let tier = Tier::parse(args.get(4).map(|s| s.as_str()).unwrap_or("quick"));
    let base = pool::default_scratch_base();
    let case0 = engine::seeded_case(&profile, seed, run, tier);
    let vs = exec_in_child(&base, &case0);
    let v = match vs.iter().find(|v| v.sig_string().contains(&want)) {
        Some(v) => v.clone(),
        None => {
            println!("no violation matching {:?}; run has: {:?}", want, vs.iter().map(|v| v.sig_string()).collect::<Vec<_>>());
            pool::cleanup(&base);
            return 0;
        }
    };
    let class = v.class();
    let mut cur = v;
    let mut execs = 0usize;
    'outer: loop {
        for cand in Hnswsim.shrink(&cur.case) {
            execs += 1;
            if execs > 20000 {
                break 'outer;
            }
            let vs = exec_in_child(&base, &cand);
            if let Some(nv) = vs.into_iter().find(|x| x.class() == class && (want.is_empty() || x.sig_string().contains(&want))) {
                cur = nv;
                continue 'outer;
            }
        }
        break;
    }
    pool::cleanup(&base);
    if let Some(dir) = arg_value(args, "--out") {
        let path = driver::write_replay(std::path::Path::new(&dir), "hnswsim", &cur);
        let path = match arg_value(args, "--name") {
            Some(n) => {
                let np = std::path::Path::new(&dir).join(n);
                let _ = std::fs::rename(&path, &np);
                np
            }
            None => path,
        };
        println!("replay file: {}", path.display());
    }
    println!("minimised after {} executions", execs);
    println!("sig: {}", cur.sig_string());
    println!("detail: {}", cur.detail);
    println!("case: {}", serde_json::to_string(&cur.case).unwrap_or_default());
    0
}


/// `hnswsim mkreplay <case-file> <sig-substring> <out-dir> <name>` — run a hand-written case (or
/// the case of a replay file) and write the replay file for its first violation whose signature
/// string contains the substring.
fn cmd_mkreplay(args: &[String]) -> i32 {
    if args.len() < 4 {
        eprintln!("usage: hnswsim mkreplay <case-file> <sig-substring> <out-dir> <name>");
        return 2;
    }
    let doc: serde_json::Value = match std::fs::read(&args[0]).ok().and_then(|b| serde_json::from_slice(&b).ok()) {
        Some(d) => d,
        None => {
            eprintln!("cannot read {}", args[0]);
            return 2;
        }
    };
    let case = if doc.get("case").is_some() { doc["case"].clone() } else { doc };
    let base = pool::default_scratch_base();
    let vs = exec_in_child(&base, &case);
    pool::cleanup(&base);
    match vs.iter().find(|v| v.sig_string().contains(&args[1])) {
        Some(v) => {
            let path = driver::write_replay(std::path::Path::new(&args[2]), "hnswsim", v);
            let np = std::path::Path::new(&args[2]).join(&args[3]);
            let _ = std::fs::rename(&path, &np);
            println!("replay file: {}\nsig: {}\ndetail: {}", np.display(), v.sig_string(), v.detail);
            0
        }
        None => {
            println!("no violation matching {:?}; case has: {:?}", args[1], vs.iter().map(|v| v.sig_string()).collect::<Vec<_>>());
            1
        }
    }
}

fn batch(profile: &str, n: u64, seed: u64, tier: Tier, label: &str) -> (Vec<(u64, JobStatus)>, f64) {
    let base = pool::default_scratch_base();
    let cfg = PoolCfg { workers: workers(), timeout: Duration::from_secs(120), scratch: base.join(label), deadline: None };
    let jobs: Vec<u64> = (0..n).collect();
    let t0 = std::time::Instant::now();
    let res = pool::run_jobs(&cfg, &jobs, |j| Hnswsim.run_seeded(profile, seed, j, tier));
    pool::cleanup(&base);
    (res, t0.elapsed().as_secs_f64())
}

/// `hnswsim kfcheck <findings.json> <profile> <n> [seed] [tier]` — triage aid: which violation
/// signatures of n seeded runs are NOT matched by the (proposed) known-findings file.
fn cmd_kfcheck(args: &[String]) -> i32 {
    if args.len() < 3 {
        eprintln!("usage: hnswsim kfcheck <findings.json> <profile|C25> <n> [seed] [tier]");
        return 2;
    }
    let known = match simcore::findings::load(std::path::Path::new(&args[0])) {
        Ok(k) => k,
        Err(e) => {
            eprintln!("{}", e);
            return 2;
        }
    };
    let profile = full_profile(&args[1]);
    let n: u64 = args[2].parse().unwrap_or(100);
    let seed: u64 = args.get(3).and_then(|s| s.parse().ok()).unwrap_or(1);
    let tier = Tier::parse(args.get(4).map(|s| s.as_str()).unwrap_or("quick"));
    let (res, _) = batch(&profile, n, seed, tier, "kf");
    let mut hits: std::collections::BTreeMap<String, u64> = Default::default();
    let mut miss: std::collections::BTreeMap<String, (u64, u64)> = Default::default();
    let mut sigs: std::collections::BTreeSet<String> = Default::default();
    let mut other = 0u64;
    for (j, st) in res {
        match st {
            JobStatus::Done(o) => {
                for v in o.violations.iter().filter(|v| v.property == PROPERTY) {
                    sigs.insert(v.sig_string());
                    match simcore::findings::find_match(&known, v) {
                        Some(f) => *hits.entry(f.id.clone()).or_insert(0) += 1,
                        None => {
                            let e = miss.entry(v.sig_string()).or_insert((0, j));
                            e.0 += 1;
                        }
                    }
                }
            }
            st => {
                other += 1;
                let e = miss.entry(format!("{:?}", st).chars().take(200).collect()).or_insert((0, j));
                e.0 += 1;
            }
        }
    }
    println!("runs: {}, distinct signatures: {}, runs that died or hung: {}", n, sigs.len(), other);
    println!("matched: {:?}", hits);
    println!("unmatched signatures: {}", miss.len());
    for (s, (c, j)) in miss {
        println!("{:5}x run{} {}", c, j, s);
    }
    0
}

/// `hnswsim selfcheck determinism <profile> <n> [seed]`: every seed twice, at two worker counts and
/// with differently padded environments.
fn cmd_selfcheck(args: &[String]) -> i32 {
    if args.len() < 3 || args[0] != "determinism" {
        eprintln!("usage: hnswsim selfcheck determinism <profile|C25> <n> [seed]");
        return 2;
    }
    let profile = full_profile(&args[1]);
    let n: u64 = args[2].parse().unwrap_or(300);
    let seed: u64 = args.get(3).and_then(|s| s.parse().ok()).unwrap_or(1);
    let base = pool::default_scratch_base();
    let jobs: Vec<u64> = (0..n).collect();
    let mut hashes: Vec<Vec<(u64, String)>> = vec![];
    let wmax = workers();
    for (round, w) in [(0, (wmax / 4).max(1)), (1, wmax)] {
        let cfg = PoolCfg { workers: w, timeout: Duration::from_secs(120), scratch: base.join(format!("det{}", round)), deadline: None };
        if round == 1 {
            std::env::set_var("VSIM_PAD", "x".repeat(777));
        }
        let res = pool::run_jobs(&cfg, &jobs, |j| Hnswsim.run_seeded(&profile, seed, j, Tier::Quick));
        hashes.push(
            res.into_iter()
                .map(|(j, st)| match st {
                    JobStatus::Done(o) => {
                        let sigs: Vec<String> = o.violations.iter().map(|v| format!("{}#{:016x}", v.sig_string(), simcore::rng::fnv1a(v.detail.as_bytes()))).collect();
                        let cnt = simcore::rng::fnv1a(format!("{:?}", o.counters).as_bytes());
                        (j, format!("{:016x}/{:016x}/{}v/{:?}/{:?}", o.events_hash, cnt, o.violations.len(), sigs, o.harness_error))
                    }
                    other => (j, format!("{:?}", other).chars().take(60).collect()),
                })
                .collect(),
        );
    }
    pool::cleanup(&base);
    let mut bad = 0;
    for (a, b) in hashes[0].iter().zip(hashes[1].iter()) {
        if a != b {
            println!("DIVERGED run {}: {} vs {}", a.0, a.1, b.1);
            bad += 1;
        }
    }
    println!("determinism: profile {} seed {}: {} seed pairs, {} diverged", profile, seed, n, bad);
    if bad > 0 {
        1
    } else {
        0
    }
}

/// `hnswsim survey <profile> <n> [seed] [tier]`: signature histogram over n seeded runs (triage aid).
fn cmd_survey(args: &[String]) -> i32 {
    if args.len() < 2 {
        eprintln!("usage: hnswsim survey <profile|C25> <n> [seed] [tier] [--by-class]");
        return 2;
    }
    let profile = full_profile(&args[0]);
    let n: u64 = args[1].parse().unwrap_or(100);
    let seed: u64 = args.get(2).and_then(|s| s.parse().ok()).unwrap_or(1);
    let tier = Tier::parse(args.get(3).map(|s| s.as_str()).unwrap_or("quick"));
    let by_class = args.iter().any(|a| a == "--by-class");
    let (res, wall) = batch(&profile, n, seed, tier, "survey");
    let mut hist: std::collections::BTreeMap<String, (u64, u64, String)> = Default::default();
    let mut counters: std::collections::BTreeMap<String, u64> = Default::default();
    let mut clean = 0;
    let mut steps = 0u64;
    let mut nontrivial = 0u64;
    for (j, st) in res {
        match st {
            JobStatus::Done(o) => {
                steps += o.counters.get("steps").copied().unwrap_or(0);
                for (k, v) in &o.counters {
                    *counters.entry(k.clone()).or_insert(0) += v;
                }
                if o.nontrivial {
                    nontrivial += 1;
                }
                if let Some(e) = &o.harness_error {
                    let e2 = hist.entry(format!("HARNESS {}", e)).or_insert((0, j, String::new()));
                    e2.0 += 1;
                }
                if o.violations.is_empty() {
                    clean += 1;
                }
                let mut seen = std::collections::BTreeSet::new();
                for v in &o.violations {
                    let key = if by_class {
                        let mut k = v.class();
                        for f in ["why", "call", "err", "ep", "page"] {
                            if let Some(x) = v.sig.get(f) {
                                k.push_str(&format!("|{}={}", f, x));
                            }
                        }
                        k
                    } else {
                        v.sig_string()
                    };
                    if seen.insert(key.clone()) {
                        let e = hist.entry(key).or_insert((0, j, v.detail.clone()));
                        e.0 += 1;
                    }
                }
            }
            other => {
                let e = hist.entry(format!("{:?}", other).chars().take(300).collect()).or_insert((0, j, String::new()));
                e.0 += 1;
            }
        }
    }
    let mut v: Vec<_> = hist.into_iter().collect();
    v.sort_by_key(|(_, (c, _, _))| std::cmp::Reverse(*c));
    println!("{} runs, {} clean, {} nontrivial, {} steps, {:.1}s", n, clean, nontrivial, steps, wall);
    println!("counters: {:?}", counters);
    for (sig, (c, j, d)) in v {
        let d: String = d.chars().take(600).collect();
        println!("{:5}x run{} {}\n        {}", c, j, sig, d.replace('\n', "\n        "));
    }
    0
}

fn main() {
    let args: Vec<String> = std::env::args().collect();
    simcore::noaslr::ensure();
    simdisk::plug_hash_order();
    let code = match args.get(1).map(|s| s.as_str()) {
        Some("check") => cmd_check(&args[2..]),
        Some("replay") => cmd_replay(&args[2..]),
        Some("run1") => cmd_run1(&args[2..]),
        Some("gen") => cmd_gen(&args[2..]),
        Some("case") => cmd_case(&args[2..]),
        Some("min") => cmd_min(&args[2..]),
        Some("mkreplay") => cmd_mkreplay(&args[2..]),
        Some("kfcheck") => cmd_kfcheck(&args[2..]),
        Some("selfcheck") => cmd_selfcheck(&args[2..]),
        Some("survey") => cmd_survey(&args[2..]),
        Some("list") => {
            println!("{} hnswsim hnsw", PROPERTY);
            0
        }
        _ => {
            eprintln!("usage: hnswsim check|replay|run1|gen|case|min|kfcheck|selfcheck|survey|list ...");
            2
        }
    };
    std::process::exit(code);
}
