//! `simcore::driver::Engine` for the HNSW simulation (C25).

use crate::case::Case;
use crate::exec::run_hnsw_case;
use crate::gen::gen_case;
use crate::shrink::shrink_case;
use serde_json::{json, Value};
use simcore::driver::Engine;
use simcore::rng::mix;
use simcore::{Rng, RunOutcome, Tier};

pub struct Hnswsim;

/// The explicit case a seeded run executes (also used by `hnswsim gen`).
pub fn seeded_case(profile: &str, seed: u64, run: u64, tier: Tier) -> Value {
    let base = profile.split('@').next().unwrap_or(profile);
    let mut rng = Rng::new(mix(seed, run)).fork(base);
    serde_json::to_value(gen_case(&mut rng, tier)).unwrap_or(Value::Null)
}

impl Engine for Hnswsim {
    fn name(&self) -> &'static str {
        "hnswsim"
    }

    fn run_seeded(&self, profile: &str, seed: u64, run: u64, tier: Tier) -> RunOutcome {
        let case = seeded_case(profile, seed, run, tier);
        self.run_case(&case)
    }

    fn run_case(&self, case: &Value) -> RunOutcome {
        // a crashed seeded run is handed back as {"seeded": ...}: execute what it stands for
        if let Some(s) = case.get("seeded") {
            let profile = s["profile"].as_str().unwrap_or("hnsw@C25");
            let seed = s["seed"].as_u64().unwrap_or(1);
            let run = s["run"].as_u64().unwrap_or(0);
            let tier = Tier::parse(s["tier"].as_str().unwrap_or("quick"));
            return self.run_seeded(profile, seed, run, tier);
        }
        match serde_json::from_value::<Case>(case.clone()) {
            Ok(c) if c.kind == "hnsw" => run_hnsw_case(&c, case),
            Ok(c) => RunOutcome { harness_error: Some(format!("unknown case kind {:?}", c.kind)), ..Default::default() },
            Err(e) => RunOutcome { harness_error: Some(format!("bad hnsw case: {}", e)), ..Default::default() },
        }
    }

    fn shrink(&self, case: &Value) -> Vec<Value> {
        if let Some(s) = case.get("seeded") {
            // a child that died has no explicit case yet: the first step writes it out
            let profile = s["profile"].as_str().unwrap_or("hnsw@C25");
            let seed = s["seed"].as_u64().unwrap_or(1);
            let run = s["run"].as_u64().unwrap_or(0);
            let tier = Tier::parse(s["tier"].as_str().unwrap_or("quick"));
            return vec![seeded_case(profile, seed, run, tier)];
        }
        serde_json::from_value::<Case>(case.clone()).map(|c| shrink_case(&c)).unwrap_or_default()
    }

    fn rule(&self, _profile: &str) -> String {
        "one evaluation = one seeded history of insert / insert_with_callback (level draw supplied from the seed) / delete_by_row_id / delete(node) / vacuum_batch / sync / drop+open on turdb::hnsw::PersistentHnswIndex over a file on simdisk, dimensions 1-8, <= 200 nodes, metric L2 / cosine / inner product, with and without the SQ8 flag (quantised runs hand the index the SQ8 round trip of every vector); after create and after every executed operation each of the case's 4-7 queries (vector, k, ef, plain `search` or `search_filtered` with visibility = row is live; query 0 and its search_filtered twin query 1 have k = ef = 512 so that they cover every index of this engine) is searched and checked against a row_id -> vector map by brute force: count <= k, distinct row ids, every row id live, non-decreasing true distance (f64, metric of the index, tolerance 1e-5 relative to the summed term magnitudes) among the returned live ids, >= 1 live result when anything is live, all live rows when ef >= number of nodes in the file and k >= live count; the same queries before and after every drop+open must answer identically; at sync operations of half of the runs the kill and the power-strict image of the file are opened and must answer identically; every vector of the case goes through SQ8 encode -> (stored form) -> decode and must come back within (max-min)/255 + 2 ulp per component; an insert that the documented page-layout rule says makes two areas of a node page share bytes is executed, together with the rest of the run, in a forked copy of the process so that an abort or a hang of TurDB still ends in a verdict (process-died / hang), and the run stops after that step. non-trivial = at least 5 inserts and 5 mutating operations executed and at least one search checked; distinct = distinct explicit cases (hash of the case); states = distinct (live-count bucket, deleted-node count, max graph level, entry-point state, reopened)".into()
    }

    fn real_vs_stub(&self) -> Value {
        json!({
            "real": [
                "turdb::hnsw::PersistentHnswIndex (create/open/insert/insert_with_callback/delete/delete_by_row_id/vacuum_batch/sync/search/search_filtered/read_node), HnswStorage, HnswPage, search::{beam_search, greedy_search, HnswSearchContext}, operations::{select_level, insert_descent_phase, insert_connection_phase}, quantization::SQ8Vector (src/hnsw/*, unchanged sources built through the shadow manifest)",
                "turdb::storage::MmapStorage on a real tmpfs file (mmap MAP_SHARED, ftruncate, msync)"
            ],
            "simulated": [
                "durability of the index file: simdisk (libc boundary) keeps the durable image; kill image = current bytes, power-strict image = bytes made durable by msync/ftruncate",
                "clock and entropy (simdisk), level draws (the `random_value` parameter of insert comes from the run's PRNG instead of the database layer's clock-seeded generator)",
                "the table that owns the vectors: the index stores no vectors, its `get_vector` callbacks are answered from the model's row_id -> vector map (live rows only)"
            ],
            "oracle": [
                "BTreeMap row_id -> vector, brute-force distances in f64",
                "the documented node-page layout rule (slot sizes from levels, 13-bit slot offsets) applied to the node ids the inserts returned: signature field `page` and the decision to run a step in a forked copy; graph walk over read_node for the signature field `why` (diagnosis only, no verdict depends on either)"
            ]
        })
    }

    fn assumptions(&self, _profile: &str) -> Vec<String> {
        vec![
            "row ids are >= 1; an insert is only issued for a row id that is not live (an UPDATE is delete + insert, as in the database layer); a delete is only issued for a live row, once".into(),
            "delete_by_row_id of an absent row id is expected to be a no-op; it is not issued for a row that was deleted through delete(node_id) (that call leaves the row map untouched)".into(),
            "level draws are in [0, 1]: multiples of 1/4096, rarely exactly 0.0 or 1.0 (the database layer's generator can return both)".into(),
            "k >= 1 and ef >= 1 in every search; m in {2,4,8,16,32}, ef_construction in {1,4,16,100,200}".into(),
            "'the index is small enough for the search width to cover it' is read conservatively: ef >= number of nodes ever inserted into the file (live + deleted) and k >= live count".into(),
            "true distance = the metric the index was created with (L2 order = squared L2 order; cosine = 1 - cos with TurDB's own convention 1 for a zero vector; inner product = -dot)".into(),
            "in SQ8 runs the ranking oracle uses the dequantised vectors (they are what the index is given); closeness of dequantised to original vectors is the separate SQ8 clause".into(),
            "vector components have magnitude <= 1e6 in histories (larger ones only in the stand-alone SQ8 clause)".into(),
            "half of the cosine runs use vectors of norm exactly 1 (the module header's precondition for cosine); ranking violations of cosine runs carry vectors=unit-norm / not-unit-norm".into(),
            "search_filtered is called with the visibility predicate 'row id is live in the model'".into(),
            "the simulation child caps its address space at 1 GiB so that an allocation request of a corrupted search (up to 2^51 bytes) fails at once and identically everywhere; the run stops after the first step at which the page-layout rule predicts overlapping areas (everything later would restate that damage)".into(),
            "after an operation that returned an error or panicked the run stops; after a drop+open without sync that changed results the run stops".into(),
            "single-threaded use; no injected I/O errors (the fault dimension is the reopen / crash-image dimension)".into(),
        ]
    }
}
