//! Executes one explicit case against `turdb::hnsw::PersistentHnswIndex` on simdisk and checks
//! every search against the brute-force model.

use crate::case::{Case, Op, Query};
use crate::guard::{guarded, install_panic_hook, normalise_err};
use crate::oracle::{self, Metric};
use serde_json::{json, Value};
use simcore::rng::fnv1a;
use simcore::{RunOutcome, Violation};
use std::collections::{BTreeMap, BTreeSet, VecDeque};
use std::path::{Path, PathBuf};
use turdb::hnsw::quantization::SQ8Vector;
use turdb::hnsw::search::HnswSearchContext;
use turdb::hnsw::{DistanceFunction, NodeId, PersistentHnswIndex, QuantizationType, SearchResult};

pub const PROPERTY: &str = "C25";
const MAX_VIOLATIONS: usize = 16;

type Nid = (u32, u16);

#[derive(Clone, Debug)]
struct MNode {
    nid: Nid,
    #[allow(dead_code)]
    row: u64,
    /// the vector the index was given (the SQ8 round trip of `orig` in quantised runs)
    vec: Vec<f32>,
    level: u8,
    /// links per level read just before the node was deleted (the index cannot read them later)
    links_at_delete: Option<Vec<Vec<Nid>>>,
    deleted: bool,
    /// deleted through `delete(node_id)`: TurDB's row map still points at it
    deleted_by_node: bool,
}

/// Size of the slot `allocate_node` reserves for a node of this level
/// (`HnswNode::max_serialized_size`: 10 + 32*6 + level * (1 + 16*6)).
fn slot_size(level: u8) -> usize {
    10 + 32 * 6 + level as usize * 97
}

const PAGE: usize = 16384;

/// The documented node-page layout applied to a list of slot sizes (allocation order): the data
/// area of slot i ends where that of slot i-1 begins, starting at the page end; the slot
/// directory entry keeps 13 bits of the offset. True when, under that rule, two data areas or a
/// data area and the slot directory (64 + 4 bytes per slot) occupy the same bytes.
fn layout_overlaps(sizes: &[usize]) -> bool {
    let dir_end = 64 + 4 * sizes.len();
    let mut free_end = PAGE;
    let mut areas: Vec<(usize, usize)> = vec![];
    for sz in sizes {
        if *sz > free_end {
            return true;
        }
        free_end -= *sz;
        let stored = free_end & 0x1FFF;
        if stored < dir_end {
            return true;
        }
        areas.push((stored, stored + *sz));
    }
    areas.sort();
    areas.windows(2).any(|w| w[0].1 > w[1].0)
}

/// `HnswPage::can_fit` on the nominal layout.
fn page_can_fit(sizes: &[usize], sz: usize) -> bool {
    let free_start = 64 + 4 * sizes.len();
    let used: usize = sizes.iter().sum();
    let free_end = PAGE.saturating_sub(used);
    free_end.saturating_sub(free_start) >= sz + 4 + 64
}

#[derive(Default)]
struct Model {
    nodes: Vec<MNode>,
    by_nid: BTreeMap<Nid, usize>,
    live: BTreeMap<u64, usize>,
    /// rows whose last delete went through `delete(node_id)` and that were not re-inserted
    stale_map_rows: BTreeSet<u64>,
    ever_rows: BTreeSet<u64>,
    did_delete: bool,
    did_delete_ep: bool,
    did_vacuum: bool,
    did_reopen: bool,
    did_reopen_unsynced: bool,
    did_reinsert: bool,
    used_plain: bool,
    used_cb: bool,
    /// slot sizes per node page, in allocation order (from the node ids the inserts returned)
    pages: BTreeMap<u32, Vec<usize>>,
    /// the guarded insert (which the layout rule says overlaps) never returned
    layout_forced: bool,
}

impl Model {
    fn layout_state(&self) -> &'static str {
        if self.layout_forced || self.pages.values().any(|p| layout_overlaps(p)) {
            "overlap"
        } else {
            "ok"
        }
    }
    /// Would the next insert of a node of `level` make two areas of its page overlap?
    fn insert_would_overlap(&self, level: u8) -> bool {
        let sz = slot_size(level);
        let mut sizes: Vec<usize> = match self.pages.iter().next_back() {
            Some((_, p)) if page_can_fit(p, sz) => p.clone(),
            _ => vec![],
        };
        sizes.push(sz);
        layout_overlaps(&sizes)
    }
    fn table_get(&self, row: u64) -> Option<Vec<f32>> {
        self.live.get(&row).map(|i| self.nodes[*i].vec.clone())
    }
    fn tombstones(&self) -> usize {
        self.nodes.iter().filter(|n| n.deleted).count()
    }
    fn after(&self) -> String {
        let mut v = vec![];
        if self.did_delete_ep {
            v.push("delete-entry-point");
        } else if self.did_delete {
            v.push("delete");
        }
        if self.did_reinsert {
            v.push("reinsert");
        }
        if self.did_vacuum {
            v.push("vacuum");
        }
        if self.did_reopen_unsynced {
            v.push("reopen-unsynced");
        } else if self.did_reopen {
            v.push("reopen");
        }
        if v.is_empty() {
            "inserts-only".to_string()
        } else {
            v.join("+")
        }
    }
    fn api(&self) -> &'static str {
        match (self.used_plain, self.used_cb) {
            (true, true) => "mixed",
            (false, true) => "callback",
            _ => "plain",
        }
    }
}

#[derive(Clone, Debug, PartialEq)]
enum SearchOut {
    Ok(Vec<(u32, u16, u64, u32)>),
    Err(String),
    Panic(String),
}

impl SearchOut {
    fn brief(&self) -> String {
        match self {
            SearchOut::Ok(v) => {
                let items: Vec<String> = v
                    .iter()
                    .take(12)
                    .map(|(p, s, r, d)| format!("row {} (node {}:{}, d={})", r, p, s, f32::from_bits(*d)))
                    .collect();
                format!("[{}{}]", items.join(", "), if v.len() > 12 { format!(", ... {} total", v.len()) } else { String::new() })
            }
            SearchOut::Err(e) => format!("Err({})", e),
            SearchOut::Panic(s) => format!("PANIC at {}", s),
        }
    }
}

struct Live {
    idx: PersistentHnswIndex,
    ctxs: Vec<HnswSearchContext>,
}

fn make_ctxs(queries: &[Query]) -> Vec<HnswSearchContext> {
    queries.iter().map(|q| HnswSearchContext::new(q.ef, 1000)).collect()
}

struct Run<'a> {
    case: &'a Case,
    case_json: &'a Value,
    metric: Metric,
    sq8: bool,
    out: RunOutcome,
    model: Model,
    path: PathBuf,
    log: u64,
    trace: Vec<String>,
    seen: BTreeSet<String>,
    stop: bool,
    states: BTreeSet<u64>,
    img_seq: u32,
    max_level_seen: u8,
    results_checked: u64,
}

fn dims_bucket(d: u16) -> &'static str {
    match d {
        0..=1 => "1",
        2..=4 => "2-4",
        _ => "5-8",
    }
}

impl<'a> Run<'a> {
    fn logev(&mut self, s: &str) {
        self.log = simcore::rng::mix(self.log, fnv1a(s.as_bytes()));
        if self.trace.len() < 60 {
            self.trace.push(s.chars().take(200).collect());
        }
    }

    fn ep_state(&self, live: Option<&Live>) -> &'static str {
        let l = match live {
            Some(l) => l,
            None => return "closed",
        };
        match l.idx.index().entry_point() {
            None => "none",
            Some(n) if n.is_none() => "sentinel",
            Some(n) => match self.model.by_nid.get(&(n.page_no(), n.slot_index())) {
                None => "unknown",
                Some(i) => {
                    if self.model.nodes[*i].deleted {
                        "tombstone"
                    } else {
                        "live"
                    }
                }
            },
        }
    }

    fn viol(&mut self, live: Option<&Live>, verdict: &str, extra: &[(&str, String)], detail: String) {
        let mut key = verdict.to_string();
        for (k, v) in extra {
            if ["what", "why", "call", "err", "site", "model", "search"].contains(k) {
                key.push_str(&format!("|{}={}", k, v));
            }
        }
        if !self.seen.insert(key) {
            return;
        }
        if self.out.violations.len() >= MAX_VIOLATIONS {
            self.stop = true;
            return;
        }
        let mut sig: BTreeMap<String, String> = BTreeMap::new();
        sig.insert("metric".into(), self.metric.as_str().into());
        sig.insert("quant".into(), self.case.quant.clone());
        sig.insert("dims".into(), dims_bucket(self.case.dims).into());
        sig.insert("api".into(), self.model.api().into());
        sig.insert("ep".into(), self.ep_state(live).into());
        sig.insert("tomb".into(), if self.model.tombstones() > 0 { "yes" } else { "no" }.into());
        sig.insert("page".into(), self.model.layout_state().into());
        sig.insert("after".into(), self.model.after());
        for (k, v) in extra {
            sig.insert(k.to_string(), v.clone());
        }
        self.logev(&format!("VIOLATION {} {:?}", verdict, extra));
        self.out.violations.push(Violation {
            property: PROPERTY.into(),
            verdict: verdict.into(),
            sig,
            detail,
            case: self.case_json.clone(),
        });
    }

    fn dist_fn(&self) -> DistanceFunction {
        match self.metric {
            Metric::L2 => DistanceFunction::L2,
            Metric::Cosine => DistanceFunction::Cosine,
            Metric::Ip => DistanceFunction::InnerProduct,
        }
    }

    /// Runs every query on `live` (no checks).
    fn search_all(&self, live: &mut Live) -> Vec<SearchOut> {
        let mut outs = vec![];
        let model = &self.model;
        for (qi, q) in self.case.queries.iter().enumerate() {
            let idx = &live.idx;
            let ctx = &mut live.ctxs[qi];
            let r = if q.filtered {
                guarded(|| idx.search_filtered(&q.vec, q.k, ctx, |row| model.table_get(row), |row| model.live.contains_key(&row)))
            } else {
                guarded(|| idx.search(&q.vec, q.k, ctx, |row| model.table_get(row)))
            };
            outs.push(match r {
                Err((site, _msg)) => SearchOut::Panic(site),
                Ok(Err(e)) => SearchOut::Err(normalise_err(&format!("{:#}", e))),
                Ok(Ok(v)) => SearchOut::Ok(
                    v.iter()
                        .map(|s: &SearchResult| (s.node_id.page_no(), s.node_id.slot_index(), s.row_id, s.distance.to_bits()))
                        .collect(),
                ),
            });
        }
        outs
    }

    /// Links of a node per level: read from the index, or, for a deleted node (which the index
    /// refuses to read), the links it had when it was deleted.
    fn links_of(&self, live: &Live, n: Nid, through_tombstones: bool) -> Option<Vec<Vec<Nid>>> {
        match live.idx.read_node(NodeId::new(n.0, n.1)) {
            Ok(node) => Some(
                (0..=node.max_level())
                    .map(|lvl| node.neighbors_at_level(lvl).iter().map(|x| (x.page_no(), x.slot_index())).collect())
                    .collect(),
            ),
            Err(_) => {
                if !through_tombstones {
                    return None;
                }
                let i = self.model.by_nid.get(&n)?;
                let node = &self.model.nodes[*i];
                if node.deleted {
                    node.links_at_delete.clone()
                } else {
                    None
                }
            }
        }
    }

    /// Nodes reachable from `starts` over the links of the given levels.
    fn reach(&self, live: &Live, starts: &[Nid], upper: bool, through_tombstones: bool) -> BTreeSet<Nid> {
        let mut seen: BTreeSet<Nid> = starts.iter().cloned().collect();
        let mut queue: VecDeque<Nid> = starts.iter().cloned().collect();
        while let Some(n) = queue.pop_front() {
            let links = match self.links_of(live, n, through_tombstones) {
                Some(l) => l,
                None => continue,
            };
            for (lvl, nbs) in links.iter().enumerate() {
                if (lvl == 0) == upper {
                    continue;
                }
                for k in nbs {
                    if seen.insert(*k) {
                        queue.push_back(*k);
                    }
                }
            }
        }
        seen
    }

    /// Why is a live row not found although the search width covers the whole index?
    /// (diagnosis for the signature; the verdict does not depend on it)
    fn diagnose_missing(&self, live: &Live, row: u64) -> String {
        let ep = match live.idx.index().entry_point() {
            None => return "entry-point-none".into(),
            Some(n) if n.is_none() => return "entry-point-sentinel".into(),
            Some(n) => (n.page_no(), n.slot_index()),
        };
        match self.model.by_nid.get(&ep) {
            None => return "entry-point-unknown-node".into(),
            Some(i) if self.model.nodes[*i].deleted => return "entry-point-deleted".into(),
            _ => {}
        }
        let target = match self.model.live.get(&row) {
            Some(i) => self.model.nodes[*i].nid,
            None => return "not-live".into(),
        };
        if live.idx.read_node(NodeId::new(target.0, target.1)).is_err() {
            return "live-node-unreadable".into();
        }
        let unreadable_live = self.model.nodes.iter().filter(|n| !n.deleted && live.idx.read_node(NodeId::new(n.nid.0, n.nid.1)).is_err()).count();
        // the level-0 beam starts at a node the greedy descent reaches from the entry point over
        // upper-level links; with a covering width it then visits everything level-0 links lead to
        let starts: Vec<Nid> = self.reach(live, &[ep], true, false).into_iter().collect();
        let from: Vec<bool> = starts.iter().map(|s| self.reach(live, &[*s], false, false).contains(&target)).collect();
        if from.iter().all(|x| *x) {
            return if unreadable_live > 0 { "reachable-but-live-nodes-unreadable".into() } else { "reachable-not-returned".into() };
        }
        if unreadable_live > 0 {
            return "unreachable-live-nodes-unreadable".into();
        }
        if self.model.tombstones() > 0 {
            let starts_t: Vec<Nid> = self.reach(live, &[ep], true, true).into_iter().collect();
            if starts_t.iter().all(|s| self.reach(live, &[*s], false, true).contains(&target)) {
                return "reachable-only-through-deleted-node".into();
            }
        }
        // who links to the target at level 0?
        let mut holders = 0;
        for n in &self.model.nodes {
            if n.nid == target || n.deleted {
                continue;
            }
            if let Some(l) = self.links_of(live, n.nid, false) {
                if l.first().map(|l0| l0.contains(&target)).unwrap_or(false) {
                    holders += 1;
                }
            }
        }
        if holders == 0 {
            if let Ok(tn) = live.idx.read_node(NodeId::new(target.0, target.1)) {
                let nbs = tn.neighbors_at_level(0);
                let mut full = 0;
                let mut tomb = 0;
                for nb in nbs {
                    match live.idx.read_node(*nb) {
                        Ok(x) => {
                            if x.level0_neighbor_count() as usize >= turdb::hnsw::MAX_L0_NEIGHBORS {
                                full += 1;
                            }
                        }
                        Err(_) => tomb += 1,
                    }
                }
                if nbs.is_empty() {
                    return "no-inlink-and-no-outlink".into();
                }
                if full == nbs.len() {
                    return "no-inlink-all-neighbours-full".into();
                }
                if full + tomb == nbs.len() {
                    return "no-inlink-neighbours-full-or-deleted".into();
                }
            }
            return "no-inlink".into();
        }
        if from.iter().any(|x| *x) {
            "reachable-from-some-descent-starts-only".into()
        } else {
            "inlinks-only-from-unreachable-nodes".into()
        }
    }

    /// The C25 search clauses for one query result.
    fn check_one(&mut self, live: &Live, step: &str, qi: usize, so: &SearchOut) {
        let q = self.case.queries[qi].clone();
        let qdesc = format!("query #{} {}{:?} k={} ef={}", qi, if q.filtered { "(search_filtered, visible = live rows) " } else { "" }, q.vec, q.k, q.ef);
        let api = if q.filtered { "filtered" } else { "plain" };
        let res = match so {
            SearchOut::Panic(site) => {
                self.viol(
                    Some(live),
                    "panic",
                    &[("search", api.to_string()), ("site", site.clone()), ("call", "search".into())],
                    format!("{}: {} panicked at {}", step, qdesc, site),
                );
                self.stop = true;
                return;
            }
            SearchOut::Err(e) => {
                self.viol(
                    Some(live),
                    "unexpected-error",
                    &[("search", api.to_string()), ("call", "search".into()), ("err", e.clone())],
                    format!("{}: {} failed: {}", step, qdesc, e),
                );
                return;
            }
            SearchOut::Ok(v) => v.clone(),
        };
        self.out.count("searches_checked", 1);
        self.results_checked += res.len() as u64;
        let live_n = self.model.live.len();
        let total_nodes = self.model.nodes.len();
        let shown = so.brief();

        // at most k
        if res.len() > q.k {
            self.viol(
                Some(live),
                "too-many-results",
                &[("search", api.to_string())],
                format!("{}: {} returned {} results: {}", step, qdesc, res.len(), shown),
            );
        }

        // live
        let mut live_hits: Vec<(u64, u32)> = vec![];
        let mut dead: Vec<(u64, &'static str)> = vec![];
        for (p, s, row, d) in &res {
            let nid = (*p, *s);
            if self.model.live.contains_key(row) {
                live_hits.push((*row, *d));
                continue;
            }
            let what = if *p == u32::MAX && *s == u16::MAX {
                "sentinel-node"
            } else {
                match self.model.by_nid.get(&nid) {
                    None => "unknown-node",
                    Some(i) => {
                        if self.model.nodes[*i].deleted {
                            "tombstone"
                        } else {
                            "live-node-wrong-row-id"
                        }
                    }
                }
            };
            dead.push((*row, what));
        }
        if let Some((row, what)) = dead.first() {
            let ever = self.model.ever_rows.contains(row);
            self.viol(
                Some(live),
                "dead-row-returned",
                &[("search", api.to_string()), ("what", what.to_string())],
                format!(
                    "{}: {} returned row id {} which is not live ({}; {}); live rows: {}; results: {}",
                    step,
                    qdesc,
                    row,
                    what,
                    if ever { "deleted earlier" } else { "never inserted" },
                    live_n,
                    shown
                ),
            );
        }

        // distinct
        let mut seen_rows: BTreeMap<u64, usize> = BTreeMap::new();
        for (_, _, row, _) in &res {
            *seen_rows.entry(*row).or_insert(0) += 1;
        }
        if let Some((row, n)) = seen_rows.iter().find(|(_, n)| **n > 1) {
            let what = if self.model.live.contains_key(row) { "live-row" } else { "dead-row" };
            self.viol(
                Some(live),
                "duplicate-row-id",
                &[("search", api.to_string()), ("what", what.to_string())],
                format!("{}: {} returned row id {} {} times: {}", step, qdesc, row, n, shown),
            );
        }

        // ranked by true distance (among the returned live ids)
        let metric = self.metric;
        let dists: Vec<(u64, (f64, f64), f64)> = live_hits
            .iter()
            .map(|(row, _)| {
                let v = &self.model.nodes[self.model.live[row]].vec;
                (*row, oracle::true_distance(metric, &q.vec, v), oracle::l2sq(&q.vec, v))
            })
            .collect();
        for w in dists.windows(2) {
            if oracle::out_of_order(w[0].1, w[1].1) {
                let l2_sorted = dists.windows(2).all(|x| !oracle::out_of_order((x[0].2, x[0].2), (x[1].2, x[1].2)));
                let what = if metric != Metric::L2 && l2_sorted { "ranked-by-l2-instead-of-metric" } else { "unordered" };
                let mut extras: Vec<(&str, String)> = vec![("search", api.to_string()), ("what", what.to_string())];
                if metric == Metric::Cosine {
                    let unit = live_hits.iter().all(|(row, _)| {
                        let v = &self.model.nodes[self.model.live[row]].vec;
                        v.iter().map(|x| *x as f64 * *x as f64).sum::<f64>() == 1.0
                    });
                    extras.push(("vectors", if unit { "unit-norm".to_string() } else { "not-unit-norm".to_string() }));
                }
                let listing: Vec<String> = dists.iter().take(12).map(|(r, d, _)| format!("row {}: {:.6}", r, d.0)).collect();
                self.viol(
                    Some(live),
                    "not-ranked-by-true-distance",
                    &extras,
                    format!(
                        "{}: {} ({}): row {} (true distance {:.6}) is returned before row {} (true distance {:.6}); true distances in returned order: [{}]; results: {}",
                        step,
                        qdesc,
                        metric.as_str(),
                        w[0].0,
                        w[0].1 .0,
                        w[1].0,
                        w[1].1 .0,
                        listing.join(", "),
                        shown
                    ),
                );
                break;
            }
        }

        // at least one
        if live_n >= 1 && q.k >= 1 && q.ef >= 1 && live_hits.is_empty() {
            let returned = if res.is_empty() { "empty" } else { "only-dead" };
            self.viol(
                Some(live),
                "no-result-while-live",
                &[("search", api.to_string()), ("what", returned.to_string())],
                format!("{}: {} returned {} although {} vectors are live: {}", step, qdesc, returned, live_n, shown),
            );
        }

        // everything, when the search width covers the index
        if live_n >= 1 && q.ef >= total_nodes && q.k >= live_n {
            self.out.count("searches_full_coverage", 1);
            let got: BTreeSet<u64> = live_hits.iter().map(|(r, _)| *r).collect();
            let missing: Vec<u64> = self.model.live.keys().filter(|r| !got.contains(r)).cloned().collect();
            if let Some(first) = missing.first() {
                let why = self.diagnose_missing(live, *first);
                self.viol(
                    Some(live),
                    "missing-live-when-covered",
                    &[("search", api.to_string()), ("why", why.clone())],
                    format!(
                        "{}: {}: the index holds {} nodes ({} live), ef {} and k {} cover it, but {} live rows are missing (first: row {}, {}); missing: {:?}; results: {}",
                        step,
                        qdesc,
                        total_nodes,
                        live_n,
                        q.ef,
                        q.k,
                        missing.len(),
                        first,
                        why,
                        missing.iter().take(10).collect::<Vec<_>>(),
                        shown
                    ),
                );
            }
        }
    }

    fn check_all(&mut self, live: &mut Live, step: &str) -> Vec<SearchOut> {
        let outs = self.search_all(live);
        self.check_outs(live, step, &outs);
        outs
    }

    fn check_outs(&mut self, live: &Live, step: &str, outs: &[SearchOut]) {
        for (qi, so) in outs.iter().enumerate() {
            self.logev(&format!("{} q{} -> {}", step, qi, so.brief()));
            self.check_one(live, step, qi, so);
            if self.stop {
                break;
            }
        }
        // state abstraction
        let st = format!(
            "{}|{}|{}|{}|{}",
            self.model.live.len().min(40) / 4,
            self.model.tombstones().min(8),
            live.idx.index().max_level(),
            self.ep_state(Some(live)),
            self.model.did_reopen
        );
        self.states.insert(fnv1a(st.as_bytes()));
        let ml = live.idx.index().max_level();
        if ml > self.max_level_seen {
            self.max_level_seen = ml;
        }
    }

    fn sq8_clause(&mut self) {
        let mut vecs: Vec<Vec<f32>> = vec![];
        for op in &self.case.ops {
            if let Op::Insert { vec, .. } = op {
                vecs.push(vec.clone());
            }
        }
        for q in &self.case.queries {
            vecs.push(q.vec.clone());
        }
        vecs.extend(self.case.sq8_extra.iter().cloned());
        let mut done: BTreeSet<Vec<u32>> = BTreeSet::new();
        for v in vecs {
            if !done.insert(v.iter().map(|x| x.to_bits()).collect()) {
                continue;
            }
            let r = guarded(|| {
                let enc = SQ8Vector::from_f32(&v);
                // through the stored form as well
                let mut buf = vec![0u8; enc.serialized_size()];
                enc.write_to(&mut buf);
                let back = SQ8Vector::read_from(&buf, v.len());
                (enc.decode(), back.map(|b| b.decode()).map_err(|e| format!("{:#}", e)))
            });
            self.out.count("sq8_vectors_checked", 1);
            match r {
                Err((site, msg)) => {
                    self.viol(None, "panic", &[("site", site.clone()), ("call", "sq8".into())], format!("SQ8 encode/decode of {:?} panicked at {}: {}", v, site, msg));
                }
                Ok((dec, back)) => {
                    if let Some((i, o, d, allowed)) = oracle::sq8_check(&v, &dec) {
                        let what = if !d.is_finite() { "non-finite" } else { "beyond-one-step" };
                        self.viol(
                            None,
                            "sq8-decode-error",
                            &[("what", what.to_string())],
                            format!("SQ8 round trip of {:?}: component {} is {} after decode, original {}, allowed error {:e}; decoded {:?}", v, i, d, o, allowed, dec),
                        );
                    }
                    match back {
                        Ok(b) => {
                            if b.iter().map(|x| x.to_bits()).ne(dec.iter().map(|x| x.to_bits())) {
                                self.viol(
                                    None,
                                    "sq8-decode-error",
                                    &[("what", "stored-form-differs".into())],
                                    format!("SQ8 write_to/read_from of {:?} decodes to {:?}, direct decode {:?}", v, b, dec),
                                );
                            }
                        }
                        Err(e) => {
                            self.viol(None, "unexpected-error", &[("call", "sq8-read".into()), ("err", normalise_err(&e))], format!("SQ8Vector::read_from failed on its own output for {:?}: {}", v, e));
                        }
                    }
                }
            }
        }
    }

    fn stored_vec(&self, v: &[f32]) -> Vec<f32> {
        if self.sq8 {
            SQ8Vector::from_f32(v).decode()
        } else {
            v.to_vec()
        }
    }

    fn open_index(&mut self, path: &Path, call: &str) -> Option<Live> {
        let p = path.to_path_buf();
        match guarded(|| PersistentHnswIndex::open(&p)) {
            Err((site, msg)) => {
                self.viol(None, "panic", &[("site", site.clone()), ("call", call.into())], format!("{} panicked at {}: {}", call, site, msg));
                self.stop = true;
                None
            }
            Ok(Err(e)) => {
                let e = format!("{:#}", e);
                self.viol(None, "unexpected-error", &[("call", call.into()), ("err", normalise_err(&e))], format!("{} of the index file failed: {}", call, e));
                self.stop = true;
                None
            }
            Ok(Ok(idx)) => Some(Live { idx, ctxs: make_ctxs(&self.case.queries) }),
        }
    }

    fn compare_images(&mut self, live: &Live, step: &str, reference: &[SearchOut]) {
        simdisk::with(|sd| {
            sd.points_in_op = 0;
            sd.capture = Some(simdisk::CapturePolicy {
                kill: true,
                power_strict: true,
                power_random: 0,
                kinds: vec!['B'],
                only_ordinal: None,
                max_points: 4,
            });
        });
        simdisk::boundary_point();
        let images = simdisk::take_images();
        simdisk::with(|sd| sd.capture = None);
        for img in images {
            self.img_seq += 1;
            let dir = simcore::pool::child_scratch().join(format!("img{}", self.img_seq));
            simdisk::write_image(&img, &dir.to_string_lossy());
            let model_name = img.model.as_str();
            let outs = {
                let _g = simdisk::HarnessGuard::enter();
                let ipath = dir.join("index.hnsw");
                let r = match self.open_index(&ipath, "open-image") {
                    Some(mut il) => {
                        let o = self.search_all(&mut il);
                        let _ = guarded(move || drop(il));
                        Some(o)
                    }
                    None => None,
                };
                let _ = std::fs::remove_dir_all(&dir);
                r
            };
            // a failed open of an image is reported by open_index; the run may go on
            self.stop = false;
            let outs = match outs {
                Some(o) => o,
                None => continue,
            };
            self.out.count(&format!("image_comparisons/{}", model_name), 1);
            self.logev(&format!("{} image {} -> {}", step, model_name, outs.iter().map(|o| o.brief()).collect::<Vec<_>>().join(" ; ")));
            for (qi, (a, b)) in reference.iter().zip(outs.iter()).enumerate() {
                if a != b {
                    let q = &self.case.queries[qi];
                    self.viol(
                        Some(live),
                        "reopen-changes-results",
                        &[("what", format!("image-{}", model_name))],
                        format!(
                            "{}: the {} image of the file taken right after sync() answers query #{} {:?} k={} ef={} with {} but the open index answers {}",
                            step,
                            model_name,
                            qi,
                            q.vec,
                            q.k,
                            q.ef,
                            b.brief(),
                            a.brief()
                        ),
                    );
                    break;
                }
            }
        }
    }
}

fn hist_bucket(n: usize) -> &'static str {
    match n {
        0 => "0",
        1..=8 => "1-8",
        9..=32 => "9-32",
        33..=64 => "33-64",
        _ => "65+",
    }
}


/// Address-space cap of the simulation child: a search over a corrupted graph asks for
/// allocations of up to 2^51 bytes (and `Vec::resize` touches what it gets); with the cap such a
/// request fails at once, the same way on every machine.
fn cap_address_space() {
    let lim = libc::rlimit { rlim_cur: 1 << 30, rlim_max: 1 << 30 };
    // SAFETY: plain setrlimit on our own (forked, single-purpose) process.
    unsafe {
        libc::setrlimit(libc::RLIMIT_AS, &lim);
    }
}

enum Forked {
    /// we are the forked copy: carry the run to its end, then `deliver`
    Child,
    /// the copy finished and delivered this outcome
    Delivered(Box<RunOutcome>),
    /// the copy died: (status text, stderr tail)
    Died(String, String),
    Hung,
    Failed,
}

fn guard_result_path() -> PathBuf {
    simcore::pool::child_scratch().join("guarded-outcome.json")
}

fn stderr_tail() -> String {
    let _g = simdisk::HarnessGuard::enter();
    let b = std::fs::read(simcore::pool::child_scratch().join("stderr.txt")).unwrap_or_default();
    let t = String::from_utf8_lossy(&b).to_string();
    let first_lines: Vec<&str> = t.lines().filter(|l| l.contains("memory allocation") || l.contains("panicked at") || l.contains("overflow")).collect();
    first_lines.last().map(|s| s.to_string()).unwrap_or_else(|| t.lines().last().unwrap_or("").to_string())
}

/// Continue the run in a forked copy of this process so that an abort or a hang inside TurDB
/// is observed here instead of ending the run without a verdict.
fn fork_guard(timeout_s: u64) -> Forked {
    let _g = simdisk::HarnessGuard::enter();
    let _ = std::fs::remove_file(guard_result_path());
    // SAFETY: the simulation child runs the simulation on one thread; the only other thread is
    // blocked in join(). The copy never returns into the pool: it ends in `deliver` (_exit).
    let pid = unsafe { libc::fork() };
    if pid < 0 {
        return Forked::Failed;
    }
    if pid == 0 {
        return Forked::Child;
    }
    let t0 = RealClock::now();
    loop {
        let mut status: libc::c_int = 0;
        // SAFETY: waiting for our own child.
        let r = unsafe { libc::waitpid(pid, &mut status, libc::WNOHANG) };
        if r == pid {
            if libc::WIFEXITED(status) && libc::WEXITSTATUS(status) == 0 {
                return match std::fs::read(guard_result_path()).ok().and_then(|b| serde_json::from_slice::<RunOutcome>(&b).ok()) {
                    Some(o) => Forked::Delivered(Box::new(o)),
                    None => Forked::Died("exit without outcome".into(), stderr_tail()),
                };
            }
            let st = if libc::WIFSIGNALED(status) { format!("signal {}", libc::WTERMSIG(status)) } else { format!("exit code {}", libc::WEXITSTATUS(status)) };
            return Forked::Died(st, stderr_tail());
        }
        if r < 0 {
            return Forked::Failed;
        }
        if t0.elapsed() >= timeout_s as f64 {
            // SAFETY: killing our own child.
            unsafe {
                libc::kill(pid, libc::SIGKILL);
                libc::waitpid(pid, &mut status, 0);
            }
            return Forked::Hung;
        }
        real_sleep_us(500);
    }
}

fn deliver(out: &RunOutcome) -> ! {
    {
        let _g = simdisk::HarnessGuard::enter();
        let _ = std::fs::write(guard_result_path(), serde_json::to_vec(out).unwrap_or_default());
    }
    // SAFETY: leave without unwinding into the pool's child_main of the process we were copied from.
    unsafe { libc::_exit(0) }
}

struct RealClock(f64);
impl RealClock {
    fn now() -> RealClock {
        let mut ts = libc::timespec { tv_sec: 0, tv_nsec: 0 };
        // SAFETY: raw clock_gettime: the guard's timeout must run on the real clock, std's clock is simulated.
        unsafe {
            libc::syscall(libc::SYS_clock_gettime, libc::CLOCK_MONOTONIC, &mut ts as *mut libc::timespec);
        }
        RealClock(ts.tv_sec as f64 + ts.tv_nsec as f64 * 1e-9)
    }
    fn elapsed(&self) -> f64 {
        RealClock::now().0 - self.0
    }
}

/// Sleep on the real clock (std's sleep is answered by the simulated clock and returns at once).
fn real_sleep_us(us: i64) {
    let ts = libc::timespec { tv_sec: 0, tv_nsec: us * 1000 };
    // SAFETY: raw nanosleep with a valid timespec.
    unsafe {
        libc::syscall(libc::SYS_nanosleep, &ts as *const libc::timespec, std::ptr::null_mut::<libc::timespec>());
    }
}

pub fn run_hnsw_case(case: &Case, case_json: &Value) -> RunOutcome {
    install_panic_hook();
    cap_address_space();
    let root = simcore::pool::child_scratch().join("live");
    let _ = std::fs::remove_dir_all(&root);
    if let Err(e) = std::fs::create_dir_all(&root) {
        return RunOutcome { harness_error: Some(format!("mkdir {}: {}", root.display(), e)), ..Default::default() };
    }
    let case_hash = fnv1a(case_json.to_string().as_bytes());
    simdisk::reset_hash_counter();
    simdisk::install(root.to_str().unwrap_or("/dev/shm/hnswsim-x"), case_hash);
    simdisk::with(|sd| sd.track_durable = case.image_check);

    let mut run = Run {
        case,
        case_json,
        metric: Metric::parse(&case.metric),
        sq8: case.quant == "sq8",
        out: RunOutcome::default(),
        model: Model::default(),
        path: root.join("index.hnsw"),
        log: 0,
        trace: vec![],
        seen: BTreeSet::new(),
        stop: false,
        states: BTreeSet::new(),
        img_seq: 0,
        max_level_seen: 0,
        results_checked: 0,
    };

    if case.dims == 0 || case.queries.iter().any(|q| q.vec.len() != case.dims as usize) {
        run.out.harness_error = Some("bad case: query dimension".into());
        return run.out;
    }

    run.sq8_clause();

    let quant = if run.sq8 { QuantizationType::SQ8 } else { QuantizationType::None };
    let dist = run.dist_fn();
    let path = run.path.clone();
    let created = guarded(|| PersistentHnswIndex::create(&path, 1, 1, case.dims, case.m, case.ef_construction, case.ef_search, dist, quant));
    let mut live: Option<Live> = match created {
        Err((site, msg)) => {
            run.viol(None, "panic", &[("site", site.clone()), ("call", "create".into())], format!("create panicked at {}: {}", site, msg));
            None
        }
        Ok(Err(e)) => {
            let e = format!("{:#}", e);
            run.viol(None, "unexpected-error", &[("call", "create".into()), ("err", normalise_err(&e))], format!("create failed: {}", e));
            None
        }
        Ok(Ok(idx)) => Some(Live { idx, ctxs: make_ctxs(&case.queries) }),
    };
    simdisk::boundary_point();

    let mut last: Vec<SearchOut> = vec![];
    if let Some(l) = live.as_mut() {
        last = run.check_all(l, "after create");
    }
    let mut inserts_done = 0u64;
    let mut mutating_done = 0u64;
    let mut in_copy = false;

    for (i, op) in case.ops.iter().enumerate() {
        if run.stop || live.is_none() {
            break;
        }
        let step = format!("after op #{} {}", i, op.kind());
        // The storage layout rule says this insert makes two areas of a node page share bytes:
        // whatever TurDB does from here on (abort, hang) must still end in a verdict.
        if !in_copy {
            if let Op::Insert { row, rnd, .. } = op {
                let lvl = turdb::hnsw::operations::select_level(*rnd, turdb::hnsw::operations::calculate_ml(case.m));
                if !run.model.live.contains_key(row) && run.model.insert_would_overlap(lvl) {
                    run.out.count("guarded_continuations", 1);
                    match fork_guard(60) {
                        Forked::Child => in_copy = true,
                        Forked::Delivered(o) => return *o,
                        Forked::Failed => {
                            run.out.harness_error = Some("fork for the guarded continuation failed".into());
                            break;
                        }
                        Forked::Died(status, tail) => {
                            run.model.layout_forced = true;
                            run.viol(
                                live.as_ref(),
                                "process-died",
                                &[("status", status.clone()), ("call", op.kind().into())],
                                format!("the process running op #{} {:?} (or the searches after it) died with {}: {}", i, op, status, tail),
                            );
                            break;
                        }
                        Forked::Hung => {
                            run.model.layout_forced = true;
                            run.viol(
                                live.as_ref(),
                                "hang",
                                &[("call", op.kind().into())],
                                format!("op #{} {:?} (or the searches after it) did not finish within 60 s", i, op),
                            );
                            break;
                        }
                    }
                }
            }
        }
        let mut l = live.take().unwrap();
        let mut executed = true;
        match op {
            Op::Insert { row, vec, rnd, cb } => {
                if run.model.live.contains_key(row) || vec.len() != case.dims as usize {
                    executed = false;
                } else {
                    let given = run.stored_vec(vec);
                    let lvl_pred = turdb::hnsw::operations::select_level(*rnd, turdb::hnsw::operations::calculate_ml(case.m));
                    let overlap_pred = run.model.insert_would_overlap(lvl_pred);
                    let model = &run.model;
                    let idx = &mut l.idx;
                    let r = if *cb {
                        guarded(|| {
                            idx.insert_with_callback(*row, &given, *rnd, |r| if r == *row { Some(given.clone()) } else { model.table_get(r) })
                        })
                    } else {
                        guarded(|| idx.insert(*row, &given, *rnd))
                    };
                    if !matches!(r, Ok(Ok(_))) && overlap_pred {
                        // the node was placed (and the page damaged) before the call gave up
                        run.model.layout_forced = true;
                    }
                    match r {
                        Err((site, msg)) => {
                            run.viol(Some(&l), "panic", &[("site", site.clone()), ("call", "insert".into())], format!("op #{} insert row {} {:?} rnd {} panicked at {}: {}", i, row, vec, rnd, site, msg));
                            run.stop = true;
                        }
                        Ok(Err(e)) => {
                            let e = format!("{:#}", e);
                            if *cb {
                                run.model.used_cb = true;
                            } else {
                                run.model.used_plain = true;
                            }
                            run.viol(
                                Some(&l),
                                "unexpected-error",
                                &[("call", "insert".into()), ("err", normalise_err(&e))],
                                format!(
                                    "op #{} insert of row {} {:?} (level draw {}) into an index with {} live rows and {} deleted nodes failed: {}",
                                    i,
                                    row,
                                    vec,
                                    rnd,
                                    run.model.live.len(),
                                    run.model.tombstones(),
                                    e
                                ),
                            );
                            run.stop = true;
                        }
                        Ok(Ok(nid)) => {
                            let nidk = (nid.page_no(), nid.slot_index());
                            run.logev(&format!("op #{} insert row {} -> node {}:{}", i, row, nidk.0, nidk.1));
                            if run.model.ever_rows.contains(row) {
                                run.model.did_reinsert = true;
                            }
                            run.model.ever_rows.insert(*row);
                            run.model.stale_map_rows.remove(row);
                            if *cb {
                                run.model.used_cb = true;
                            } else {
                                run.model.used_plain = true;
                            }
                            let pos = run.model.nodes.len();
                            if run.model.by_nid.insert(nidk, pos).is_some() {
                                run.viol(
                                    Some(&l),
                                    "unexpected-error",
                                    &[("call", "insert".into()), ("err", "node id handed out twice".into())],
                                    format!("op #{} insert row {} returned node id {}:{} which an earlier insert already returned", i, row, nidk.0, nidk.1),
                                );
                            }
                            let lvl = match l.idx.read_node(nid) {
                                Ok(n) => n.max_level(),
                                Err(_) => turdb::hnsw::operations::select_level(*rnd, turdb::hnsw::operations::calculate_ml(case.m)),
                            };
                            run.model.pages.entry(nidk.0).or_default().push(slot_size(lvl_pred));
                            run.model.nodes.push(MNode { nid: nidk, row: *row, vec: given, level: lvl, links_at_delete: None, deleted: false, deleted_by_node: false });
                            run.model.live.insert(*row, pos);
                            inserts_done += 1;
                            mutating_done += 1;
                        }
                    }
                }
            }
            Op::Delete { row, by_node } => match run.model.live.get(row).cloned() {
                None => executed = false,
                Some(pos) => {
                    let nid = run.model.nodes[pos].nid;
                    let is_ep = l.idx.index().entry_point().map(|e| (e.page_no(), e.slot_index())) == Some(nid);
                    let links_before = run.links_of(&l, nid, false);
                    let idx = &mut l.idx;
                    let r = if *by_node { guarded(|| idx.delete(NodeId::new(nid.0, nid.1))) } else { guarded(|| idx.delete_by_row_id(*row)) };
                    match r {
                        Err((site, msg)) => {
                            run.viol(Some(&l), "panic", &[("site", site.clone()), ("call", "delete".into())], format!("op #{} delete row {} panicked at {}: {}", i, row, site, msg));
                            run.stop = true;
                        }
                        Ok(Err(e)) => {
                            let e = format!("{:#}", e);
                            run.viol(Some(&l), "unexpected-error", &[("call", "delete".into()), ("err", normalise_err(&e))], format!("op #{} delete of live row {} (node {}:{}) failed: {}", i, row, nid.0, nid.1, e));
                            run.stop = true;
                        }
                        Ok(Ok(())) => {
                            run.logev(&format!("op #{} delete row {} node {}:{} ep={}", i, row, nid.0, nid.1, is_ep));
                            run.model.nodes[pos].deleted = true;
                            run.model.nodes[pos].links_at_delete = links_before;
                            run.model.nodes[pos].deleted_by_node = *by_node;
                            run.model.live.remove(row);
                            if *by_node {
                                run.model.stale_map_rows.insert(*row);
                            }
                            run.model.did_delete = true;
                            if is_ep {
                                run.model.did_delete_ep = true;
                                run.out.count("entry_point_deletions", 1);
                            }
                            mutating_done += 1;
                        }
                    }
                }
            },
            Op::DeleteMissing { row } => {
                if run.model.live.contains_key(row) || run.model.stale_map_rows.contains(row) {
                    executed = false;
                } else {
                    let idx = &mut l.idx;
                    match guarded(|| idx.delete_by_row_id(*row)) {
                        Err((site, msg)) => {
                            run.viol(Some(&l), "panic", &[("site", site.clone()), ("call", "delete-missing".into())], format!("op #{} delete_by_row_id({}) panicked at {}: {}", i, row, site, msg));
                            run.stop = true;
                        }
                        Ok(Err(e)) => {
                            let e = format!("{:#}", e);
                            run.viol(Some(&l), "unexpected-error", &[("call", "delete-missing".into()), ("err", normalise_err(&e))], format!("op #{} delete_by_row_id({}) of a row that is not in the index failed: {}", i, row, e));
                            run.stop = true;
                        }
                        Ok(Ok(())) => run.logev(&format!("op #{} delete_missing row {}", i, row)),
                    }
                }
            }
            Op::Vacuum { max } => {
                let idx = &mut l.idx;
                match guarded(|| idx.vacuum_batch(*max)) {
                    Err((site, msg)) => {
                        run.viol(Some(&l), "panic", &[("site", site.clone()), ("call", "vacuum".into())], format!("op #{} vacuum_batch({}) panicked at {}: {}", i, max, site, msg));
                        run.stop = true;
                    }
                    Ok(Err(e)) => {
                        let e = format!("{:#}", e);
                        run.viol(Some(&l), "unexpected-error", &[("call", "vacuum".into()), ("err", normalise_err(&e))], format!("op #{} vacuum_batch({}) failed: {}", i, max, e));
                        run.stop = true;
                    }
                    Ok(Ok(n)) => {
                        run.logev(&format!("op #{} vacuum {} -> {}", i, max, n));
                        run.out.count("vacuumed_nodes", n as u64);
                        if n > 0 {
                            run.model.did_vacuum = true;
                            run.out.count("vacuums_with_work", 1);
                        }
                    }
                }
            }
            Op::Sync => {
                let idx = &mut l.idx;
                match guarded(|| idx.sync()) {
                    Err((site, msg)) => {
                        run.viol(Some(&l), "panic", &[("site", site.clone()), ("call", "sync".into())], format!("op #{} sync panicked at {}: {}", i, site, msg));
                        run.stop = true;
                    }
                    Ok(Err(e)) => {
                        let e = format!("{:#}", e);
                        run.viol(Some(&l), "unexpected-error", &[("call", "sync".into()), ("err", normalise_err(&e))], format!("op #{} sync failed: {}", i, e));
                        run.stop = true;
                    }
                    Ok(Ok(())) => run.logev(&format!("op #{} sync", i)),
                }
            }
            Op::Reopen { sync } => {
                let mut ok = true;
                if *sync {
                    let idx = &mut l.idx;
                    match guarded(|| idx.sync()) {
                        Err((site, msg)) => {
                            run.viol(Some(&l), "panic", &[("site", site.clone()), ("call", "sync".into())], format!("op #{} sync before reopen panicked at {}: {}", i, site, msg));
                            run.stop = true;
                            ok = false;
                        }
                        Ok(Err(e)) => {
                            let e = format!("{:#}", e);
                            run.viol(Some(&l), "unexpected-error", &[("call", "sync".into()), ("err", normalise_err(&e))], format!("op #{} sync before reopen failed: {}", i, e));
                            run.stop = true;
                            ok = false;
                        }
                        Ok(Ok(())) => {}
                    }
                }
                if ok {
                    if let Err((site, msg)) = guarded(move || drop(l)) {
                        run.viol(None, "panic", &[("site", site.clone()), ("call", "drop".into())], format!("op #{} dropping the index panicked at {}: {}", i, site, msg));
                        run.stop = true;
                        break;
                    }
                    simdisk::boundary_point();
                    let p = run.path.clone();
                    match run.open_index(&p, "open") {
                        None => break,
                        Some(nl) => l = nl,
                    }
                    run.model.did_reopen = true;
                    if !*sync {
                        run.model.did_reopen_unsynced = true;
                    }
                    run.logev(&format!("op #{} reopen sync={}", i, sync));
                }
            }
        }
        simdisk::boundary_point();
        if !executed {
            run.out.count("ops/skipped_inapplicable", 1);
            live = Some(l);
            continue;
        }
        run.out.count(&format!("ops/{}", op.kind()), 1);
        run.out.count("steps", 1);
        if run.stop {
            live = Some(l);
            break;
        }
        let outs = run.search_all(&mut l);
        let mut lossy_reopen = false;
        if let Op::Reopen { sync } = op {
            run.out.count("reopen_comparisons", 1);
            for (qi, (a, b)) in last.iter().zip(outs.iter()).enumerate() {
                if matches!(a, SearchOut::Ok(_)) && a != b {
                    let q = &case.queries[qi];
                    run.viol(
                        Some(&l),
                        "reopen-changes-results",
                        &[("what", if *sync { "synced".to_string() } else { "unsynced".to_string() })],
                        format!(
                            "op #{}: query #{} {:?} k={} ef={} answered {} before the index was {}dropped and reopened, {} after",
                            i,
                            qi,
                            q.vec,
                            q.k,
                            q.ef,
                            a.brief(),
                            if *sync { "synced, " } else { "" },
                            b.brief()
                        ),
                    );
                    if !*sync {
                        // everything after a lossy reopen is a consequence of it
                        lossy_reopen = true;
                        run.stop = true;
                    }
                    break;
                }
            }
        }
        if !lossy_reopen {
            run.check_outs(&l, &step, &outs);
        }
        if matches!(op, Op::Sync) && case.image_check && !run.stop {
            run.compare_images(&l, &step, &outs);
        }
        last = outs;
        live = Some(l);
        if run.model.layout_state() == "overlap" {
            // the file is damaged from here on; what follows would only restate it
            run.stop = true;
        }
    }

    if let Some(l) = live.take() {
        let _ = guarded(move || drop(l));
    }

    // evidence
    let mut out = std::mem::take(&mut run.out);
    out.count(&format!("runs_metric/{}", run.metric.as_str()), 1);
    out.count(&format!("runs_quant/{}", case.quant), 1);
    out.count(&format!("runs_max_graph_level/{}", run.max_level_seen), 1);
    out.count(&format!("runs_nodes/{}", hist_bucket(run.model.nodes.len())), 1);
    out.count(&format!("runs_api/{}", run.model.api()), 1);
    out.count("results_returned", run.results_checked);
    out.count("nodes_inserted", run.model.nodes.len() as u64);
    out.count("nodes_inserted_above_level0", run.model.nodes.iter().filter(|n| n.level > 0).count() as u64);
    if case.image_check {
        out.count("runs_with_image_check", 1);
    }
    let sd_hash = simdisk::with(|sd| sd.log_hash);
    out.events_hash = simcore::rng::mix(run.log, sd_hash);
    out.fingerprint = case_hash;
    out.nontrivial = inserts_done >= 5 && mutating_done >= 5 && out.counters.get("searches_checked").copied().unwrap_or(0) > 0;
    out.states = run.states.iter().cloned().collect();
    out.sample = json!({
        "dims": case.dims, "m": case.m, "ef_construction": case.ef_construction, "metric": case.metric, "quant": case.quant,
        "ops": case.ops.len(), "queries": case.queries.len(),
        "trace": run.trace,
    });
    out.sim_time_us = simdisk::sim_time_us();
    if in_copy {
        deliver(&out);
    }
    out
}
