//! Brute-force reference: true distances in f64 and the ordering tolerance.

#[derive(Clone, Copy, Debug, PartialEq, Eq)]
pub enum Metric {
    L2,
    Cosine,
    Ip,
}

impl Metric {
    pub fn parse(s: &str) -> Metric {
        match s {
            "cosine" => Metric::Cosine,
            "ip" => Metric::Ip,
            _ => Metric::L2,
        }
    }
    pub fn as_str(&self) -> &'static str {
        match self {
            Metric::L2 => "l2",
            Metric::Cosine => "cosine",
            Metric::Ip => "ip",
        }
    }
}

/// True distance of `v` to query `q` under `metric`, plus the magnitude the ordering tolerance
/// is relative to.
///
/// * L2: the squared Euclidean distance (same order as the Euclidean distance). Every term is
///   non-negative, so an f32 evaluation is off by a few ulps *relative to the value itself*:
///   tolerance 1e-5 * d.
/// * cosine: 1 - dot/(|q||v|), and 1 when either vector is zero (TurDB's own convention in
///   `distance::cosine_*`). |dot| <= |q||v|, so an f32 evaluation is off by ~n*2^-24 absolute:
///   tolerance 1e-5 absolute (magnitude 1).
/// * inner product: -dot. Cancellation is possible, the f32 error is relative to sum |q_i v_i|:
///   tolerance 1e-5 * sum |q_i v_i|.
pub fn true_distance(metric: Metric, q: &[f32], v: &[f32]) -> (f64, f64) {
    match metric {
        Metric::L2 => {
            let mut s = 0.0f64;
            for (a, b) in q.iter().zip(v.iter()) {
                let d = *a as f64 - *b as f64;
                s += d * d;
            }
            (s, s)
        }
        Metric::Cosine => {
            let (mut dot, mut na, mut nb) = (0.0f64, 0.0f64, 0.0f64);
            for (a, b) in q.iter().zip(v.iter()) {
                dot += *a as f64 * *b as f64;
                na += *a as f64 * *a as f64;
                nb += *b as f64 * *b as f64;
            }
            let np = (na * nb).sqrt();
            if np == 0.0 {
                (1.0, 1.0)
            } else {
                (1.0 - dot / np, 1.0)
            }
        }
        Metric::Ip => {
            let (mut dot, mut mag) = (0.0f64, 0.0f64);
            for (a, b) in q.iter().zip(v.iter()) {
                dot += *a as f64 * *b as f64;
                mag += (*a as f64 * *b as f64).abs();
            }
            (-dot, mag)
        }
    }
}

/// `a` (returned earlier) is farther than `b` (returned later) beyond rounding.
pub fn out_of_order(a: (f64, f64), b: (f64, f64)) -> bool {
    let tol = 1e-5 * a.1.max(b.1);
    a.0 - b.0 > tol
}

pub fn l2sq(q: &[f32], v: &[f32]) -> f64 {
    true_distance(Metric::L2, q, v).0
}

fn ulp_f32(x: f32) -> f64 {
    let x = x.abs();
    if !x.is_finite() {
        return f64::INFINITY;
    }
    let bits = x.to_bits();
    let next = f32::from_bits(bits + 1);
    (next as f64) - (x as f64)
}

/// SQ8 clause of C25: every component of decode(encode(v)) lies within one quantisation step
/// `(max - min) / 255` (exact, in f64) of the original, plus the unavoidable f32 rounding of the
/// decoded value itself: 2 ulp of the largest magnitude in the vector (when the step is smaller
/// than the f32 spacing at |min| or |max| no f32 decoder can do better).
/// Returns the first offending component: (index, original, decoded, allowed).
pub fn sq8_check(orig: &[f32], decoded: &[f32]) -> Option<(usize, f32, f32, f64)> {
    if orig.is_empty() {
        return None;
    }
    if decoded.len() != orig.len() {
        return Some((decoded.len().min(orig.len()), 0.0, 0.0, 0.0));
    }
    let mn = orig.iter().cloned().fold(f32::INFINITY, f32::min);
    let mx = orig.iter().cloned().fold(f32::NEG_INFINITY, f32::max);
    let step = (mx as f64 - mn as f64) / 255.0;
    let allowed = step + 2.0 * ulp_f32(mn.abs().max(mx.abs()));
    for (i, (o, d)) in orig.iter().zip(decoded.iter()).enumerate() {
        let err = (*o as f64 - *d as f64).abs();
        if !d.is_finite() || err > allowed {
            return Some((i, *o, *d, allowed));
        }
    }
    None
}
