//! The explicit, replayable case: index parameters, operation list, query list.
//!
//! Every number that reaches TurDB is written out. Vector components are f32 values whose
//! shortest decimal form round-trips through JSON; level draws are multiples of 1/4096 (or 0.0 /
//! 1.0), which also round-trip exactly. A seeded run generates a `Case`, converts it to JSON and
//! executes the JSON, so a replay takes exactly the same path.

use serde::{Deserialize, Serialize};

#[derive(Serialize, Deserialize, Clone, Debug, PartialEq)]
#[serde(tag = "op", rename_all = "snake_case")]
pub enum Op {
    /// `insert` (cb=false) or `insert_with_callback` (cb=true, callback = the model's table).
    /// `rnd` is the caller-supplied level draw.
    Insert { row: u64, vec: Vec<f32>, rnd: f64, cb: bool },
    /// `delete_by_row_id(row)` or, with `by_node`, `delete(node id returned by the insert)`.
    Delete { row: u64, by_node: bool },
    /// `delete_by_row_id` of a row id that is not in the index: documented no-op.
    DeleteMissing { row: u64 },
    /// `vacuum_batch(max)`.
    Vacuum { max: usize },
    /// `sync()`; with `image_check` the kill and power-strict images of the file at this
    /// boundary are opened and searched.
    Sync,
    /// drop the index object (after `sync()` if `sync`) and `open` the file again.
    Reopen { sync: bool },
}

impl Op {
    pub fn kind(&self) -> &'static str {
        match self {
            Op::Insert { cb: false, .. } => "insert",
            Op::Insert { cb: true, .. } => "insert_cb",
            Op::Delete { by_node: false, .. } => "delete",
            Op::Delete { by_node: true, .. } => "delete_by_node",
            Op::DeleteMissing { .. } => "delete_missing",
            Op::Vacuum { .. } => "vacuum",
            Op::Sync => "sync",
            Op::Reopen { sync: true } => "reopen_synced",
            Op::Reopen { sync: false } => "reopen_unsynced",
        }
    }
}

#[derive(Serialize, Deserialize, Clone, Debug, PartialEq)]
pub struct Query {
    pub vec: Vec<f32>,
    pub k: usize,
    pub ef: usize,
    /// `search_filtered` with the visibility predicate "row is live" instead of `search`
    #[serde(default)]
    pub filtered: bool,
}

#[derive(Serialize, Deserialize, Clone, Debug, PartialEq)]
pub struct Case {
    pub kind: String,
    pub dims: u16,
    pub m: u16,
    pub ef_construction: u16,
    /// default search width stored in the file header (searches pass their own `ef`)
    pub ef_search: u16,
    /// "l2" | "cosine" | "ip"
    pub metric: String,
    /// "none" | "sq8"
    pub quant: String,
    /// take simdisk images at every `sync` and compare searches on them
    pub image_check: bool,
    pub ops: Vec<Op>,
    /// searched after every operation
    pub queries: Vec<Query>,
    /// extra vectors for the stand-alone SQ8 encode/decode check
    #[serde(default)]
    pub sq8_extra: Vec<Vec<f32>>,
}
