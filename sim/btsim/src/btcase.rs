//! B-tree cases (C28 / C29): explicit operation lists, the runner that executes them on the real
//! `turdb::btree::BTree<SimStorage>` next to a `BTreeMap` model and the independent page walker,
//! and the shrinker.

use crate::bytespec::{brief_bytes, B};
use crate::guard::{guarded, normalise_err};
use crate::storage::SimStorage;
use crate::walker::{PageSource, Shape, Walker};
use serde::{Deserialize, Serialize};
use simcore::rng::{fnv1a, mix};
use simcore::{Rng, RunOutcome, Violation};
use std::collections::{BTreeMap, BTreeSet};
use turdb::btree::{BTree, InsertUniqueResult};
use turdb::storage::{Freelist, Storage};

fn is_false(b: &bool) -> bool {
    !*b
}
fn is_zero32(v: &u32) -> bool {
    *v == 0
}

#[derive(Serialize, Deserialize, Clone, Debug, PartialEq)]
#[serde(tag = "op", rename_all = "snake_case")]
pub enum Op {
    Insert {
        k: B,
        v: B,
        #[serde(default, skip_serializing_if = "is_false")]
        h: bool,
        #[serde(default, skip_serializing_if = "String::is_empty")]
        ks: String,
    },
    InsertUnique {
        k: B,
        v: B,
        #[serde(default, skip_serializing_if = "is_false")]
        h: bool,
        #[serde(default, skip_serializing_if = "String::is_empty")]
        ks: String,
    },
    Append {
        k: B,
        v: B,
        #[serde(default, skip_serializing_if = "is_false")]
        h: bool,
        #[serde(default, skip_serializing_if = "String::is_empty")]
        ks: String,
    },
    Update {
        k: B,
        v: B,
        #[serde(default, skip_serializing_if = "String::is_empty")]
        ks: String,
    },
    Delete {
        k: B,
        #[serde(default, skip_serializing_if = "String::is_empty")]
        ks: String,
    },
    Get {
        k: B,
        #[serde(default, skip_serializing_if = "String::is_empty")]
        ks: String,
    },
    Seek {
        k: B,
        #[serde(default, skip_serializing_if = "String::is_empty")]
        ks: String,
    },
    /// Full comparison: forward from `cursor_first`, backward from `cursor_last`, and `q` seeks
    /// whose positions are drawn (seed `s`) from the model's key set at that moment.
    Scan {
        #[serde(default)]
        s: u64,
        #[serde(default)]
        q: u32,
    },
}

impl Op {
    pub fn kind(&self) -> &'static str {
        match self {
            Op::Insert { .. } => "insert",
            Op::InsertUnique { .. } => "insert_unique",
            Op::Append { .. } => "append",
            Op::Update { .. } => "update",
            Op::Delete { .. } => "delete",
            Op::Get { .. } => "get",
            Op::Seek { .. } => "seek",
            Op::Scan { .. } => "scan",
        }
    }
    pub fn key(&self) -> Option<&B> {
        match self {
            Op::Insert { k, .. }
            | Op::InsertUnique { k, .. }
            | Op::Append { k, .. }
            | Op::Update { k, .. }
            | Op::Delete { k, .. }
            | Op::Get { k, .. }
            | Op::Seek { k, .. } => Some(k),
            Op::Scan { .. } => None,
        }
    }
    fn key_mut(&mut self) -> Option<&mut B> {
        match self {
            Op::Insert { k, .. }
            | Op::InsertUnique { k, .. }
            | Op::Append { k, .. }
            | Op::Update { k, .. }
            | Op::Delete { k, .. }
            | Op::Get { k, .. }
            | Op::Seek { k, .. } => Some(k),
            Op::Scan { .. } => None,
        }
    }
    fn val_mut(&mut self) -> Option<&mut B> {
        match self {
            Op::Insert { v, .. } | Op::InsertUnique { v, .. } | Op::Append { v, .. } | Op::Update { v, .. } => Some(v),
            _ => None,
        }
    }
    pub fn val(&self) -> Option<&B> {
        match self {
            Op::Insert { v, .. } | Op::InsertUnique { v, .. } | Op::Append { v, .. } | Op::Update { v, .. } => Some(v),
            _ => None,
        }
    }
    pub fn keystyle(&self) -> &str {
        match self {
            Op::Insert { ks, .. }
            | Op::InsertUnique { ks, .. }
            | Op::Append { ks, .. }
            | Op::Update { ks, .. }
            | Op::Delete { ks, .. }
            | Op::Get { ks, .. }
            | Op::Seek { ks, .. } => ks.as_str(),
            Op::Scan { .. } => "",
        }
    }
    pub fn hinted(&self) -> bool {
        match self {
            Op::Insert { h, .. } | Op::InsertUnique { h, .. } | Op::Append { h, .. } => *h,
            _ => false,
        }
    }
    fn hint_mut(&mut self) -> Option<&mut bool> {
        match self {
            Op::Insert { h, .. } | Op::InsertUnique { h, .. } | Op::Append { h, .. } => Some(h),
            _ => None,
        }
    }
    pub fn is_mutation(&self) -> bool {
        matches!(self, Op::Insert { .. } | Op::InsertUnique { .. } | Op::Append { .. } | Op::Update { .. } | Op::Delete { .. })
    }
    pub fn brief(&self) -> String {
        match self {
            Op::Scan { s, q } => format!("scan(s={},q={})", s % 10000, q),
            _ => {
                let k = self.key().map(|k| k.brief()).unwrap_or_default();
                let v = self.val().map(|v| format!(", v={}B", v.n)).unwrap_or_default();
                format!("{}{}({}{})", self.kind(), if self.hinted() { "+hint" } else { "" }, k, v)
            }
        }
    }
}

#[derive(Serialize, Deserialize, Clone, Debug)]
pub struct BtCase {
    pub engine: String,
    pub kind: String,
    /// After a reported result mismatch: re-synchronise the model from the walker's own leaf
    /// enumeration and go on (used by the C29 profile to keep exploring structure).
    #[serde(default, skip_serializing_if = "is_false")]
    pub cont: bool,
    /// Number of junk-filled spare pages released to a `Freelist` the tree allocates from
    /// (`BTree::with_freelist`); 0 = the tree grows the file (and rightmost hints are usable).
    #[serde(default, skip_serializing_if = "is_zero32")]
    pub fl: u32,
    pub ops: Vec<Op>,
}

pub const CELL_HALF_PAGE: usize = 8180;

pub fn cell_size(klen: usize, vlen: usize) -> usize {
    let varint = if vlen <= 240 {
        1
    } else if vlen <= 2287 {
        2
    } else {
        3
    };
    klen + varint + vlen + 8
}

type KV = (Vec<u8>, Vec<u8>);

enum Out<T> {
    Ok(T),
    Err(String),
    Panic(String, String),
}

struct Run<'c> {
    case: &'c BtCase,
    st: SimStorage,
    root: u32,
    hint: Option<u32>,
    flh: (u32, u32),
    free: BTreeSet<u32>,
    model: BTreeMap<Vec<u8>, Vec<u8>>,
    walker: Walker,
    shape: Shape,
    out: RunOutcome,
    ev_hash: u64,
    sample: Vec<String>,
    any_hint: bool,
    big_cell: bool,
    /// an empty leaf existed before the current step
    empty_before: bool,
    scans_done: u64,
    mismatches: u64,
    c29_done: bool,
    c29_pending: bool,
    /// the persisted hint page handed to the current step is an empty leaf
    hint_leaf_empty: bool,
    stop: bool,
    seen_classes: BTreeSet<String>,
    max_pages: u32,
    states: BTreeSet<u64>,
}

fn collect_fwd(mut cur: turdb::btree::Cursor<'_, SimStorage>, cap: usize) -> eyre::Result<Vec<KV>> {
    let mut out = vec![];
    if !cur.valid() {
        return Ok(out);
    }
    loop {
        out.push((cur.key()?.to_vec(), cur.value()?.to_vec()));
        if out.len() > cap {
            eyre::bail!("cursor did not terminate after {} entries", out.len());
        }
        if !cur.advance()? {
            break;
        }
    }
    Ok(out)
}

fn collect_back(mut cur: turdb::btree::Cursor<'_, SimStorage>, cap: usize) -> eyre::Result<Vec<KV>> {
    let mut out = vec![];
    if !cur.valid() {
        return Ok(out);
    }
    loop {
        out.push((cur.key()?.to_vec(), cur.value()?.to_vec()));
        if out.len() > cap {
            eyre::bail!("cursor did not terminate after {} entries", out.len());
        }
        if !cur.prev()? {
            break;
        }
    }
    Ok(out)
}

/// `None` if equal; otherwise (difference class, detail).
fn diff_scan(actual: &[KV], expected: &[(&Vec<u8>, &Vec<u8>)], backward: bool) -> Option<(String, String)> {
    let n = actual.len().min(expected.len());
    let mut i = 0;
    while i < n && actual[i].0 == *expected[i].0 && actual[i].1 == *expected[i].1 {
        i += 1;
    }
    if i == actual.len() && i == expected.len() {
        return None;
    }
    let a = actual.get(i);
    let e = expected.get(i);
    let class = match (a, e) {
        (None, Some(_)) => "truncated",
        (Some(_), None) => "extra",
        (Some(a), Some(e)) => {
            if a.0 == *e.0 {
                "value"
            } else {
                let ordered = actual.windows(2).all(|w| if backward { w[0].0 > w[1].0 } else { w[0].0 < w[1].0 });
                if !ordered {
                    "order"
                } else if (a.0 > *e.0) != backward {
                    "missing"
                } else {
                    "extra"
                }
            }
        }
        (None, None) => "none",
    };
    let show = |x: Option<(&[u8], &[u8])>| match x {
        Some((k, v)) => format!("({}, {})", brief_bytes(k), brief_bytes(v)),
        None => "end".to_string(),
    };
    let detail = format!(
        "cursor returned {} entries, model has {}; first difference at position {}: cursor gives {}, model gives {}",
        actual.len(),
        expected.len(),
        i,
        show(a.map(|x| (x.0.as_slice(), x.1.as_slice()))),
        show(e.map(|x| (x.0.as_slice(), x.1.as_slice())))
    );
    Some((class.to_string(), detail))
}

/// Pages on the freelist chain starting at `head` (trunk pages and their entries), parsed from
/// the documented trunk layout (freelist.rs module doc).
fn freelist_pages(src: &dyn PageSource, head: u32) -> BTreeSet<u32> {
    let mut out = BTreeSet::new();
    let mut t = head;
    let mut hops = 0;
    while t != 0 && hops < 64 {
        hops += 1;
        let d = match src.src_page(t) {
            Some(d) => d,
            None => break,
        };
        out.insert(t);
        let next = u32::from_le_bytes([d[16], d[17], d[18], d[19]]);
        let count = u32::from_le_bytes([d[20], d[21], d[22], d[23]]) as usize;
        for i in 0..count.min(4090) {
            let o = 24 + 4 * i;
            out.insert(u32::from_le_bytes([d[o], d[o + 1], d[o + 2], d[o + 3]]));
        }
        t = next;
    }
    out
}

impl<'c> Run<'c> {
    fn new(case: &'c BtCase) -> Result<Self, String> {
        let mut st = SimStorage::new(2);
        // page 0 is a file header in real table / index files; the tree root starts at page 1
        {
            let p0 = st.raw_mut(0).ok_or("no page 0")?;
            p0[..16].copy_from_slice(b"TurDB Table\x00\x00\x00\x00\x00");
            p0[16..20].copy_from_slice(&1u32.to_le_bytes());
            p0[20..24].copy_from_slice(&16384u32.to_le_bytes());
        }
        BTree::create(&mut st, 1).map_err(|e| format!("BTree::create: {}", e))?;
        let mut flh = (0u32, 0u32);
        if case.fl > 0 {
            let total = 2 + case.fl;
            st.grow(total).map_err(|e| e.to_string())?;
            let mut fl = Freelist::new();
            for p in 2..total {
                let mut r = Rng::new(0x6a75_6e6b ^ p as u64);
                let d = st.raw_mut(p).ok_or("no spare page")?;
                r.fill_bytes(d);
                fl.release(&mut st, p).map_err(|e| format!("Freelist::release: {}", e))?;
            }
            flh = (fl.head_page(), fl.free_count());
        }
        let free = if case.fl > 0 { freelist_pages(&st, flh.0) } else { BTreeSet::new() };
        Ok(Run {
            case,
            st,
            root: 1,
            hint: None,
            flh,
            free,
            model: BTreeMap::new(),
            walker: Walker::new(),
            shape: Shape::default(),
            out: RunOutcome::default(),
            ev_hash: 0,
            sample: vec![],
            any_hint: false,
            big_cell: false,
            empty_before: false,
            scans_done: 0,
            mismatches: 0,
            c29_done: false,
            c29_pending: false,
            hint_leaf_empty: false,
            stop: false,
            seen_classes: BTreeSet::new(),
            max_pages: 2,
            states: BTreeSet::new(),
        })
    }

    fn tree_op<T>(&mut self, use_hint: bool, f: impl for<'t> FnOnce(&mut BTree<'t, SimStorage>) -> eyre::Result<T>) -> Out<T> {
        let root = self.root;
        let hint = self.hint;
        let fl_mode = self.case.fl > 0;
        let mut fl = Freelist::with_head(self.flh.0, self.flh.1);
        let st = &mut self.st;
        let flr = &mut fl;
        let r = guarded(move || -> eyre::Result<(T, u32, Option<u32>)> {
            let mut bt = if fl_mode {
                BTree::with_freelist(st, root, flr)?
            } else if use_hint {
                BTree::with_rightmost_hint(st, root, hint)?
            } else {
                BTree::new(st, root)?
            };
            let t = f(&mut bt)?;
            Ok((t, bt.root_page(), bt.rightmost_hint()))
        });
        if fl_mode {
            // the freelist object outlives the statement whatever its result: pages it handed
            // out are gone from the on-disk trunk, so its head/count are persisted in any case
            self.flh = (fl.head_page(), fl.free_count());
        }
        match r {
            Ok(Ok((t, nr, nh))) => {
                self.root = nr;
                if use_hint && !fl_mode {
                    self.hint = nh;
                }
                Out::Ok(t)
            }
            Ok(Err(e)) => Out::Err(format!("{}", e)),
            Err((site, msg)) => Out::Panic(site, msg),
        }
    }

    fn event(&mut self, s: String) {
        self.ev_hash = mix(self.ev_hash, fnv1a(s.as_bytes()));
        if self.sample.len() < 40 {
            self.sample.push(s);
        }
    }

    fn split_class(&self) -> &'static str {
        if self.shape.depth >= 3 {
            "interior"
        } else if self.shape.depth == 2 {
            "leaf"
        } else {
            "no"
        }
    }

    fn base_sig(&self, op: &Op, phase: &str) -> BTreeMap<String, String> {
        let mut sig = BTreeMap::new();
        // operation family that exposed the violation (insert / insert_unique / append are one
        // family: they share the leaf-insert and split code)
        let fam = phase.replace("insert_unique", "insert").replace("append", "insert");
        sig.insert("op".to_string(), fam);
        if !op.keystyle().is_empty() {
            let ks = match op.keystyle() {
                "tiny" => "tiny",
                "pfx" => "shared-prefix",
                "bigk" => "big",
                _ => "plain",
            };
            sig.insert("keystyle".to_string(), ks.to_string());
        }
        sig.insert("hint".to_string(), if self.any_hint { "yes" } else { "no" }.to_string());
        sig.insert("split".to_string(), self.split_class().to_string());
        sig.insert("empty_leaf".to_string(), if self.shape.empty_leaves.is_empty() && !self.empty_before { "no" } else { "yes" }.to_string());
        sig.insert("cells".to_string(), if self.big_cell { "gt-half-page" } else { "le-half-page" }.to_string());
        if self.case.fl > 0 {
            sig.insert("freelist".to_string(), "yes".to_string());
        }
        if self.hint_leaf_empty {
            sig.insert("hint_leaf_empty".to_string(), "yes".to_string());
        }
        sig
    }

    /// Where a seek for `key` lands, by the walker's own routing: "inside-leaf",
    /// "past-leaf-end" (greater than every key of the leaf it is routed to) or "empty-leaf".
    fn seek_lands(&mut self, key: &[u8]) -> String {
        let leaf = match self.walker.route(&self.st, self.root, key) {
            Some(l) => l,
            None => return "unknown".into(),
        };
        match self.walker.leaf_last(&self.st, leaf) {
            Some((0, _)) => "empty-leaf".into(),
            Some((_, Some(last))) => {
                if key > last.as_slice() {
                    "past-leaf-end".into()
                } else {
                    "inside-leaf".into()
                }
            }
            _ => "unknown".into(),
        }
    }

    /// For a cursor that stopped early: is the leaf it would have had to enter next empty?
    /// `last_returned`: key of the last entry the cursor delivered (None: it delivered nothing;
    /// `start_leaf` is then the leaf the cursor started on).
    fn stop_class(&mut self, last_returned: Option<&[u8]>, start_leaf: Option<u32>, backward: bool) -> String {
        let leaves = self.shape.leaves.clone();
        let is_empty = |p: u32, s: &Self| s.shape.empty_leaves.contains(&p);
        let cur = match last_returned {
            Some(k) => self.walker.route(&self.st, self.root, k),
            None => start_leaf,
        };
        let cur = match cur {
            Some(c) => c,
            None => return "unknown".into(),
        };
        if last_returned.is_none() {
            return if is_empty(cur, self) { "at-empty-leaf".into() } else { "other".into() };
        }
        let pos = match leaves.iter().position(|l| *l == cur) {
            Some(p) => p,
            None => return "unknown".into(),
        };
        let next = if backward { pos.checked_sub(1).and_then(|i| leaves.get(i)) } else { leaves.get(pos + 1) };
        match next {
            Some(n) if is_empty(*n, self) => "at-empty-leaf".into(),
            _ => "other".into(),
        }
    }

    fn case_upto(&self, idx: usize) -> serde_json::Value {
        let upto = (idx + 1).min(self.case.ops.len());
        let c = BtCase {
            engine: "btsim".into(),
            kind: "btree".into(),
            cont: self.case.cont,
            fl: self.case.fl,
            ops: self.case.ops[..upto].to_vec(),
        };
        serde_json::to_value(&c).unwrap_or(serde_json::Value::Null)
    }

    fn shape_brief(&self) -> String {
        format!(
            "tree: root={} depth={} leaves={} (empty {}) interiors={} entries={} pages={} hint={:?}",
            self.root,
            self.shape.depth,
            self.shape.leaves.len(),
            self.shape.empty_leaves.len(),
            self.shape.interiors,
            self.shape.entries,
            self.st.page_count(),
            self.hint
        )
    }

    #[allow(clippy::too_many_arguments)]
    fn violate(&mut self, property: &str, verdict: &str, idx: usize, op: &Op, phase: &str, extra: &[(&str, String)], detail: String) {
        let mut sig = self.base_sig(op, phase);
        for (k, v) in extra {
            sig.insert(k.to_string(), v.clone());
        }
        let class = format!("{}:{}", property, verdict);
        self.out.count(&format!("viol.{}", class), 1);
        if !self.seen_classes.insert(class) && self.out.violations.len() >= 2 {
            return;
        }
        if self.out.violations.len() >= 4 {
            return;
        }
        let detail = format!("step {} {}: {}\n{}", idx, op.brief(), detail, self.shape_brief());
        self.out.violations.push(Violation {
            property: property.to_string(),
            verdict: verdict.to_string(),
            sig,
            detail,
            case: self.case_upto(idx),
        });
    }

    /// Called after a C28 result mismatch: either stop, or adopt the tree's own content.
    fn after_mismatch(&mut self) {
        self.mismatches += 1;
        if !self.case.cont || self.mismatches >= 25 {
            self.stop = true;
            return;
        }
        let dirty = self.st.take_dirty();
        let (findings, shape) = self.walker.check(&self.st, self.root, &dirty, &self.free, 1, false);
        if !findings.is_empty() {
            self.stop = true;
            return;
        }
        match self.walker.enumerate(&self.st, &shape) {
            Some(entries) => {
                let mut m = BTreeMap::new();
                for (k, v) in entries {
                    m.insert(k, v);
                }
                self.model = m;
                self.out.count("model_resyncs", 1);
            }
            None => self.stop = true,
        }
    }

    /// C29: walk after a step that completed.
    fn structure_check(&mut self, idx: usize, op: &Op, full: bool) {
        if self.case.fl > 0 {
            self.free = freelist_pages(&self.st, self.flh.0);
        }
        let dirty = self.st.take_dirty();
        let (findings, shape) = self.walker.check(&self.st, self.root, &dirty, &self.free, 1, full);
        // reach probes from the shape delta
        let old = &self.shape;
        if !old.leaves.is_empty() {
            let dl = shape.leaves.len().saturating_sub(old.leaves.len());
            let dd = shape.depth.saturating_sub(old.depth);
            let di = shape.interiors.saturating_sub(old.interiors).saturating_sub(dd);
            if dl > 0 {
                self.out.count("probe.leaf_splits", dl as u64);
            }
            if dd > 0 {
                self.out.count("probe.root_splits", dd as u64);
            }
            if di > 0 {
                self.out.count("probe.interior_splits", di as u64);
            }
            let newly_empty = shape.empty_leaves.iter().filter(|p| !old.empty_leaves.contains(p)).count();
            if newly_empty > 0 {
                self.out.count("probe.leaves_emptied", newly_empty as u64);
                if shape.leaves.len() > 1 {
                    self.out.count("probe.nonroot_leaves_emptied", newly_empty as u64);
                }
            }
        }
        self.shape = shape;
        self.max_pages = self.max_pages.max(self.st.page_count());
        let mut seen = BTreeSet::new();
        for f in findings {
            if self.c29_done || !seen.insert(f.verdict) {
                continue;
            }
            let phase = op.kind().to_string();
            self.violate("C29", f.verdict, idx, op, &phase, &[], format!("page walker after this step: {}", f.detail));
            // the structure is reported once per run. A history that keeps exploring structure
            // (cont) ends here; otherwise the run goes on comparing results with the model, so
            // that the semantic consequences of a broken page are seen by C28 as well.
            self.c29_pending = true;
            if self.case.cont {
                self.stop = true;
            }
        }
        if self.c29_pending {
            self.c29_done = true;
        }
    }

    fn expected_range(&self, from: Option<&[u8]>) -> Vec<(&Vec<u8>, &Vec<u8>)> {
        match from {
            None => self.model.iter().collect(),
            Some(k) => self.model.range::<[u8], _>((std::ops::Bound::Included(k), std::ops::Bound::Unbounded)).collect(),
        }
    }

    fn seek_check(&mut self, idx: usize, op: &Op, key: &[u8], how: &str) {
        let cap = self.model.len() + 16;
        let k = key.to_vec();
        let r = self.tree_op(false, move |bt| collect_fwd(bt.cursor_seek(&k)?, cap));
        self.out.count("seek_comparisons", 1);
        match r {
            Out::Ok(actual) => {
                let exp = self.expected_range(Some(key));
                let diff = diff_scan(&actual, &exp, false);
                drop(exp);
                if let Some((class, detail)) = diff {
                    let lands = self.seek_lands(key);
                    let mut extra = vec![("diff", class.clone()), ("lands", lands.clone())];
                    if class == "truncated" && !actual.is_empty() {
                        let last = actual.last().map(|x| x.0.clone()).unwrap_or_default();
                        extra.push(("stop", self.stop_class(Some(&last), None, false)));
                    }
                    let d = format!("cursor_seek({}) [{}; seek key lands {}]: {}", brief_bytes(key), how, lands, detail);
                    self.violate("C28", "seek-scan-mismatch", idx, op, "scan-seek", &extra, d);
                    self.after_mismatch();
                }
            }
            Out::Err(e) => {
                let d = format!("cursor_seek({}) [{}] failed: {}", brief_bytes(key), how, e);
                self.violate("C28", "seek-scan-mismatch", idx, op, "scan-seek", &[("diff", "error".into()), ("err", normalise_err(&e))], d);
                self.after_mismatch();
            }
            Out::Panic(site, msg) => {
                self.violate("C28", "panic", idx, op, "scan-seek", &[("site", site.clone())], format!("cursor_seek panicked at {}: {}", site, msg));
                self.stop = true;
            }
        }
    }

    fn full_scan(&mut self, idx: usize, op: &Op, seed: u64, q: u32) {
        let cap = self.model.len() + 16;
        self.out.count("probe.full_scan_comparisons", 1);
        // forward
        let r = self.tree_op(false, move |bt| collect_fwd(bt.cursor_first()?, cap));
        match r {
            Out::Ok(actual) => {
                let exp = self.expected_range(None);
                let diff = diff_scan(&actual, &exp, false);
                drop(exp);
                if let Some((class, detail)) = diff {
                    let mut extra = vec![("diff", class.clone())];
                    if class == "truncated" {
                        let first_leaf = self.shape.leaves.first().copied();
                        let last = actual.last().map(|x| x.0.clone());
                        extra.push(("stop", self.stop_class(last.as_deref(), first_leaf, false)));
                    }
                    self.violate("C28", "forward-scan-mismatch", idx, op, "scan-fwd", &extra, format!("cursor_first + advance: {}", detail));
                    self.after_mismatch();
                }
            }
            Out::Err(e) => {
                self.violate("C28", "forward-scan-mismatch", idx, op, "scan-fwd", &[("diff", "error".into()), ("err", normalise_err(&e))], format!("cursor_first + advance failed: {}", e));
                self.after_mismatch();
            }
            Out::Panic(site, msg) => {
                self.violate("C28", "panic", idx, op, "scan-fwd", &[("site", site.clone())], format!("forward scan panicked at {}: {}", site, msg));
                self.stop = true;
            }
        }
        if self.stop {
            return;
        }
        // backward
        let r = self.tree_op(false, move |bt| collect_back(bt.cursor_last()?, cap));
        match r {
            Out::Ok(actual) => {
                let mut exp = self.expected_range(None);
                exp.reverse();
                let diff = diff_scan(&actual, &exp, true);
                drop(exp);
                if let Some((class, detail)) = diff {
                    let mut extra = vec![("diff", class.clone())];
                    if class == "truncated" {
                        let last_leaf = self.shape.leaves.last().copied();
                        let last = actual.last().map(|x| x.0.clone());
                        extra.push(("stop", self.stop_class(last.as_deref(), last_leaf, true)));
                    }
                    self.violate("C28", "backward-scan-mismatch", idx, op, "scan-back", &extra, format!("cursor_last + prev: {}", detail));
                    self.after_mismatch();
                }
            }
            Out::Err(e) => {
                self.violate("C28", "backward-scan-mismatch", idx, op, "scan-back", &[("diff", "error".into()), ("err", normalise_err(&e))], format!("cursor_last + prev failed: {}", e));
                self.after_mismatch();
            }
            Out::Panic(site, msg) => {
                self.violate("C28", "panic", idx, op, "scan-back", &[("site", site.clone())], format!("backward scan panicked at {}: {}", site, msg));
                self.stop = true;
            }
        }
        if self.stop {
            return;
        }
        // seeks
        let mut rng = Rng::new(seed ^ 0x5eed);
        for _ in 0..q {
            if self.stop {
                return;
            }
            let (key, how): (Vec<u8>, &str) = if self.model.is_empty() {
                (vec![rng.below(256) as u8], "empty-tree")
            } else {
                let n = self.model.len();
                let pick = self.model.keys().nth(rng.usize_below(n)).cloned().unwrap_or_default();
                match rng.below(6) {
                    0 => (pick, "existing"),
                    1 | 2 => {
                        let mut k = pick;
                        k.push(0);
                        (k, "just-above-existing")
                    }
                    3 => {
                        // just below an existing key: drop the last byte or decrement it
                        let mut k = pick;
                        match k.pop() {
                            Some(0) | None => {}
                            Some(b) => {
                                k.push(b - 1);
                                k.push(0xff);
                            }
                        }
                        (k, "just-below-existing")
                    }
                    4 => (vec![], "below-first"),
                    _ => {
                        let mut k = self.model.keys().next_back().cloned().unwrap_or_default();
                        k.push(0xff);
                        (k, "above-last")
                    }
                }
            };
            self.seek_check(idx, op, &key, how);
        }
    }

    fn post_lookup(&mut self, idx: usize, op: &Op, key: &[u8]) {
        if self.stop {
            return;
        }
        let k = key.to_vec();
        let r = self.tree_op(false, move |bt| Ok(bt.get(&k)?.map(|v| v.to_vec())));
        let phase = format!("post-{}", op.kind());
        match r {
            Out::Ok(actual) => {
                let exp = self.model.get(key).cloned();
                if actual != exp {
                    let d = format!(
                        "get({}) right after this step returns {}, model has {}",
                        brief_bytes(key),
                        actual.as_ref().map(|v| brief_bytes(v)).unwrap_or_else(|| "None".into()),
                        exp.as_ref().map(|v| brief_bytes(v)).unwrap_or_else(|| "None".into())
                    );
                    let what = match (&actual, &exp) {
                        (None, Some(_)) => "missing",
                        (Some(_), None) => "phantom",
                        _ => "value",
                    };
                    self.violate("C28", "lookup-mismatch", idx, op, &phase, &[("diff", what.to_string())], d);
                    self.after_mismatch();
                }
            }
            Out::Err(e) => {
                self.violate("C28", "lookup-mismatch", idx, op, &phase, &[("diff", "error".into()), ("err", normalise_err(&e))], format!("get({}) failed: {}", brief_bytes(key), e));
                self.stop = true;
            }
            Out::Panic(site, msg) => {
                self.violate("C28", "panic", idx, op, &phase, &[("site", site.clone())], format!("get panicked at {}: {}", site, msg));
                self.stop = true;
            }
        }
    }

    fn step(&mut self, idx: usize, op: &Op) {
        self.out.count(&format!("op.{}", op.kind()), 1);
        self.empty_before = !self.shape.empty_leaves.is_empty();
        self.hint_leaf_empty = false;
        if op.hinted() && self.case.fl == 0 {
            if let Some(h) = self.hint {
                if let Some((0, _)) = self.walker.leaf_last(&self.st, h) {
                    self.hint_leaf_empty = true;
                    self.out.count("probe.hinted_op_with_empty_hint_leaf", 1);
                }
            }
        }
        if op.hinted() && self.case.fl == 0 {
            self.any_hint = true;
            if self.hint.is_some() {
                self.out.count("probe.ops_with_persisted_hint", 1);
            }
        }
        let key = op.key().map(|k| k.bytes());
        let val = op.val().map(|v| v.bytes());
        let mut completed = true; // did the step leave the tree in a defined state?
        let res_brief;
        match op {
            Op::Insert { h, .. } | Op::Append { h, .. } => {
                let key = key.clone().unwrap_or_default();
                let val = val.clone().unwrap_or_default();
                let is_append = matches!(op, Op::Append { .. });
                if is_append {
                    if let Some(maxk) = self.model.keys().next_back() {
                        if key.as_slice() <= maxk.as_slice() {
                            // precondition of insert_append not met in this (possibly shrunk) history
                            self.out.count("append_skipped", 1);
                            self.event(format!("{}:append:skipped", idx));
                            return;
                        }
                    }
                }
                if cell_size(key.len(), val.len()) > CELL_HALF_PAGE {
                    self.big_cell = true;
                }
                let present = self.model.contains_key(&key);
                let (k2, v2) = (key.clone(), val.clone());
                let before = turdb::btree::get_fastpath_stats();
                let r = self.tree_op(*h, move |bt| if is_append { bt.insert_append(&k2, &v2) } else { bt.insert(&k2, &v2) });
                if is_append {
                    let after = turdb::btree::get_fastpath_stats();
                    self.out.count("probe.append_fastpath_hits", after.0.saturating_sub(before.0));
                }
                match r {
                    Out::Ok(()) => {
                        res_brief = "ok".into();
                        if present {
                            self.violate(
                                "C28",
                                "insert-result-mismatch",
                                idx,
                                op,
                                op.kind(),
                                &[("diff", "duplicate-accepted".into())],
                                format!("insert of existing key {} returned Ok (expected rejection: key already exists)", brief_bytes(&key)),
                            );
                            self.after_mismatch();
                        } else {
                            self.model.insert(key.clone(), val);
                            self.out.count("inserted", 1);
                        }
                    }
                    Out::Err(e) => {
                        res_brief = format!("err:{}", normalise_err(&e));
                        if present {
                            self.out.count("duplicate_rejected", 1);
                        } else {
                            completed = false;
                            self.violate(
                                "C28",
                                "insert-result-mismatch",
                                idx,
                                op,
                                op.kind(),
                                &[("diff", "error".into()), ("err", normalise_err(&e))],
                                format!("insert of absent key {} ({}B key, {}B value) failed: {}", brief_bytes(&key), key.len(), val.len(), e),
                            );
                            self.stop = true;
                        }
                    }
                    Out::Panic(site, msg) => {
                        completed = false;
                        res_brief = format!("panic:{}", site);
                        self.violate("C28", "panic", idx, op, op.kind(), &[("site", site.clone())], format!("panicked at {}: {}", site, msg));
                        self.stop = true;
                    }
                }
                if completed {
                    self.post_lookup(idx, op, &key);
                }
            }
            Op::InsertUnique { h, .. } => {
                let key = key.clone().unwrap_or_default();
                let val = val.clone().unwrap_or_default();
                if cell_size(key.len(), val.len()) > CELL_HALF_PAGE {
                    self.big_cell = true;
                }
                let (k2, v2) = (key.clone(), val.clone());
                let r = self.tree_op(*h, move |bt| match bt.insert_if_not_exists(&k2, &v2)? {
                    InsertUniqueResult::Inserted => Ok(None),
                    InsertUniqueResult::Duplicate(hd) => Ok(Some(bt.get_value(&hd)?.to_vec())),
                });
                let exp = self.model.get(&key).cloned();
                match r {
                    Out::Ok(actual) => {
                        res_brief = if actual.is_some() { "dup".into() } else { "inserted".into() };
                        if actual != exp {
                            let d = format!(
                                "insert_if_not_exists({}) returned {}, model says {}",
                                brief_bytes(&key),
                                actual.as_ref().map(|v| format!("Duplicate(value {})", brief_bytes(v))).unwrap_or_else(|| "Inserted".into()),
                                exp.as_ref().map(|v| format!("Duplicate(value {})", brief_bytes(v))).unwrap_or_else(|| "Inserted".into())
                            );
                            let what = match (&actual, &exp) {
                                (None, Some(_)) => "duplicate-accepted",
                                (Some(_), None) => "phantom-duplicate",
                                _ => "duplicate-value",
                            };
                            self.violate("C28", "insert-result-mismatch", idx, op, op.kind(), &[("diff", what.to_string())], d);
                            self.after_mismatch();
                        } else if exp.is_none() {
                            self.model.insert(key.clone(), val);
                            self.out.count("inserted", 1);
                        } else {
                            self.out.count("duplicate_rejected", 1);
                        }
                    }
                    Out::Err(e) => {
                        completed = false;
                        res_brief = format!("err:{}", normalise_err(&e));
                        self.violate(
                            "C28",
                            "insert-result-mismatch",
                            idx,
                            op,
                            op.kind(),
                            &[("diff", "error".into()), ("err", normalise_err(&e))],
                            format!("insert_if_not_exists({}) ({}B key, {}B value) failed: {}", brief_bytes(&key), key.len(), val.len(), e),
                        );
                        self.stop = true;
                    }
                    Out::Panic(site, msg) => {
                        completed = false;
                        res_brief = format!("panic:{}", site);
                        self.violate("C28", "panic", idx, op, op.kind(), &[("site", site.clone())], format!("panicked at {}: {}", site, msg));
                        self.stop = true;
                    }
                }
                if completed {
                    self.post_lookup(idx, op, &key);
                }
            }
            Op::Update { .. } => {
                let key = key.clone().unwrap_or_default();
                let val = val.clone().unwrap_or_default();
                let (k2, v2) = (key.clone(), val.clone());
                let r = self.tree_op(false, move |bt| bt.update(&k2, &v2));
                let old = self.model.get(&key).cloned();
                match r {
                    Out::Ok(b) => {
                        res_brief = format!("{}", b);
                        match (&old, b) {
                            (None, false) => {}
                            (Some(o), true) => {
                                let kind = if val.len() == o.len() {
                                    "probe.update_same_size"
                                } else if val.len() < o.len() {
                                    "probe.update_shrink"
                                } else {
                                    "probe.update_grow"
                                };
                                self.out.count(kind, 1);
                                self.model.insert(key.clone(), val);
                            }
                            (Some(o), false) if val.len() > o.len() => {
                                // documented: a growing update that does not fit the leaf is declined
                                self.out.count("probe.update_grow_declined", 1);
                            }
                            (Some(o), false) => {
                                let d = format!("update({}) to a value of {}B (old {}B) returned false although the key is present", brief_bytes(&key), val.len(), o.len());
                                self.violate("C28", "update-result-mismatch", idx, op, op.kind(), &[("diff", "declined".into())], d);
                                self.after_mismatch();
                            }
                            (None, true) => {
                                let d = format!("update({}) returned true although the key is absent", brief_bytes(&key));
                                self.violate("C28", "update-result-mismatch", idx, op, op.kind(), &[("diff", "phantom".into())], d);
                                self.after_mismatch();
                            }
                        }
                    }
                    Out::Err(e) => {
                        completed = false;
                        res_brief = format!("err:{}", normalise_err(&e));
                        let d = format!(
                            "update({}) from {}B to {}B failed: {}",
                            brief_bytes(&key),
                            old.as_ref().map(|o| o.len() as i64).unwrap_or(-1),
                            val.len(),
                            e
                        );
                        self.violate("C28", "update-result-mismatch", idx, op, op.kind(), &[("diff", "error".into()), ("err", normalise_err(&e))], d);
                        // was the entry lost by the failed update?
                        let k3 = key.clone();
                        if let Out::Ok(after) = self.tree_op(false, move |bt| Ok(bt.get(&k3)?.map(|v| v.to_vec()))) {
                            if after != old {
                                let d = format!(
                                    "after the failed update, get({}) returns {}, before it the entry had a {}B value",
                                    brief_bytes(&key),
                                    after.as_ref().map(|v| brief_bytes(v)).unwrap_or_else(|| "None".into()),
                                    old.as_ref().map(|o| o.len()).unwrap_or(0)
                                );
                                self.violate("C28", "lookup-mismatch", idx, op, "post-update-error", &[("diff", if after.is_none() { "missing".into() } else { "value".to_string() })], d);
                            }
                        }
                        self.stop = true;
                    }
                    Out::Panic(site, msg) => {
                        completed = false;
                        res_brief = format!("panic:{}", site);
                        self.violate("C28", "panic", idx, op, op.kind(), &[("site", site.clone())], format!("panicked at {}: {}", site, msg));
                        self.stop = true;
                    }
                }
                if completed {
                    self.post_lookup(idx, op, &key);
                }
            }
            Op::Delete { .. } => {
                let key = key.clone().unwrap_or_default();
                let k2 = key.clone();
                let r = self.tree_op(false, move |bt| bt.delete(&k2));
                let present = self.model.contains_key(&key);
                match r {
                    Out::Ok(b) => {
                        res_brief = format!("{}", b);
                        if b != present {
                            let d = format!("delete({}) returned {}, model says the key is {}", brief_bytes(&key), b, if present { "present" } else { "absent" });
                            self.violate("C28", "delete-result-mismatch", idx, op, op.kind(), &[("diff", if present { "not-found".into() } else { "phantom".to_string() })], d);
                            self.after_mismatch();
                        } else if present {
                            self.model.remove(&key);
                            self.out.count("deleted", 1);
                        }
                    }
                    Out::Err(e) => {
                        completed = false;
                        res_brief = format!("err:{}", normalise_err(&e));
                        self.violate("C28", "delete-result-mismatch", idx, op, op.kind(), &[("diff", "error".into()), ("err", normalise_err(&e))], format!("delete({}) failed: {}", brief_bytes(&key), e));
                        self.stop = true;
                    }
                    Out::Panic(site, msg) => {
                        completed = false;
                        res_brief = format!("panic:{}", site);
                        self.violate("C28", "panic", idx, op, op.kind(), &[("site", site.clone())], format!("panicked at {}: {}", site, msg));
                        self.stop = true;
                    }
                }
                if completed {
                    self.post_lookup(idx, op, &key);
                }
            }
            Op::Get { .. } => {
                let key = key.clone().unwrap_or_default();
                let k2 = key.clone();
                let r = self.tree_op(false, move |bt| {
                    let a = bt.get(&k2)?.map(|v| v.to_vec());
                    let b = match bt.search(&k2)? {
                        Some(h) => Some((bt.get_key(&h)?.to_vec(), bt.get_value(&h)?.to_vec())),
                        None => None,
                    };
                    Ok((a, b))
                });
                let exp = self.model.get(&key).cloned();
                match r {
                    Out::Ok((a, b)) => {
                        res_brief = if a.is_some() { "some".into() } else { "none".into() };
                        let via_search = b.as_ref().map(|x| x.1.clone());
                        let key_ok = b.as_ref().map(|x| x.0 == key).unwrap_or(true);
                        if a != exp || via_search != exp || !key_ok {
                            let d = format!(
                                "get({}) returns {}, search+get_value returns {}, model has {}",
                                brief_bytes(&key),
                                a.as_ref().map(|v| brief_bytes(v)).unwrap_or_else(|| "None".into()),
                                via_search.as_ref().map(|v| brief_bytes(v)).unwrap_or_else(|| "None".into()),
                                exp.as_ref().map(|v| brief_bytes(v)).unwrap_or_else(|| "None".into())
                            );
                            let what = match (&a, &exp) {
                                (None, Some(_)) => "missing",
                                (Some(_), None) => "phantom",
                                _ => "value",
                            };
                            self.violate("C28", "lookup-mismatch", idx, op, op.kind(), &[("diff", what.to_string())], d);
                            self.after_mismatch();
                        }
                    }
                    Out::Err(e) => {
                        res_brief = format!("err:{}", normalise_err(&e));
                        self.violate("C28", "lookup-mismatch", idx, op, op.kind(), &[("diff", "error".into()), ("err", normalise_err(&e))], format!("get({}) failed: {}", brief_bytes(&key), e));
                        self.stop = true;
                    }
                    Out::Panic(site, msg) => {
                        res_brief = format!("panic:{}", site);
                        self.violate("C28", "panic", idx, op, op.kind(), &[("site", site.clone())], format!("panicked at {}: {}", site, msg));
                        self.stop = true;
                    }
                }
            }
            Op::Seek { .. } => {
                let key = key.clone().unwrap_or_default();
                self.seek_check(idx, op, &key, "explicit");
                res_brief = "seek".into();
            }
            Op::Scan { s, q } => {
                self.full_scan(idx, op, *s, *q);
                res_brief = "scan".into();
            }
        }
        if completed {
            let full = matches!(op, Op::Scan { .. }) && {
                self.scans_done += 1;
                self.scans_done % 8 == 0
            };
            self.structure_check(idx, op, full);
        }
        let e = format!(
            "{}:{}:{}:root{}:pc{}:d{}l{}i{}e{}",
            idx,
            op.brief(),
            res_brief,
            self.root,
            self.st.page_count(),
            self.shape.depth,
            self.shape.leaves.len(),
            self.shape.interiors,
            self.shape.empty_leaves.len()
        );
        self.event(e);
        if matches!(op, Op::Scan { .. }) {
            let b = |n: usize| -> u64 {
                match n {
                    0..=4 => n as u64,
                    5..=8 => 5,
                    9..=16 => 6,
                    17..=64 => 7,
                    65..=256 => 8,
                    _ => 9,
                }
            };
            let sh = mix(
                mix(self.shape.depth as u64, b(self.shape.leaves.len())),
                mix(b(self.shape.interiors), mix(b(self.shape.empty_leaves.len()), if self.hint.is_some() { 1 } else { 0 })),
            );
            self.states.insert(sh);
        }
    }
}

/// Text dump of the tree as the walker parses it (triage aid: `VSIM_DEBUG=1 btsim case <file>`).
fn dump_tree(st: &SimStorage, root: u32) -> Vec<String> {
    let mut out = vec![];
    let mut stack = vec![(root, 0usize)];
    let mut seen = BTreeSet::new();
    while let Some((p, depth)) = stack.pop() {
        if !seen.insert(p) || out.len() > 400 {
            continue;
        }
        let d = match st.raw(p) {
            Some(d) => d,
            None => continue,
        };
        let parsed = crate::walker::parse_page(p, d);
        let pad = "  ".repeat(depth);
        match &parsed.node {
            crate::walker::Node::Leaf { n, next, .. } => {
                let cells = crate::walker::read_leaf_cells(d).unwrap_or_default();
                let keys: Vec<String> = cells.iter().map(|(k, v)| format!("{}={}B", brief_bytes(k), v.len())).collect();
                let free_start = u16::from_le_bytes([d[4], d[5]]);
                let free_end = u16::from_le_bytes([d[6], d[7]]);
                out.push(format!("{}leaf {} n={} next={} free={}..{} [{}]", pad, p, n, next, free_start, free_end, keys.join(", ")));
            }
            crate::walker::Node::Interior { seps, children } => {
                let ss: Vec<String> = seps.iter().map(|k| brief_bytes(k)).collect();
                out.push(format!("{}interior {} seps=[{}] children={:?}", pad, p, ss.join(", "), children));
                for c in children.iter().rev() {
                    stack.push((*c, depth + 1));
                }
            }
            crate::walker::Node::Bad { type_byte } => out.push(format!("{}page {} type {:#x}", pad, p, type_byte)),
        }
    }
    out
}

pub fn run_bt_case(case: &BtCase) -> RunOutcome {
    let mut run = match Run::new(case) {
        Ok(r) => r,
        Err(e) => {
            return RunOutcome { harness_error: Some(format!("setup failed: {}", e)), ..Default::default() };
        }
    };
    // initial walk (fresh tree)
    {
        let dirty = run.st.take_dirty();
        let (f, shape) = run.walker.check(&run.st, run.root, &dirty, &run.free, 1, true);
        if !f.is_empty() {
            return RunOutcome { harness_error: Some(format!("fresh tree fails the walker: {}", f[0].detail)), ..Default::default() };
        }
        run.shape = shape;
    }
    let mut executed = 0usize;
    for (i, op) in case.ops.iter().enumerate() {
        if run.stop {
            break;
        }
        run.step(i, op);
        executed += 1;
    }
    if !run.stop && !case.ops.is_empty() {
        // implicit final comparison
        let last = case.ops.len() - 1;
        let fin = Op::Scan { s: 7, q: 4 };
        run.out.count("final_checks", 1);
        run.hint_leaf_empty = false;
        run.full_scan(last, &fin, 7, 4);
        if !run.stop {
            run.structure_check(last, &fin, true);
        }
        // model size vs entries seen by the walker
        if !run.stop && !run.c29_done && run.out.violations.is_empty() && run.shape.entries != run.model.len() {
            let d = format!("walker counts {} entries in reachable leaves, model has {}", run.shape.entries, run.model.len());
            run.violate("C28", "forward-scan-mismatch", last, &fin, "final-count", &[("diff", "count".into())], d);
        }
    }
    let mutations = case.ops.iter().take(executed).filter(|o| o.is_mutation()).count();
    let splits = run.out.counters.get("probe.leaf_splits").copied().unwrap_or(0);
    run.out.count("steps", executed as u64);
    run.out.count("walker.walks", run.walker.walks);
    run.out.count("walker.page_parses", run.walker.parses);
    run.out.count("walker.full_walks", run.walker.full_walks);
    run.out.count(&format!("probe.max_depth_{}", run.shape.depth.min(9)), 1);
    if run.case.fl > 0 {
        run.out.count("runs_with_freelist", 1);
        run.out.count("probe.freelist_pages_reused", (run.case.fl as u64).saturating_sub(run.flh.1 as u64));
    }
    if run.any_hint {
        run.out.count("runs_with_hint", 1);
    }
    if run.big_cell {
        run.out.count("runs_with_cells_over_half_page", 1);
    }
    run.out.nontrivial = mutations >= 20 && splits >= 1;
    run.out.fingerprint = fnv1a(serde_json::to_string(&case.ops).unwrap_or_default().as_bytes());
    run.out.events_hash = mix(run.ev_hash, mix(run.root as u64, run.st.page_count() as u64));
    run.out.states = run.states.iter().copied().collect();
    let dump = if std::env::var_os("VSIM_DEBUG").is_some() { dump_tree(&run.st, run.root) } else { vec![] };
    run.out.sample = serde_json::json!({
        "kind": "btree",
        "tree_dump": dump,
        "ops": case.ops.len(),
        "executed": executed,
        "freelist_spares": case.fl,
        "final": run.shape_brief(),
        "max_pages": run.max_pages,
        "first_events": run.sample,
    });
    run.out
}

// ------------------------------------------------------------------------------------------
// shrinking

fn to_value(c: &BtCase) -> serde_json::Value {
    serde_json::to_value(c).unwrap_or(serde_json::Value::Null)
}

pub fn shrink_bt(case: &BtCase) -> Vec<serde_json::Value> {
    let mut out: Vec<serde_json::Value> = vec![];
    let n = case.ops.len();
    let mk = |ops: Vec<Op>, cont: bool, fl: u32| BtCase { engine: "btsim".into(), kind: "btree".into(), cont, fl, ops };
    // 1. drop chunks of operations
    if n > 1 {
        // drop every read-only operation at once (the end-of-case comparison still runs)
        let only_mut: Vec<Op> = case.ops.iter().filter(|o| o.is_mutation()).cloned().collect();
        if only_mut.len() < n && !only_mut.is_empty() {
            out.push(to_value(&mk(only_mut, case.cont, case.fl)));
        }
        for keep in simcore::driver::ddmin_keepsets(n) {
            if keep.is_empty() {
                continue;
            }
            let ops: Vec<Op> = keep.iter().map(|i| case.ops[*i].clone()).collect();
            out.push(to_value(&mk(ops, case.cont, case.fl)));
        }
        if n <= 400 {
            // ddmin_keepsets stops early on long lists; make sure single drops are offered
            // once the list is short enough
            let have_singles = n <= 64;
            if !have_singles {
                for i in 0..n {
                    let mut ops = case.ops.clone();
                    ops.remove(i);
                    out.push(to_value(&mk(ops, case.cont, case.fl)));
                }
            }
        }
    }
    // 2. simpler settings
    if case.cont {
        out.push(to_value(&mk(case.ops.clone(), false, case.fl)));
    }
    if case.fl > 0 {
        out.push(to_value(&mk(case.ops.clone(), case.cont, 0)));
        if case.fl > 1 {
            out.push(to_value(&mk(case.ops.clone(), case.cont, case.fl / 2)));
        }
    }
    if case.ops.iter().any(|o| o.hinted()) {
        let mut ops = case.ops.clone();
        for o in ops.iter_mut() {
            if let Some(h) = o.hint_mut() {
                *h = false;
            }
        }
        out.push(to_value(&mk(ops, case.cont, case.fl)));
    }
    // 3. simplify single operations (only once the list is short: each candidate costs a run)
    if n <= 60 {
        for i in 0..n {
            // hint flag
            if case.ops[i].hinted() {
                let mut ops = case.ops.clone();
                if let Some(h) = ops[i].hint_mut() {
                    *h = false;
                }
                out.push(to_value(&mk(ops, case.cont, case.fl)));
            }
            // operation kind
            let plain = match &case.ops[i] {
                Op::Append { k, v, h, ks } | Op::InsertUnique { k, v, h, ks } => Some(Op::Insert { k: k.clone(), v: v.clone(), h: *h, ks: ks.clone() }),
                Op::Scan { s, q } if *q > 0 => Some(Op::Scan { s: *s, q: 0 }),
                _ => None,
            };
            if let Some(p) = plain {
                let mut ops = case.ops.clone();
                ops[i] = p;
                out.push(to_value(&mk(ops, case.cont, case.fl)));
            }
        }
        // values, per operation
        for i in 0..n {
            if let Some(v) = case.ops[i].val() {
                for sv in v.simpler() {
                    let mut ops = case.ops.clone();
                    if let Some(slot) = ops[i].val_mut() {
                        *slot = sv;
                    }
                    out.push(to_value(&mk(ops, case.cont, case.fl)));
                }
            }
        }
        // keys: the same key spec is replaced everywhere it occurs
        let mut distinct: Vec<B> = vec![];
        for o in &case.ops {
            if let Some(k) = o.key() {
                if !distinct.contains(k) {
                    distinct.push(k.clone());
                }
            }
        }
        for k in &distinct {
            for sk in k.simpler() {
                if distinct.contains(&sk) {
                    continue;
                }
                let mut ops = case.ops.clone();
                for o in ops.iter_mut() {
                    if let Some(slot) = o.key_mut() {
                        if slot == k {
                            *slot = sk.clone();
                        }
                    }
                }
                out.push(to_value(&mk(ops, case.cont, case.fl)));
            }
        }
    }
    out
}
