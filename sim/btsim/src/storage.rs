//! `SimStorage`: the `turdb::storage::Storage` the B-tree / freelist run on. A vector of 16 KiB
//! pages in memory; pages are materialised lazily (an untouched page reads as zeroes, exactly
//! like a freshly grown mmap file), every `page_mut` is recorded in a dirty list that the
//! page walker uses to re-parse only what changed.

use std::cell::RefCell;
use turdb::storage::Storage;

pub const PAGE_SIZE: usize = 16384;

static ZERO_PAGE: [u8; PAGE_SIZE] = [0u8; PAGE_SIZE];

pub struct SimStorage {
    pages: Vec<Option<Box<[u8]>>>,
    dirty: RefCell<Vec<u32>>,
    pub grows: u64,
    pub page_muts: u64,
}

impl SimStorage {
    pub fn new(page_count: u32) -> Self {
        let mut pages = Vec::new();
        pages.resize_with(page_count as usize, || None);
        SimStorage { pages, dirty: RefCell::new(vec![]), grows: 0, page_muts: 0 }
    }

    /// Pages written since the last call, sorted, without duplicates.
    pub fn take_dirty(&self) -> Vec<u32> {
        let mut d = std::mem::take(&mut *self.dirty.borrow_mut());
        d.sort_unstable();
        d.dedup();
        d
    }

    pub fn raw(&self, page_no: u32) -> Option<&[u8]> {
        match self.pages.get(page_no as usize) {
            Some(Some(p)) => Some(&p[..]),
            Some(None) => Some(&ZERO_PAGE[..]),
            None => None,
        }
    }

    pub fn raw_mut(&mut self, page_no: u32) -> Option<&mut [u8]> {
        let slot = self.pages.get_mut(page_no as usize)?;
        if slot.is_none() {
            *slot = Some(vec![0u8; PAGE_SIZE].into_boxed_slice());
        }
        self.dirty.borrow_mut().push(page_no);
        slot.as_mut().map(|p| &mut p[..])
    }

}

impl Storage for SimStorage {
    fn page(&self, page_no: u32) -> eyre::Result<&[u8]> {
        self.raw(page_no)
            .ok_or_else(|| eyre::eyre!("page {} out of bounds (page_count={})", page_no, self.pages.len()))
    }

    fn page_mut(&mut self, page_no: u32) -> eyre::Result<&mut [u8]> {
        let n = self.pages.len();
        self.page_muts += 1;
        self.raw_mut(page_no)
            .ok_or_else(|| eyre::eyre!("page {} out of bounds (page_count={})", page_no, n))
    }

    fn grow(&mut self, new_page_count: u32) -> eyre::Result<()> {
        if new_page_count as usize > self.pages.len() {
            self.pages.resize_with(new_page_count as usize, || None);
            self.grows += 1;
        }
        Ok(())
    }

    fn page_count(&self) -> u32 {
        self.pages.len() as u32
    }

    fn sync(&self) -> eyre::Result<()> {
        Ok(())
    }
}

impl crate::walker::PageSource for SimStorage {
    fn src_page(&self, page_no: u32) -> Option<&[u8]> {
        self.raw(page_no)
    }
    fn src_page_count(&self) -> u32 {
        self.pages.len() as u32
    }
}
