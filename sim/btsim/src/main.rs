//! btsim: seeded deterministic simulation of TurDB's B-tree (C28, C29) and freelist (C34)
//! against small reference models. See ENGINE_GUIDE.md; CLI in the style of vsim.

mod btcase;
mod btgen;
mod bytespec;
mod engine;
mod flcase;
mod guard;
mod storage;
mod walker;

use engine::Btsim;
use simcore::driver::{self, CheckSpec, Engine};
use simcore::pool::{self, JobStatus, PoolCfg};
use simcore::Tier;
use std::time::Duration;

struct PropSpec {
    id: &'static str,
    profile: &'static str,
    level: &'static str,
    quick_runs: u64,
    thorough_runs: u64,
}

const PROPS: &[PropSpec] = &[
    // run counts: quick is sized for about a minute of batch time on 16 cores (C29 runs keep
    // going after a result mismatch and are the slowest), thorough for 10-15 minutes
    PropSpec { id: "C28", profile: "bt", level: "exploration", quick_runs: 2000, thorough_runs: 6000 },
    PropSpec { id: "C29", profile: "bt", level: "exploration", quick_runs: 1500, thorough_runs: 5000 },
    PropSpec { id: "C34", profile: "fl", level: "exploration", quick_runs: 3000, thorough_runs: 12000 },
];

fn arg_value(args: &[String], flag: &str) -> Option<String> {
    args.iter().position(|a| a == flag).and_then(|i| args.get(i + 1).cloned())
}

fn env_u64(k: &str) -> Option<u64> {
    std::env::var(k).ok().and_then(|v| v.parse().ok())
}

fn workers() -> usize {
    env_u64("VSIM_WORKERS")
        .map(|v| v as usize)
        .unwrap_or_else(|| std::thread::available_parallelism().map(|n| n.get()).unwrap_or(8).min(16))
}

fn full_profile(p: &str) -> String {
    if p.contains('@') {
        return p.to_string();
    }
    // accept a bare property id or a bare profile name
    match PROPS.iter().find(|s| s.id == p) {
        Some(s) => format!("{}@{}", s.profile, s.id),
        None => match p {
            "fl" => "fl@C34".to_string(),
            _ => format!("{}@C28", p),
        },
    }
}

fn cmd_check(args: &[String]) -> i32 {
    let id = match args.first() {
        Some(i) => i.clone(),
        None => {
            eprintln!("usage: btsim check <C28|C29|C34> [--tier quick|thorough] [--seed N] [--runs N]");
            return 2;
        }
    };
    let ps = match PROPS.iter().find(|p| p.id == id) {
        Some(p) => p,
        None => {
            eprintln!("unknown property {}", id);
            return 2;
        }
    };
    let tier = Tier::parse(&arg_value(args, "--tier").or_else(|| std::env::var("VERIF_TIER").ok()).unwrap_or_else(|| "quick".into()));
    let seed = arg_value(args, "--seed").and_then(|s| s.parse().ok()).or_else(|| env_u64("VERIF_SEED")).unwrap_or(1);
    let runs = arg_value(args, "--runs")
        .and_then(|s| s.parse().ok())
        .or_else(|| env_u64("VSIM_RUNS"))
        .unwrap_or(if tier == Tier::Thorough { ps.thorough_runs } else { ps.quick_runs });
    let spec = CheckSpec {
        property: ps.id.to_string(),
        profile: format!("{}@{}", ps.profile, ps.id),
        tier,
        seed,
        runs,
        workers: workers(),
        run_timeout: Duration::from_secs(if tier == Tier::Thorough { 300 } else { 90 }),
        batch_budget: Duration::from_secs(if tier == Tier::Thorough { 1500 } else { 150 }),
        level: ps.level.to_string(),
        also_owns: vec![],
        min_budget_runs: if tier == Tier::Thorough { 12000 } else { 4000 },
        min_budget_wall: Duration::from_secs(if tier == Tier::Thorough { 60 } else { 15 }),
        max_minimise: if tier == Tier::Thorough { 12 } else { 6 },
    };
    driver::run_check(&Btsim, &spec)
}

fn cmd_replay(args: &[String]) -> i32 {
    let path = match args.first() {
        Some(p) => std::path::PathBuf::from(p),
        None => {
            eprintln!("usage: btsim replay <file>");
            return 2;
        }
    };
    driver::replay(&Btsim, &path)
}

fn print_outcome(st: JobStatus, verbose: bool) {
    match st {
        JobStatus::Done(o) => {
            if verbose {
                println!("{}", serde_json::to_string_pretty(&o.sample).unwrap_or_default());
            }
            println!("counters: {:?}", o.counters);
            println!("events_hash={:016x} nontrivial={} harness_error={:?}", o.events_hash, o.nontrivial, o.harness_error);
            for v in &o.violations {
                println!("VIOL {} :: {}", v.sig_string(), v.detail);
            }
        }
        other => println!("{:?}", other),
    }
}

/// `btsim run1 <profile> <seed> <run> [tier]` — one seeded run, outcome printed.
fn cmd_run1(args: &[String]) -> i32 {
    if args.len() < 3 {
        eprintln!("usage: btsim run1 <profile|property> <seed> <run> [tier]");
        return 2;
    }
    let profile = full_profile(&args[0]);
    let seed: u64 = args[1].parse().unwrap_or(1);
    let run: u64 = args[2].parse().unwrap_or(0);
    let tier = Tier::parse(args.get(3).map(|s| s.as_str()).unwrap_or("quick"));
    let base = pool::default_scratch_base();
    let cfg = PoolCfg { workers: 1, timeout: Duration::from_secs(300), scratch: base.join("run1"), deadline: None };
    let res = pool::run_jobs(&cfg, &[run], |j| Btsim.run_seeded(&profile, seed, j, tier));
    pool::cleanup(&base);
    for (_, st) in res {
        print_outcome(st, true);
    }
    0
}

/// `btsim gen <profile> <seed> <run> [tier]` — print the explicit case of a seeded run.
fn cmd_gen(args: &[String]) -> i32 {
    if args.len() < 3 {
        eprintln!("usage: btsim gen <profile|property> <seed> <run> [tier]");
        return 2;
    }
    let profile = full_profile(&args[0]);
    let seed: u64 = args[1].parse().unwrap_or(1);
    let run: u64 = args[2].parse().unwrap_or(0);
    let tier = Tier::parse(args.get(3).map(|s| s.as_str()).unwrap_or("quick"));
    let case = engine::seeded_case(&profile, seed, run, tier);
    println!("{}", serde_json::to_string(&case).unwrap_or_default());
    0
}

/// `btsim case <file>` — run a bare case file (the `case` object of a replay file, or a whole
/// replay file) in-process and print the outcome.
fn cmd_case(args: &[String]) -> i32 {
    let path = match args.first() {
        Some(p) => p.clone(),
        None => {
            eprintln!("usage: btsim case <file>");
            return 2;
        }
    };
    let doc: serde_json::Value = match std::fs::read(&path).ok().and_then(|b| serde_json::from_slice(&b).ok()) {
        Some(d) => d,
        None => {
            eprintln!("cannot read {}", path);
            return 2;
        }
    };
    let case = if doc.get("case").is_some() { doc["case"].clone() } else { doc };
    let base = pool::default_scratch_base();
    let cfg = PoolCfg { workers: 1, timeout: Duration::from_secs(300), scratch: base.join("case"), deadline: None };
    let res = pool::run_jobs(&cfg, &[0], |_| driver::exec_case_inline(&Btsim, &case));
    pool::cleanup(&base);
    for (_, st) in res {
        print_outcome(st, true);
    }
    0
}

/// `btsim min <profile> <seed> <run> [class-substring] [tier]` — triage aid: run one seeded case,
/// pick its first violation whose signature string contains the substring, minimise it
/// in-process (same greedy loop as the driver, larger budget) and print the minimal case.
fn cmd_min(args: &[String]) -> i32 {
    if args.len() < 3 {
        eprintln!("usage: btsim min <profile|property> <seed> <run> [sig-substring] [tier]");
        return 2;
    }
    let profile = full_profile(&args[0]);
    let seed: u64 = args[1].parse().unwrap_or(1);
    let run: u64 = args[2].parse().unwrap_or(0);
    let want = args.get(3).cloned().unwrap_or_default();
    let tier = Tier::parse(args.get(4).map(|s| s.as_str()).unwrap_or("quick"));
    let o = Btsim.run_seeded(&profile, seed, run, tier);
    let v = match o.violations.iter().find(|v| v.sig_string().contains(&want)) {
        Some(v) => v.clone(),
        None => {
            println!("no violation matching {:?}; run has: {:?}", want, o.violations.iter().map(|v| v.sig_string()).collect::<Vec<_>>());
            return 0;
        }
    };
    let class = v.class();
    let mut cur = v;
    let mut execs = 0usize;
    'outer: loop {
        for cand in Btsim.shrink(&cur.case) {
            execs += 1;
            if execs > 60000 {
                break 'outer;
            }
            let o = Btsim.run_case(&cand);
            if let Some(nv) = o.violations.into_iter().find(|x| x.class() == class) {
                cur = nv;
                continue 'outer;
            }
        }
        break;
    }
    if let Some(dir) = arg_value(args, "--out") {
        let path = driver::write_replay(std::path::Path::new(&dir), "btsim", &cur);
        println!("replay file: {}", path.display());
    }
    println!("minimised after {} executions", execs);
    println!("sig: {}", cur.sig_string());
    println!("detail: {}", cur.detail);
    println!("case: {}", serde_json::to_string(&cur.case).unwrap_or_default());
    0
}

/// `btsim kfcheck <findings.json> <profile> <n> [seed] [tier]` — triage aid: which violation
/// signatures of n seeded runs are NOT matched by the (proposed) known-findings file.
fn cmd_kfcheck(args: &[String]) -> i32 {
    if args.len() < 3 {
        eprintln!("usage: btsim kfcheck <findings.json> <profile|property> <n> [seed] [tier]");
        return 2;
    }
    let known = match simcore::findings::load(std::path::Path::new(&args[0])) {
        Ok(k) => k,
        Err(e) => {
            eprintln!("{}", e);
            return 2;
        }
    };
    let profile = full_profile(&args[1]);
    let own = profile.split('@').nth(1).unwrap_or("").to_string();
    let n: u64 = args[2].parse().unwrap_or(100);
    let seed: u64 = args.get(3).and_then(|s| s.parse().ok()).unwrap_or(1);
    let tier = Tier::parse(args.get(4).map(|s| s.as_str()).unwrap_or("quick"));
    let base = pool::default_scratch_base();
    let cfg = PoolCfg { workers: workers(), timeout: Duration::from_secs(120), scratch: base.join("kf"), deadline: None };
    let jobs: Vec<u64> = (0..n).collect();
    let res = pool::run_jobs(&cfg, &jobs, |j| Btsim.run_seeded(&profile, seed, j, tier));
    pool::cleanup(&base);
    let mut hits: std::collections::BTreeMap<String, u64> = Default::default();
    let mut miss: std::collections::BTreeMap<String, (u64, u64)> = Default::default();
    for (j, st) in res {
        if let JobStatus::Done(o) = st {
            for v in o.violations.iter().filter(|v| v.property == own) {
                match simcore::findings::find_match(&known, v) {
                    Some(f) => *hits.entry(f.id.clone()).or_insert(0) += 1,
                    None => {
                        let e = miss.entry(v.sig_string()).or_insert((0, j));
                        e.0 += 1;
                    }
                }
            }
        }
    }
    println!("matched: {:?}", hits);
    println!("unmatched signatures: {}", miss.len());
    for (s, (c, j)) in miss {
        println!("{:5}x run{} {}", c, j, s);
    }
    0
}

/// `btsim selfcheck determinism <profile> <n> [seed]`: every seed twice, at two worker counts and
/// with differently padded environments.
fn cmd_selfcheck(args: &[String]) -> i32 {
    if args.len() < 3 || args[0] != "determinism" {
        eprintln!("usage: btsim selfcheck determinism <profile|property> <n> [seed]");
        return 2;
    }
    let profile = full_profile(&args[1]);
    let n: u64 = args[2].parse().unwrap_or(64);
    let seed: u64 = args.get(3).and_then(|s| s.parse().ok()).unwrap_or(1);
    let base = pool::default_scratch_base();
    let jobs: Vec<u64> = (0..n).collect();
    let mut hashes: Vec<Vec<(u64, String)>> = vec![];
    for (round, w) in [(0, 4usize), (1, 16usize)] {
        let cfg = PoolCfg { workers: w, timeout: Duration::from_secs(120), scratch: base.join(format!("det{}", round)), deadline: None };
        if round == 1 {
            std::env::set_var("VSIM_PAD", "x".repeat(777));
        }
        let res = pool::run_jobs(&cfg, &jobs, |j| Btsim.run_seeded(&profile, seed, j, Tier::Quick));
        hashes.push(
            res.into_iter()
                .map(|(j, st)| match st {
                    JobStatus::Done(o) => {
                        let sigs: Vec<String> = o.violations.iter().map(|v| v.sig_string()).collect();
                        let cnt = simcore::rng::fnv1a(format!("{:?}", o.counters).as_bytes());
                        (j, format!("{:016x}/{:016x}/{}v/{:?}/{:?}", o.events_hash, cnt, o.violations.len(), sigs, o.harness_error))
                    }
                    other => (j, format!("{:?}", other).chars().take(60).collect()),
                })
                .collect(),
        );
    }
    pool::cleanup(&base);
    let mut bad = 0;
    for (a, b) in hashes[0].iter().zip(hashes[1].iter()) {
        if a != b {
            println!("DIVERGED run {}: {} vs {}", a.0, a.1, b.1);
            bad += 1;
        }
    }
    println!("determinism: profile {} seed {}: {} seed pairs, {} diverged", profile, seed, n, bad);
    if bad > 0 {
        1
    } else {
        0
    }
}

/// `btsim survey <profile> <n> [seed] [tier]`: signature histogram over n seeded runs (triage aid).
fn cmd_survey(args: &[String]) -> i32 {
    if args.len() < 2 {
        eprintln!("usage: btsim survey <profile|property> <n> [seed] [tier]");
        return 2;
    }
    let profile = full_profile(&args[0]);
    let n: u64 = args[1].parse().unwrap_or(100);
    let seed: u64 = args.get(2).and_then(|s| s.parse().ok()).unwrap_or(1);
    let tier = Tier::parse(args.get(3).map(|s| s.as_str()).unwrap_or("quick"));
    let base = pool::default_scratch_base();
    let cfg = PoolCfg { workers: workers(), timeout: Duration::from_secs(120), scratch: base.join("survey"), deadline: None };
    let jobs: Vec<u64> = (0..n).collect();
    let t0 = std::time::Instant::now();
    let res = pool::run_jobs(&cfg, &jobs, |j| Btsim.run_seeded(&profile, seed, j, tier));
    pool::cleanup(&base);
    let mut hist: std::collections::BTreeMap<String, (u64, u64, String)> = Default::default();
    let mut counters: std::collections::BTreeMap<String, u64> = Default::default();
    let mut clean = 0;
    let mut steps = 0u64;
    let mut nontrivial = 0u64;
    for (j, st) in res {
        match st {
            JobStatus::Done(o) => {
                steps += o.counters.get("steps").copied().unwrap_or(0);
                for (k, v) in &o.counters {
                    *counters.entry(k.clone()).or_insert(0) += v;
                }
                if o.nontrivial {
                    nontrivial += 1;
                }
                if let Some(e) = &o.harness_error {
                    let e2 = hist.entry(format!("HARNESS {}", e)).or_insert((0, j, String::new()));
                    e2.0 += 1;
                }
                if o.violations.is_empty() {
                    clean += 1;
                }
                let mut seen = std::collections::BTreeSet::new();
                for v in &o.violations {
                    if seen.insert(v.sig_string()) {
                        let e = hist.entry(v.sig_string()).or_insert((0, j, v.detail.clone()));
                        e.0 += 1;
                    }
                }
            }
            other => {
                let e = hist.entry(format!("{:?}", other).chars().take(300).collect()).or_insert((0, j, String::new()));
                e.0 += 1;
            }
        }
    }
    let mut v: Vec<_> = hist.into_iter().collect();
    v.sort_by_key(|(_, (c, _, _))| std::cmp::Reverse(*c));
    println!("{} runs, {} clean, {} nontrivial, {} steps, {:.1}s", n, clean, nontrivial, steps, t0.elapsed().as_secs_f64());
    println!("counters: {:?}", counters);
    for (sig, (c, j, d)) in v {
        let d: String = d.chars().take(700).collect();
        println!("{:5}x run{} {}\n        {}", c, j, sig, d.replace('\n', "\n        "));
    }
    0
}

fn main() {
    let args: Vec<String> = std::env::args().collect();
    simcore::noaslr::ensure();
    let code = match args.get(1).map(|s| s.as_str()) {
        Some("check") => cmd_check(&args[2..]),
        Some("replay") => cmd_replay(&args[2..]),
        Some("run1") => cmd_run1(&args[2..]),
        Some("gen") => cmd_gen(&args[2..]),
        Some("case") => cmd_case(&args[2..]),
        Some("min") => cmd_min(&args[2..]),
        Some("kfcheck") => cmd_kfcheck(&args[2..]),
        Some("selfcheck") => cmd_selfcheck(&args[2..]),
        Some("survey") => cmd_survey(&args[2..]),
        Some("list") => {
            for p in PROPS {
                println!("{} btsim {}", p.id, p.profile);
            }
            0
        }
        _ => {
            eprintln!("usage: btsim check|replay|run1|gen|case|selfcheck|survey|list ...");
            2
        }
    };
    std::process::exit(code);
}
