fn main() { eprintln!("placeholder"); std::process::exit(2); }
