//! Freelist cases (C34): release / allocate histories on the real `turdb::storage::Freelist`
//! over `SimStorage`, against a set model.

use crate::guard::{guarded, normalise_err};
use crate::storage::SimStorage;
use serde::{Deserialize, Serialize};
use simcore::rng::{fnv1a, mix};
use simcore::{Rng, RunOutcome, Tier, Violation};
use std::collections::{BTreeMap, BTreeSet};
use turdb::storage::{Freelist, TRUNK_MAX_ENTRIES};

fn one() -> u32 {
    1
}
fn is_one(v: &u32) -> bool {
    *v == 1
}

#[derive(Serialize, Deserialize, Clone, Debug, PartialEq)]
#[serde(tag = "op", rename_all = "snake_case")]
pub enum FlOp {
    /// Release pages `from, from+step, ...` (`n` of them); pages that are not currently in use
    /// (already free, page 0, out of range) are skipped.
    Rel {
        from: u32,
        n: u32,
        #[serde(default = "one", skip_serializing_if = "is_one")]
        step: u32,
    },
    /// `n` allocations.
    Alloc { n: u32 },
    /// Re-create the `Freelist` object from its persisted head page and count.
    Reopen,
}

#[derive(Serialize, Deserialize, Clone, Debug)]
pub struct FlCase {
    pub engine: String,
    pub kind: String,
    /// Pages in the file (page 0 is the file header and never released).
    pub pages: u32,
    pub ops: Vec<FlOp>,
}

struct FlRun<'c> {
    case: &'c FlCase,
    st: SimStorage,
    fl: Freelist,
    free: BTreeSet<u32>,
    /// pages handed out by `allocate` and not released since
    handed: BTreeSet<u32>,
    out: RunOutcome,
    ev: u64,
    sample: Vec<String>,
    stop: bool,
    count_check: bool,
    last_kind: &'static str,
    trunks_seen: BTreeSet<u32>,
    reopened: bool,
}

impl<'c> FlRun<'c> {
    fn event(&mut self, s: String) {
        self.ev = mix(self.ev, fnv1a(s.as_bytes()));
        if self.sample.len() < 40 {
            self.sample.push(s);
        }
    }

    fn case_upto(&self, idx: usize) -> serde_json::Value {
        let upto = (idx + 1).min(self.case.ops.len());
        serde_json::to_value(FlCase { engine: "btsim".into(), kind: "freelist".into(), pages: self.case.pages, ops: self.case.ops[..upto].to_vec() })
            .unwrap_or(serde_json::Value::Null)
    }

    fn violate(&mut self, verdict: &str, idx: usize, extra: &[(&str, String)], detail: String) {
        let mut sig = BTreeMap::new();
        sig.insert("after".to_string(), self.last_kind.to_string());
        sig.insert("head_zero_nonempty".to_string(), if self.fl.head_page() == 0 && self.fl.free_count() > 0 { "yes" } else { "no" }.to_string());
        for (k, v) in extra {
            sig.insert(k.to_string(), v.clone());
        }
        self.out.count(&format!("viol.C34:{}", verdict), 1);
        if self.out.violations.iter().any(|v| v.verdict == verdict) || self.out.violations.len() >= 6 {
            return;
        }
        let detail = format!(
            "step {} {:?}: {}\nfreelist: head_page={} free_count={}; model: {} free pages, {} handed out; reopened: {}; trunk pages seen {:?}",
            idx,
            self.case.ops.get(idx),
            detail,
            self.fl.head_page(),
            self.fl.free_count(),
            self.free.len(),
            self.handed.len(),
            self.reopened,
            self.trunks_seen
        );
        self.out.violations.push(Violation { property: "C34".into(), verdict: verdict.into(), sig, detail, case: self.case_upto(idx) });
    }

    fn check_count(&mut self, idx: usize) {
        if !self.count_check || self.stop {
            return;
        }
        let fc = self.fl.free_count() as usize;
        if fc != self.free.len() {
            let d = format!("free_count() reports {} but {} pages have been released and not handed out again", fc, self.free.len());
            let dir = if fc < self.free.len() { "under" } else { "over" };
            self.violate("free-count-mismatch", idx, &[("dir", dir.to_string())], d);
            // reported once; the other oracles go on
            self.count_check = false;
        }
    }

    fn note_head(&mut self) {
        let h = self.fl.head_page();
        if h != 0 && self.trunks_seen.insert(h) {
            self.out.count("probe.trunk_pages_used", 1);
        }
    }

    fn release(&mut self, idx: usize, p: u32) {
        if p == 0 || p >= self.case.pages || self.free.contains(&p) {
            self.out.count("release_skipped", 1);
            return;
        }
        self.last_kind = "release";
        let (fl, st) = (&mut self.fl, &mut self.st);
        let r = guarded(move || fl.release(st, p));
        self.out.count("op.release", 1);
        match r {
            Ok(Ok(())) => {
                self.free.insert(p);
                self.handed.remove(&p);
                self.note_head();
                self.check_count(idx);
            }
            Ok(Err(e)) => {
                self.violate("release-error", idx, &[("err", normalise_err(&e.to_string()))], format!("release({}) failed: {}", p, e));
                self.stop = true;
            }
            Err((site, msg)) => {
                self.violate("panic", idx, &[("site", site.clone())], format!("release({}) panicked at {}: {}", p, site, msg));
                self.stop = true;
            }
        }
    }

    /// One allocation; returns whether a page was handed out.
    fn allocate(&mut self, idx: usize, draining: bool) -> Option<bool> {
        self.last_kind = if draining { "drain" } else { "alloc" };
        let fc_before = self.fl.free_count();
        let (fl, st) = (&mut self.fl, &mut self.st);
        let r = guarded(move || fl.allocate(st));
        self.out.count("op.allocate", 1);
        match r {
            Ok(Ok(Some(p))) => {
                self.out.count("allocated", 1);
                if self.handed.contains(&p) {
                    self.violate("double-allocation", idx, &[], format!("allocate() returned page {} which is still allocated (handed out earlier, not released since)", p));
                    self.stop = true;
                } else if !self.free.contains(&p) {
                    let why = if p == 0 {
                        "page 0 (the file header)"
                    } else if p >= self.case.pages {
                        "a page beyond the end of the file"
                    } else {
                        "a page that was never released"
                    };
                    self.violate("allocated-not-free", idx, &[], format!("allocate() returned page {}: {}", p, why));
                    self.stop = true;
                } else {
                    self.free.remove(&p);
                    self.handed.insert(p);
                    self.note_head();
                    self.check_count(idx);
                }
                Some(true)
            }
            Ok(Ok(None)) => {
                self.out.count("allocate_none", 1);
                if !draining && fc_before > 0 {
                    let d = format!(
                        "allocate() returned None although free_count() was {} before the call ({} pages are free in the model)",
                        fc_before,
                        self.free.len()
                    );
                    self.violate("alloc-none-while-free", idx, &[], d);
                }
                self.check_count(idx);
                Some(false)
            }
            Ok(Err(e)) => {
                self.violate("alloc-error", idx, &[("err", normalise_err(&e.to_string()))], format!("allocate() failed: {} (free_count()={} before the call)", e, fc_before));
                self.stop = true;
                None
            }
            Err((site, msg)) => {
                self.violate("panic", idx, &[("site", site.clone())], format!("allocate() panicked at {}: {}", site, msg));
                self.stop = true;
                None
            }
        }
    }
}

pub fn run_fl_case(case: &FlCase) -> RunOutcome {
    let mut st = SimStorage::new(case.pages.max(1));
    if let Some(p0) = st.raw_mut(0) {
        p0[..16].copy_from_slice(b"TurDB Table\x00\x00\x00\x00\x00");
        p0[16..20].copy_from_slice(&1u32.to_le_bytes());
        p0[20..24].copy_from_slice(&16384u32.to_le_bytes());
    }
    let page0: Vec<u8> = st.raw(0).map(|p| p.to_vec()).unwrap_or_default();
    let mut run = FlRun {
        case,
        st,
        fl: Freelist::new(),
        free: BTreeSet::new(),
        handed: BTreeSet::new(),
        out: RunOutcome::default(),
        ev: 0,
        sample: vec![],
        stop: false,
        count_check: true,
        last_kind: "start",
        trunks_seen: BTreeSet::new(),
        reopened: false,
    };
    let mut executed = 0usize;
    for (i, op) in case.ops.iter().enumerate() {
        if run.stop {
            break;
        }
        executed += 1;
        match op {
            FlOp::Rel { from, n, step } => {
                let step = (*step).max(1);
                for j in 0..*n {
                    if run.stop {
                        break;
                    }
                    let p = from.wrapping_add(j.wrapping_mul(step));
                    run.release(i, p);
                }
            }
            FlOp::Alloc { n } => {
                let mut nones = 0;
                for _ in 0..*n {
                    if run.stop {
                        break;
                    }
                    match run.allocate(i, false) {
                        None => break,
                        Some(false) => {
                            // two consecutive refusals: the rest of this burst would be the same
                            nones += 1;
                            if nones >= 2 {
                                break;
                            }
                        }
                        Some(true) => nones = 0,
                    }
                }
            }
            FlOp::Reopen => {
                run.fl = Freelist::with_head(run.fl.head_page(), run.fl.free_count());
                run.reopened = true;
                run.out.count("op.reopen", 1);
            }
        }
        let _ = run.st.take_dirty();
        let e = format!("{}:{:?}:head{}:fc{}:model{}", i, op, run.fl.head_page(), run.fl.free_count(), run.free.len());
        run.event(e);
    }
    // final drain: the reported free count must be the number of pages allocations return
    if !run.stop && !case.ops.is_empty() {
        let last = case.ops.len() - 1;
        let reported = run.fl.free_count() as usize;
        let model_free = run.free.len();
        let mut got = 0usize;
        let cap = model_free + reported + 8;
        run.out.count("drains", 1);
        for _ in 0..cap {
            match run.allocate(last, true) {
                Some(true) => got += 1,
                _ => break,
            }
            if run.stop {
                break;
            }
        }
        run.out.count("drained_pages", got as u64);
        if !run.stop && got != reported {
            let d = format!(
                "free_count() reported {} before the final drain, but only {} allocations returned a page ({} pages were free in the model; {} never came back)",
                reported,
                got,
                model_free,
                model_free.saturating_sub(got)
            );
            run.last_kind = "drain";
            run.violate("drain-count-mismatch", last, &[("dir", if got < reported { "fewer".into() } else { "more".to_string() })], d);
        }
        let e = format!("drain:reported{}:got{}:model{}", reported, got, model_free);
        run.event(e);
    }
    if let Some(p0) = run.st.raw(0) {
        if p0 != page0.as_slice() {
            run.out.count("probe.page0_overwritten", 1);
        }
    }
    let releases = run.out.counters.get("op.release").copied().unwrap_or(0);
    let allocs = run.out.counters.get("allocated").copied().unwrap_or(0);
    run.out.count("steps", executed as u64);
    run.out.count(&format!("probe.trunks_in_run_{}", run.trunks_seen.len().min(5)), 1);
    run.out.nontrivial = releases >= 1 && allocs >= 1;
    run.out.fingerprint = fnv1a(serde_json::to_string(&case.ops).unwrap_or_default().as_bytes());
    run.out.events_hash = mix(run.ev, mix(run.fl.head_page() as u64, run.fl.free_count() as u64));
    run.out.states = vec![mix(run.trunks_seen.len() as u64, if run.reopened { 1 } else { 0 })];
    run.out.sample = serde_json::json!({
        "kind": "freelist",
        "pages": case.pages,
        "ops": case.ops.len(),
        "releases": releases,
        "allocations": allocs,
        "trunk_pages": run.trunks_seen.len(),
        "first_events": run.sample,
    });
    run.out
}

pub fn gen_fl_case(rng: &mut Rng, tier: Tier) -> FlCase {
    let t = TRUNK_MAX_ENTRIES as u32; // 4090
    // scale of the run: how many trunk pages it is going to need
    let scale = match rng.below(10) {
        0..=2 => 0, // small: a few pages, one trunk
        3 | 4 => 1, // around one trunk boundary
        5..=7 => 3, // three trunks and beyond
        _ => {
            if tier == Tier::Thorough {
                5
            } else {
                4
            }
        }
    };
    let pages: u32 = match scale {
        0 => 8 + rng.below(60) as u32,
        1 => t + 20 + rng.below(200) as u32,
        s => (s as u32) * (t + 1) + 50 + rng.below(2000) as u32,
    };
    let mut ops = vec![];
    let mut in_use: u32 = pages - 1; // model-free estimate only steers the generator
    let mut free_est: u32 = 0;
    let n_phases = 3 + rng.usize_below(if tier == Tier::Thorough { 24 } else { 12 });
    for ph in 0..n_phases {
        match rng.below(10) {
            0..=4 => {
                // release a run of pages
                let n = match rng.below(4) {
                    0 => 1 + rng.below(4) as u32,
                    1 => 1 + rng.below(40) as u32,
                    2 => {
                        // land exactly on / next to a trunk boundary
                        let target = t + 1;
                        let k = 1 + rng.below(3) as u32;
                        (k * target).saturating_sub(free_est % target).saturating_add(rng.below(3) as u32).saturating_sub(1).max(1)
                    }
                    _ => 1 + rng.below(pages as u64) as u32,
                };
                let from = 1 + rng.below(pages as u64 - 1) as u32;
                let step = if rng.chance(1, 4) { 1 + rng.below(7) as u32 } else { 1 };
                let n = if ph == 0 && scale >= 3 { pages - 1 } else { n.min(pages) };
                let from = if ph == 0 && scale >= 3 { 1 } else { from };
                ops.push(FlOp::Rel { from, n, step });
                free_est = (free_est + n).min(pages - 1);
                in_use = in_use.saturating_sub(n);
            }
            5..=7 => {
                let n = match rng.below(4) {
                    0 => 1,
                    1 => 1 + rng.below(20) as u32,
                    2 => free_est.saturating_add(rng.below(3) as u32).saturating_sub(1),
                    _ => 1 + rng.below(free_est as u64 + 2) as u32,
                };
                ops.push(FlOp::Alloc { n });
                free_est = free_est.saturating_sub(n);
                in_use += n;
            }
            8 => ops.push(FlOp::Reopen),
            _ => {
                // interleave single releases and allocations
                let k = 2 + rng.below(30);
                for _ in 0..k {
                    if rng.chance(1, 2) {
                        ops.push(FlOp::Rel { from: 1 + rng.below(pages as u64 - 1) as u32, n: 1, step: 1 });
                        free_est = (free_est + 1).min(pages - 1);
                    } else {
                        ops.push(FlOp::Alloc { n: 1 });
                        free_est = free_est.saturating_sub(1);
                    }
                }
            }
        }
    }
    let _ = in_use;
    FlCase { engine: "btsim".into(), kind: "freelist".into(), pages, ops }
}

pub fn shrink_fl(case: &FlCase) -> Vec<serde_json::Value> {
    let mut out = vec![];
    let mk = |pages: u32, ops: Vec<FlOp>| serde_json::to_value(FlCase { engine: "btsim".into(), kind: "freelist".into(), pages, ops }).unwrap_or(serde_json::Value::Null);
    let n = case.ops.len();
    if n > 1 {
        for keep in simcore::driver::ddmin_keepsets(n) {
            if keep.is_empty() {
                continue;
            }
            out.push(mk(case.pages, keep.iter().map(|i| case.ops[*i].clone()).collect()));
        }
    }
    for i in 0..n {
        let simpler: Vec<FlOp> = match &case.ops[i] {
            FlOp::Rel { from, n, step } => {
                let mut v = vec![];
                if *n > 1 {
                    v.push(FlOp::Rel { from: *from, n: 1, step: *step });
                    v.push(FlOp::Rel { from: *from, n: n / 2, step: *step });
                    v.push(FlOp::Rel { from: *from, n: n - 1, step: *step });
                }
                if *step > 1 {
                    v.push(FlOp::Rel { from: *from, n: *n, step: 1 });
                }
                if *from > 1 {
                    v.push(FlOp::Rel { from: 1, n: *n, step: *step });
                }
                v
            }
            FlOp::Alloc { n } => {
                let mut v = vec![];
                if *n > 1 {
                    v.push(FlOp::Alloc { n: 1 });
                    v.push(FlOp::Alloc { n: n / 2 });
                    v.push(FlOp::Alloc { n: n - 1 });
                }
                v
            }
            FlOp::Reopen => vec![],
        };
        for s in simpler {
            let mut ops = case.ops.clone();
            ops[i] = s;
            out.push(mk(case.pages, ops));
        }
    }
    // smaller file
    let need: u32 = case
        .ops
        .iter()
        .map(|o| match o {
            FlOp::Rel { from, n, step } => from.saturating_add(n.saturating_sub(1).saturating_mul(*step)).saturating_add(1),
            _ => 2,
        })
        .max()
        .unwrap_or(2);
    for p in [2u32, 4, 8, need.min(case.pages), case.pages / 2] {
        if p >= 2 && p < case.pages {
            out.push(mk(p, case.ops.clone()));
        }
    }
    out
}
