//! `simcore::driver::Engine` for the B-tree / freelist simulations.

use crate::btcase::{run_bt_case, shrink_bt, BtCase};
use crate::btgen::gen_bt_case;
use crate::flcase::{gen_fl_case, run_fl_case, shrink_fl, FlCase};
use crate::guard::install_panic_hook;
use serde_json::{json, Value};
use simcore::driver::Engine;
use simcore::rng::mix;
use simcore::{Rng, RunOutcome, Tier};

pub struct Btsim;

/// The explicit case a seeded run executes (also used by `btsim gen`).
pub fn seeded_case(profile: &str, seed: u64, run: u64, tier: Tier) -> Value {
    let base = profile.split('@').next().unwrap_or(profile);
    let prop = profile.split('@').nth(1).unwrap_or("");
    let mut rng = Rng::new(mix(seed, run)).fork(base);
    match base {
        "fl" => serde_json::to_value(gen_fl_case(&mut rng, tier)).unwrap_or(Value::Null),
        _ => {
            let cont = prop == "C29";
            serde_json::to_value(gen_bt_case(&mut rng, tier, cont)).unwrap_or(Value::Null)
        }
    }
}

impl Engine for Btsim {
    fn name(&self) -> &'static str {
        "btsim"
    }

    fn run_seeded(&self, profile: &str, seed: u64, run: u64, tier: Tier) -> RunOutcome {
        let case = seeded_case(profile, seed, run, tier);
        self.run_case(&case)
    }

    fn run_case(&self, case: &Value) -> RunOutcome {
        install_panic_hook();
        match case["kind"].as_str() {
            Some("btree") => match serde_json::from_value::<BtCase>(case.clone()) {
                Ok(c) => run_bt_case(&c),
                Err(e) => RunOutcome { harness_error: Some(format!("bad btree case: {}", e)), ..Default::default() },
            },
            Some("freelist") => match serde_json::from_value::<FlCase>(case.clone()) {
                Ok(c) => run_fl_case(&c),
                Err(e) => RunOutcome { harness_error: Some(format!("bad freelist case: {}", e)), ..Default::default() },
            },
            other => RunOutcome { harness_error: Some(format!("unknown case kind {:?}", other)), ..Default::default() },
        }
    }

    fn shrink(&self, case: &Value) -> Vec<Value> {
        match case["kind"].as_str() {
            Some("btree") => serde_json::from_value::<BtCase>(case.clone()).map(|c| shrink_bt(&c)).unwrap_or_default(),
            Some("freelist") => serde_json::from_value::<FlCase>(case.clone()).map(|c| shrink_fl(&c)).unwrap_or_default(),
            _ => vec![],
        }
    }

    fn rule(&self, profile: &str) -> String {
        if profile.starts_with("fl") {
            "one evaluation = one seeded release/allocate/reopen history on turdb::storage::Freelist over SimStorage, every release and allocation compared with a set model, ended by a full drain; non-trivial = at least one release and one successful allocation; distinct = distinct operation lists (hash of the explicit case); states = (trunk pages used, reopened)".into()
        } else {
            "one evaluation = one seeded operation history (insert / insert_if_not_exists / insert_append / update / delete / get / cursor scans) on turdb::btree::BTree<SimStorage>, tree object re-created from the persisted root (and optionally persisted rightmost hint) for every operation, every result compared with a BTreeMap, an independent page walker run after every step, full forward/backward/seek enumeration compared at scan steps and at the end; non-trivial = at least 20 mutating operations executed and at least one leaf split; distinct = distinct operation lists (hash of the explicit case); states = distinct (depth, leaf-count bucket, interior bucket, empty-leaf bucket, hint present) seen at scan steps".into()
        }
    }

    fn real_vs_stub(&self) -> Value {
        json!({
            "real": [
                "turdb::btree::BTree / Cursor / LeafNode / InteriorNode / simd_scan (src/btree/*, unchanged sources built through the shadow manifest)",
                "turdb::storage::Freelist (src/storage/freelist.rs)",
                "turdb::encoding::varint"
            ],
            "simulated": [
                "Storage: SimStorage, a vector of 16 KiB pages in memory instead of MmapStorage (no file, no WAL wrapper); grow never fails",
                "the database layer that persists root page / rightmost hint / freelist head between statements is mimicked by the harness (tree object re-created per operation)"
            ],
            "oracle": [
                "std::collections::BTreeMap (C28), BTreeSet of free pages (C34)",
                "independent page walker written from the documented page layout (C29), no TurDB accessor used"
            ]
        })
    }

    fn assumptions(&self, profile: &str) -> Vec<String> {
        if profile.starts_with("fl") {
            vec![
                "page 0 holds a file header (as in every TurDB file) and is never released; releasing a page that is already free (caller misuse) is not generated".into(),
                "single-threaded use; no I/O faults (the property has no fault dimension)".into(),
            ]
        } else {
            vec![
                "insert of an existing key is expected to be rejected with the tree unchanged (TurDB's documented contract), not to overwrite".into(),
                "insert_append is only issued when its documented precondition (key greater than every stored key) holds".into(),
                "update may decline (Ok(false)) a growing value that does not fit its leaf; the model then keeps the old value".into(),
                "cells are at most half a page (8180 bytes including the slot) except in the runs counted under runs_with_cells_over_half_page, whose violations carry cells=gt-half-page".into(),
                "after an operation that returned an error or panicked the run stops: neither property says what must hold after a failed operation".into(),
                "single-threaded use; grow never fails (no fault dimension in these properties)".into(),
            ]
        }
    }
}
