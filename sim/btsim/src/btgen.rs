//! Seeded generator of B-tree histories (swarm style: every run draws which key styles, value
//! sizes, operation mixes, hint usage and phases are enabled). Pure function of the `Rng`.

use crate::btcase::{cell_size, BtCase, Op, CELL_HALF_PAGE};
use crate::bytespec::B;
use simcore::{Rng, Tier};
use std::collections::BTreeMap;

#[derive(Clone, Copy, PartialEq, Eq, Debug)]
enum KS {
    Rand,
    Asc,
    Desc,
    Pfx,
    Tiny,
    BigK,
}

impl KS {
    fn name(self) -> &'static str {
        match self {
            KS::Rand => "rand",
            KS::Asc => "asc",
            KS::Desc => "desc",
            KS::Pfx => "pfx",
            KS::Tiny => "tiny",
            KS::BigK => "bigk",
        }
    }
}

const STYLES: [KS; 6] = [KS::Rand, KS::Asc, KS::Desc, KS::Pfx, KS::Tiny, KS::BigK];

struct Cfg {
    key_w: [u32; 6],
    /// small (0..40), mid (100..1500), big (cells of a quarter to half a page)
    val_w: [u32; 3],
    big_cell: (usize, usize),
    huge_pm: u64,
    hint_pct: u64,
    uniq_pct: u64,
    append_pct: u64,
    dup_pct: u64,
    cadence: usize,
    seeks: u32,
    prefixes: Vec<Vec<u8>>,
    sfx_len: (usize, usize),
    sfx_alpha: u64,
    bigk_len: (usize, usize),
    bigk_head: Option<Vec<u8>>,
    asc_stride: u64,
    n_ops: usize,
    /// weights of insert, update, delete, get, seek in mixed phases
    mix_w: [u32; 5],
}

struct Gen<'r> {
    rng: &'r mut Rng,
    cfg: Cfg,
    keys: BTreeMap<Vec<u8>, (B, KS)>,
    ops: Vec<Op>,
    asc_next: u64,
    desc_next: u64,
    since_scan: usize,
}

impl<'r> Gen<'r> {
    fn seed(&mut self) -> u64 {
        self.rng.next_u64() | 1
    }

    fn pick_style(&mut self) -> KS {
        STYLES[self.rng.weighted(&self.cfg.key_w)]
    }

    fn new_key(&mut self, ks: KS) -> B {
        match ks {
            KS::Rand => {
                let n = if self.rng.chance(1, 2) { self.rng.range(1, 8) } else { self.rng.range(1, 64) } as usize;
                let mut b = vec![0u8; n];
                self.rng.fill_bytes(&mut b);
                B::lit(&b)
            }
            KS::Asc => {
                let v = self.asc_next;
                self.asc_next = self.asc_next.wrapping_add(1 + self.rng.below(self.cfg.asc_stride));
                B::lit(&v.to_be_bytes())
            }
            KS::Desc => {
                let v = self.desc_next;
                self.desc_next = self.desc_next.wrapping_sub(1 + self.rng.below(self.cfg.asc_stride));
                B::lit(&v.to_be_bytes())
            }
            KS::Pfx => {
                let p = self.rng.pick(&self.cfg.prefixes).clone();
                let n = self.rng.range(self.cfg.sfx_len.0 as i64, self.cfg.sfx_len.1 as i64) as usize;
                let mut b = p;
                for _ in 0..n {
                    let a = self.rng.below(self.cfg.sfx_alpha);
                    // spread the alphabet over the byte range, keep 0x00 and 0xff in it
                    let byte = if self.cfg.sfx_alpha >= 256 {
                        a as u8
                    } else if a == 0 {
                        0
                    } else if a + 1 == self.cfg.sfx_alpha {
                        0xff
                    } else {
                        (a * 255 / self.cfg.sfx_alpha) as u8
                    };
                    b.push(byte);
                }
                B::lit(&b)
            }
            KS::Tiny => {
                let n = if self.rng.chance(1, 12) { 0 } else { self.rng.range(1, 3) } as usize;
                let alpha = [0x00u8, 0x01, 0x61, 0x62, 0x7f, 0x80, 0xff];
                let b: Vec<u8> = (0..n).map(|_| *self.rng.pick(&alpha)).collect();
                B::lit(&b)
            }
            KS::BigK => {
                let n = self.rng.range(self.cfg.bigk_len.0 as i64, self.cfg.bigk_len.1 as i64) as usize;
                let mut head = self.cfg.bigk_head.clone().unwrap_or_default();
                let extra = 8usize.saturating_sub(head.len()).max(2);
                for _ in 0..extra {
                    head.push(self.rng.below(256) as u8);
                }
                let s = if self.rng.chance(1, 4) { 0 } else { self.seed() };
                B::gen(&head, s, n)
            }
        }
    }

    /// Value spec for a key of `klen` bytes; respects the half-page cell bound unless this
    /// insert was drawn as a "huge" one.
    fn new_val(&mut self, klen: usize) -> B {
        let huge = self.cfg.huge_pm > 0 && self.rng.chance(self.cfg.huge_pm, 1000);
        let limit_cell = if huge { 16360 } else { CELL_HALF_PAGE };
        let max_v = limit_cell.saturating_sub(klen + 3 + 8);
        let n = if huge {
            let lo = CELL_HALF_PAGE.saturating_sub(klen + 11).min(max_v);
            self.rng.range(lo as i64, max_v as i64) as usize
        } else {
            match self.rng.weighted(&self.cfg.val_w) {
                0 => self.rng.range(0, 40) as usize,
                1 => {
                    // around the varint boundaries 240/241 and 2287/2288 now and then
                    if self.rng.chance(1, 6) {
                        *self.rng.pick(&[239usize, 240, 241, 242, 2286, 2287, 2288, 2289])
                    } else {
                        self.rng.range(100, 1500) as usize
                    }
                }
                _ => {
                    let (lo, hi) = self.cfg.big_cell;
                    let cell = self.rng.range(lo as i64, hi as i64) as usize;
                    cell.saturating_sub(klen + 11)
                }
            }
        };
        let n = n.min(max_v);
        debug_assert!(huge || cell_size(klen, n) <= CELL_HALF_PAGE);
        let s = if self.rng.chance(1, 8) { 0 } else { self.seed() };
        B { p: String::new(), s, n: n as u32 }
    }

    fn pick_existing(&mut self) -> Option<(Vec<u8>, B, KS)> {
        if self.keys.is_empty() {
            return None;
        }
        let i = self.rng.usize_below(self.keys.len());
        self.keys.iter().nth(i).map(|(k, (b, ks))| (k.clone(), b.clone(), *ks))
    }

    /// A key that is probably absent, close to an existing one.
    fn neighbour(&mut self) -> (B, KS) {
        match self.pick_existing() {
            Some((k, _, ks)) => {
                let mut k = k;
                match self.rng.below(4) {
                    0 => k.push(0),
                    1 => {
                        k.pop();
                    }
                    2 => {
                        if let Some(l) = k.last_mut() {
                            *l = l.wrapping_add(1);
                        }
                    }
                    _ => {
                        if let Some(l) = k.last_mut() {
                            *l = l.wrapping_sub(1);
                        }
                    }
                }
                if k.len() > 64 {
                    // keep big keys compact in the case file: head literal + same tail is not
                    // expressible, so use a fresh key of the same style instead
                    let b = self.new_key(ks);
                    (b, ks)
                } else {
                    (B::lit(&k), ks)
                }
            }
            None => {
                let ks = self.pick_style();
                (self.new_key(ks), ks)
            }
        }
    }

    fn emit(&mut self, op: Op) {
        self.ops.push(op);
        self.since_scan += 1;
        if self.since_scan >= self.cfg.cadence {
            self.scan();
        }
    }

    fn scan(&mut self) {
        let s = self.rng.next_u64();
        self.ops.push(Op::Scan { s, q: self.cfg.seeks });
        self.since_scan = 0;
    }

    fn insert_of(&mut self, k: B, ks: KS, v: B) {
        let kb = k.bytes();
        let is_max = self.keys.keys().next_back().map(|m| kb.as_slice() > m.as_slice()).unwrap_or(true);
        let h = self.rng.chance(self.cfg.hint_pct, 100);
        let style = ks.name().to_string();
        let present = self.keys.contains_key(&kb);
        let op = if is_max && !present && self.rng.chance(self.cfg.append_pct, 100) {
            Op::Append { k: k.clone(), v, h, ks: style }
        } else if self.rng.chance(self.cfg.uniq_pct, 100) {
            Op::InsertUnique { k: k.clone(), v, h, ks: style }
        } else {
            Op::Insert { k: k.clone(), v, h, ks: style }
        };
        if !present {
            self.keys.insert(kb, (k, ks));
        }
        self.emit(op);
    }

    fn gen_insert(&mut self) {
        if !self.keys.is_empty() && self.rng.chance(self.cfg.dup_pct, 100) {
            if let Some((kb, b, ks)) = self.pick_existing() {
                let v = self.new_val(kb.len());
                self.insert_of(b, ks, v);
                return;
            }
        }
        let ks = self.pick_style();
        let k = self.new_key(ks);
        let v = self.new_val(k.len());
        self.insert_of(k, ks, v);
    }

    fn gen_update(&mut self) {
        let (k, ks) = if self.rng.chance(85, 100) {
            match self.pick_existing() {
                Some((_, b, ks)) => (b, ks),
                None => self.neighbour(),
            }
        } else {
            self.neighbour()
        };
        let v = self.new_val(k.len());
        self.emit(Op::Update { k, v, ks: ks.name().into() });
    }

    fn gen_delete(&mut self) {
        let (k, ks) = if self.rng.chance(85, 100) {
            match self.pick_existing() {
                Some((_, b, ks)) => (b, ks),
                None => self.neighbour(),
            }
        } else {
            self.neighbour()
        };
        self.keys.remove(&k.bytes());
        self.emit(Op::Delete { k, ks: ks.name().into() });
    }

    fn gen_get(&mut self) {
        let (k, ks) = if self.rng.chance(60, 100) {
            match self.pick_existing() {
                Some((_, b, ks)) => (b, ks),
                None => self.neighbour(),
            }
        } else {
            self.neighbour()
        };
        self.emit(Op::Get { k, ks: ks.name().into() });
    }

    fn gen_seek(&mut self) {
        let (k, ks) = if self.rng.chance(40, 100) {
            match self.pick_existing() {
                Some((_, b, ks)) => (b, ks),
                None => self.neighbour(),
            }
        } else {
            self.neighbour()
        };
        self.emit(Op::Seek { k, ks: ks.name().into() });
    }

    fn phase_fill(&mut self, n: usize) {
        for _ in 0..n {
            self.gen_insert();
        }
    }

    fn phase_mixed(&mut self, n: usize) {
        for _ in 0..n {
            match self.rng.weighted(&self.cfg.mix_w) {
                0 => self.gen_insert(),
                1 => self.gen_update(),
                2 => self.gen_delete(),
                3 => self.gen_get(),
                _ => self.gen_seek(),
            }
        }
    }

    fn phase_delete_range(&mut self, n: usize) {
        if self.keys.is_empty() {
            return;
        }
        let start = self.rng.usize_below(self.keys.len());
        let mut victims: Vec<(B, KS)> = self.keys.values().skip(start).take(n).cloned().collect();
        if self.rng.chance(1, 3) {
            victims.reverse();
        }
        for (b, ks) in victims {
            self.keys.remove(&b.bytes());
            self.emit(Op::Delete { k: b, ks: ks.name().into() });
        }
    }

    fn phase_delete_all_reinsert(&mut self) {
        let mut victims: Vec<(B, KS)> = self.keys.values().cloned().collect();
        match self.rng.below(3) {
            0 => {}
            1 => victims.reverse(),
            _ => self.rng.shuffle(&mut victims),
        }
        // sometimes leave a few survivors
        let keep = if self.rng.chance(1, 3) { self.rng.usize_below(4) } else { 0 };
        let cut = victims.len().saturating_sub(keep);
        let gone: Vec<(B, KS)> = victims[..cut].to_vec();
        for (b, ks) in &gone {
            self.keys.remove(&b.bytes());
            self.emit(Op::Delete { k: b.clone(), ks: ks.name().into() });
        }
        self.scan();
        if self.rng.chance(3, 4) {
            let mut back = gone;
            match self.rng.below(3) {
                0 => back.sort_by(|a, b| a.0.bytes().cmp(&b.0.bytes())),
                1 => {
                    back.sort_by(|a, b| a.0.bytes().cmp(&b.0.bytes()));
                    back.reverse();
                }
                _ => self.rng.shuffle(&mut back),
            }
            let m = if self.rng.chance(1, 2) { back.len() } else { self.rng.usize_below(back.len() + 1) };
            for (b, ks) in back.into_iter().take(m) {
                let v = self.new_val(b.len());
                self.insert_of(b, ks, v);
            }
            self.scan();
        }
    }

    fn phase_updates(&mut self, n: usize) {
        for _ in 0..n {
            self.gen_update();
        }
    }

    fn phase_reads(&mut self, n: usize) {
        for _ in 0..n {
            if self.rng.chance(1, 2) {
                self.gen_get()
            } else {
                self.gen_seek()
            }
        }
    }
}

fn draw_cfg(rng: &mut Rng, tier: Tier) -> Cfg {
    // key styles: each enabled with probability 1/3, at least one
    let mut key_w = [0u32; 6];
    for w in key_w.iter_mut() {
        if rng.chance(1, 3) {
            *w = 1 + rng.below(8) as u32;
        }
    }
    if key_w.iter().all(|w| *w == 0) {
        key_w[rng.usize_below(6)] = 1;
    }
    // value sizes
    let val_w: [u32; 3] = match rng.below(6) {
        0 => [1, 0, 0],
        1 => [0, 1, 0],
        2 | 3 => [0, 0, 1],
        4 => [2, 1, 1],
        _ => [1, 1, 4],
    };
    // cells per leaf targeted by "big" values
    let per_leaf = *rng.pick(&[2usize, 2, 3, 3, 4, 6, 10]);
    let hi = (16360 / per_leaf).min(CELL_HALF_PAGE);
    let lo = if rng.chance(1, 2) { hi * 3 / 4 } else { hi / 3 };
    let bigk_len = match rng.below(5) {
        0 => (200, 1000),
        1 => (1000, 2600),
        2 => (2600, 4050),
        3 => (4000, 8100),
        _ => (300, 8100),
    };
    let big = key_w[5] > 0 || val_w[2] > 0;
    let max_ops = match (tier, big) {
        (Tier::Quick, false) => 2000,
        (Tier::Quick, true) => 700,
        (Tier::Thorough, false) => 6000,
        (Tier::Thorough, true) => 1800,
    };
    // log-uniform length between 50 and max_ops
    let lo_l = (50f64).ln();
    let hi_l = (max_ops as f64).ln();
    let u = rng.below(1_000_000) as f64 / 1_000_000.0;
    let n_ops = (lo_l + (hi_l - lo_l) * u).exp() as usize;
    let n_pref = 1 + rng.usize_below(3);
    let prefixes: Vec<Vec<u8>> = (0..n_pref)
        .map(|i| {
            let n = 4 + rng.usize_below(5);
            let mut p = vec![0u8; n];
            rng.fill_bytes(&mut p);
            if i > 0 && rng.chance(1, 2) {
                // make prefixes differ only after the 4th byte
                p[..4].copy_from_slice(&[0x50, 0x46, 0x58, 0x30]);
            }
            if i == 0 && rng.chance(1, 2) {
                p[..4].copy_from_slice(&[0x50, 0x46, 0x58, 0x30]);
            }
            p
        })
        .collect();
    let mix_w = match rng.below(5) {
        0 => [6, 1, 1, 1, 1],
        1 => [3, 3, 3, 1, 1],
        2 => [2, 1, 4, 1, 1],
        3 => [2, 5, 1, 1, 1],
        _ => [3, 2, 2, 2, 2],
    };
    Cfg {
        key_w,
        val_w,
        big_cell: (lo.max(64), hi),
        huge_pm: if rng.chance(1, 12) { 30 + rng.below(150) } else { 0 },
        hint_pct: match rng.below(4) {
            0 => 0,
            1 => 100,
            2 => 50,
            _ => rng.below(101),
        },
        uniq_pct: *rng.pick(&[0u64, 0, 20, 50, 100]),
        append_pct: *rng.pick(&[0u64, 30, 70, 100]),
        dup_pct: *rng.pick(&[0u64, 2, 5, 15]),
        // at most ~40 full comparisons per run (each one is O(entries))
        cadence: (*rng.pick(&[2usize, 5, 10, 30, 100, 300])).max(n_ops / 40),
        seeks: 2 + rng.below(5) as u32,
        prefixes,
        sfx_len: if rng.chance(1, 2) { (0, 3) } else { (1, 8) },
        sfx_alpha: *rng.pick(&[2u64, 3, 4, 16, 256]),
        bigk_len,
        bigk_head: if rng.chance(1, 2) { Some(vec![0x42, 0x49, 0x47, 0x4b]) } else { None },
        asc_stride: *rng.pick(&[1u64, 1, 2, 1000]),
        n_ops,
        mix_w,
    }
}

pub fn gen_bt_case(rng: &mut Rng, tier: Tier, cont: bool) -> BtCase {
    let cfg = draw_cfg(rng, tier);
    let fl = if rng.chance(1, 7) { 1 + rng.below(40) as u32 } else { 0 };
    let asc0 = if rng.chance(1, 2) { 1 } else { 0x0000_0001_0000_0000u64 + rng.below(1 << 20) };
    let desc0 = if rng.chance(1, 2) { 0x0000_0000_ffff_ffffu64 } else { 0xffff_ffff_ffff_fff0u64 };
    let n_ops = cfg.n_ops;
    // phase weights of this run: fill, mixed, delete-range, delete-all+reinsert, updates, reads
    let mut phase_w = [3u32, 3, 0, 0, 0, 0];
    if rng.chance(2, 3) {
        phase_w[2] = 1 + rng.below(3) as u32;
    }
    if rng.chance(1, 2) {
        phase_w[3] = 1;
    }
    if rng.chance(1, 2) {
        phase_w[4] = 1 + rng.below(2) as u32;
    }
    if rng.chance(1, 2) {
        phase_w[5] = 1;
    }
    let mut g = Gen { rng, cfg, keys: BTreeMap::new(), ops: vec![], asc_next: asc0, desc_next: desc0, since_scan: 0 };
    // always start with some content
    let first = 1 + g.rng.usize_below((n_ops / 4).max(2));
    g.phase_fill(first);
    while g.ops.len() < n_ops {
        let left = n_ops - g.ops.len();
        let chunk = 1 + g.rng.usize_below((n_ops / 5).max(4)).min(left);
        match g.rng.weighted(&phase_w) {
            0 => g.phase_fill(chunk),
            1 => g.phase_mixed(chunk),
            2 => {
                let n = 1 + g.rng.usize_below(chunk.max(2));
                g.phase_delete_range(n)
            }
            3 => {
                if g.keys.len() <= left {
                    g.phase_delete_all_reinsert()
                } else {
                    g.phase_mixed(chunk)
                }
            }
            4 => g.phase_updates(chunk),
            _ => g.phase_reads(chunk.min(40)),
        }
    }
    BtCase { engine: "btsim".into(), kind: "btree".into(), cont, fl, ops: g.ops }
}
