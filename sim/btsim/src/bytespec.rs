//! Compact, explicit byte strings for replay files: `{p: hex prefix, s: tail seed, n: length}`.
//! The bytes are `(prefix ++ stream(s))[..n]`; `s == 0` gives a zero tail. Expansion is a pure
//! function of the three fields, so a case file stays explicit without carrying 8 KiB literals.

use serde::{Deserialize, Serialize};
use simcore::Rng;

fn is_zero(v: &u64) -> bool {
    *v == 0
}

#[derive(Serialize, Deserialize, Clone, Debug, PartialEq, Eq, PartialOrd, Ord, Default)]
pub struct B {
    #[serde(default, skip_serializing_if = "String::is_empty")]
    pub p: String,
    #[serde(default, skip_serializing_if = "is_zero")]
    pub s: u64,
    pub n: u32,
}

pub fn hex(bytes: &[u8]) -> String {
    let mut s = String::with_capacity(bytes.len() * 2);
    for b in bytes {
        s.push_str(&format!("{:02x}", b));
    }
    s
}

pub fn unhex(s: &str) -> Vec<u8> {
    let b = s.as_bytes();
    let mut out = Vec::with_capacity(b.len() / 2);
    let val = |c: u8| -> u8 {
        match c {
            b'0'..=b'9' => c - b'0',
            b'a'..=b'f' => c - b'a' + 10,
            b'A'..=b'F' => c - b'A' + 10,
            _ => 0,
        }
    };
    let mut i = 0;
    while i + 1 < b.len() {
        out.push(val(b[i]) << 4 | val(b[i + 1]));
        i += 2;
    }
    out
}

impl B {
    pub fn lit(bytes: &[u8]) -> B {
        B { p: hex(bytes), s: 0, n: bytes.len() as u32 }
    }
    pub fn gen(prefix: &[u8], seed: u64, n: usize) -> B {
        B { p: hex(prefix), s: seed, n: n as u32 }
    }
    pub fn bytes(&self) -> Vec<u8> {
        let n = self.n as usize;
        let mut out = unhex(&self.p);
        if out.len() >= n {
            out.truncate(n);
            return out;
        }
        let start = out.len();
        out.resize(n, 0);
        if self.s != 0 {
            let mut r = Rng::new(self.s);
            r.fill_bytes(&mut out[start..]);
        }
        out
    }
    pub fn len(&self) -> usize {
        self.n as usize
    }
    /// Short human-readable form for details / samples.
    pub fn brief(&self) -> String {
        let plen = self.p.len() / 2;
        if plen >= self.n as usize {
            format!("x{}", &self.p[..(self.n as usize * 2).min(self.p.len())])
        } else if self.s == 0 {
            format!("x{}+0*{}", self.p, self.n as usize - plen)
        } else {
            format!("x{}+r{}*{}", self.p, self.s % 10000, self.n as usize - plen)
        }
    }
    /// Strictly simpler variants (shorter first).
    pub fn simpler(&self) -> Vec<B> {
        let mut out = vec![];
        let plen = (self.p.len() / 2) as u32;
        let mut push = |b: B| {
            if b != *self && !out.contains(&b) {
                out.push(b);
            }
        };
        if self.n > 0 {
            push(B { p: self.p.clone(), s: self.s, n: 0 });
            push(B { p: self.p.clone(), s: self.s, n: 1 });
            if self.n > plen && plen > 0 {
                push(B { p: self.p.clone(), s: self.s, n: plen });
            }
            push(B { p: self.p.clone(), s: self.s, n: self.n / 2 });
            push(B { p: self.p.clone(), s: self.s, n: self.n - self.n / 4 });
            push(B { p: self.p.clone(), s: self.s, n: self.n - 1 });
        }
        if self.s != 0 && self.n > plen {
            push(B { p: self.p.clone(), s: 0, n: self.n });
        }
        out.retain(|b| b.n < self.n || (b.n == self.n && b.s == 0 && self.s != 0));
        out
    }
}

pub fn brief_bytes(b: &[u8]) -> String {
    if b.len() <= 16 {
        format!("x{}", hex(b))
    } else {
        format!("x{}..({}B,h={:08x})", hex(&b[..8]), b.len(), simcore::rng::fnv1a(b) as u32)
    }
}
