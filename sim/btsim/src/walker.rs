//! Independent B-tree page walker (property C29).
//!
//! Written from the documented on-page layout only (page.rs / leaf.rs / interior.rs / varint.rs
//! module docs); it never calls a TurDB accessor. It depends on nothing but `std`, so that the
//! same file can be used by another engine.
//!
//! Layout used:
//! * page header, 16 bytes: `[0]` page type (0x01 interior, 0x02 leaf), `[2..4]` cell count,
//!   `[4..6]` free_start, `[6..8]` free_end, `[8]` frag bytes, `[12..16]` right child (interior)
//!   or next leaf (leaf, 0 = none); all little endian.
//! * leaf: slot array at offset 24, 8 bytes per slot: `prefix[4]` (first four key bytes, zero
//!   padded), `offset u16`, `key_len u16`; cell at `offset`: key, varint value length, value.
//! * interior: slot array at offset 16, 12 bytes per slot: `prefix[4]`, `child u32`,
//!   `offset u16`, `key_len u16`; cell at `offset`: separator key. Keys `< sep[0]` are in
//!   `child[0]`, keys in `[sep[i-1], sep[i])` in `child[i]`, keys `>= sep[n-1]` in the header's
//!   right child.
//!
//! Checked: page type; slot and cell areas inside the page, not overlapping each other, cells
//! pairwise disjoint and not inside the free area; slot prefix equals the key prefix; keys in a
//! node strictly increasing; separators bound their subtrees; equal leaf depth; the leaf chain
//! visits every leaf exactly once, in key order, and ends with 0; no page reachable twice; no
//! reachable page is on the free list.

use std::collections::{BTreeSet, HashMap};
use std::rc::Rc;

pub const PAGE_SIZE: usize = 16384;
const LEAF_SLOTS: usize = 24;
const LEAF_SLOT: usize = 8;
const INT_SLOTS: usize = 16;
const INT_SLOT: usize = 12;

pub trait PageSource {
    fn src_page(&self, page_no: u32) -> Option<&[u8]>;
    fn src_page_count(&self) -> u32;
}

#[derive(Clone, Debug)]
pub struct Finding {
    pub verdict: &'static str,
    #[allow(dead_code)]
    pub page: u32,
    pub detail: String,
}

#[derive(Debug)]
pub enum Node {
    Leaf { n: usize, first: Option<Vec<u8>>, last: Option<Vec<u8>>, next: u32 },
    /// `children.len() == seps.len() + 1`, the last one is the header's right child.
    Interior { seps: Vec<Vec<u8>>, children: Vec<u32> },
    Bad { type_byte: u8 },
}

#[derive(Debug)]
pub struct Parsed {
    pub node: Node,
    pub local: Vec<Finding>,
}

#[derive(Clone, Debug, Default, PartialEq, Eq)]
pub struct Shape {
    pub depth: usize,
    /// Leaves in key (tree) order.
    pub leaves: Vec<u32>,
    pub interiors: usize,
    pub empty_leaves: Vec<u32>,
    pub entries: usize,
}

fn u16le(d: &[u8], o: usize) -> usize {
    u16::from_le_bytes([d[o], d[o + 1]]) as usize
}
fn u32le(d: &[u8], o: usize) -> u32 {
    u32::from_le_bytes([d[o], d[o + 1], d[o + 2], d[o + 3]])
}

/// Varint as documented in encoding/varint.rs. `None`: truncated or reserved marker.
pub fn decode_varint(b: &[u8]) -> Option<(u64, usize)> {
    let f = *b.first()?;
    match f {
        0..=240 => Some((f as u64, 1)),
        241..=248 => {
            let x = *b.get(1)?;
            Some((240 + ((f as u64 - 241) << 8) + x as u64, 2))
        }
        249 => {
            let x = *b.get(1)?;
            let y = *b.get(2)?;
            Some((2288 + ((x as u64) << 8) + y as u64, 3))
        }
        250 => {
            if b.len() < 4 {
                return None;
            }
            Some((((b[1] as u64) << 16) + ((b[2] as u64) << 8) + b[3] as u64, 4))
        }
        251 => {
            if b.len() < 5 {
                return None;
            }
            Some((((b[1] as u64) << 24) + ((b[2] as u64) << 16) + ((b[3] as u64) << 8) + b[4] as u64, 5))
        }
        255 => {
            if b.len() < 9 {
                return None;
            }
            let mut a = [0u8; 8];
            a.copy_from_slice(&b[1..9]);
            Some((u64::from_be_bytes(a), 9))
        }
        _ => None,
    }
}

fn bk(k: &[u8]) -> String {
    let mut s = String::from("x");
    for b in k.iter().take(12) {
        s.push_str(&format!("{:02x}", b));
    }
    if k.len() > 12 {
        s.push_str(&format!("..({}B)", k.len()));
    }
    s
}

fn prefix_of(key: &[u8]) -> [u8; 4] {
    let mut p = [0u8; 4];
    let n = key.len().min(4);
    p[..n].copy_from_slice(&key[..n]);
    p
}

fn check_extents(page: u32, what: &str, ext: &mut Vec<(usize, usize, usize)>, local: &mut Vec<Finding>) {
    ext.retain(|e| e.1 > e.0);
    ext.sort_unstable();
    for w in ext.windows(2) {
        if w[1].0 < w[0].1 {
            local.push(Finding {
                verdict: "cells-overlap",
                page,
                detail: format!(
                    "{} page {}: cell of slot {} [{}..{}) overlaps cell of slot {} [{}..{})",
                    what, page, w[0].2, w[0].0, w[0].1, w[1].2, w[1].0, w[1].1
                ),
            });
            break;
        }
    }
}

pub fn parse_page(page: u32, d: &[u8]) -> Parsed {
    let mut local = vec![];
    if d.len() != PAGE_SIZE {
        return Parsed { node: Node::Bad { type_byte: 0 }, local };
    }
    let ty = d[0];
    let n = u16le(d, 2);
    let free_start = u16le(d, 4);
    let free_end = u16le(d, 6);
    let right = u32le(d, 12);
    match ty {
        0x02 => {
            let slots_end = LEAF_SLOTS + n * LEAF_SLOT;
            if slots_end > PAGE_SIZE {
                local.push(Finding {
                    verdict: "cell-outside-page",
                    page,
                    detail: format!("leaf page {}: slot array of {} slots ends at {} beyond the page", page, n, slots_end),
                });
                return Parsed { node: Node::Leaf { n, first: None, last: None, next: right }, local };
            }
            if free_start != slots_end {
                local.push(Finding {
                    verdict: "header-inconsistent",
                    page,
                    detail: format!("leaf page {}: free_start={} but the slot array of {} slots ends at {}", page, free_start, n, slots_end),
                });
            }
            if free_end > PAGE_SIZE {
                local.push(Finding {
                    verdict: "cell-outside-page",
                    page,
                    detail: format!("leaf page {}: free_end={} beyond the page", page, free_end),
                });
            }
            if free_end < slots_end {
                local.push(Finding {
                    verdict: "slot-area-overlaps-cells",
                    page,
                    detail: format!("leaf page {}: slot array ends at {} but the cell area starts at free_end={}", page, slots_end, free_end),
                });
            }
            let mut keys: Vec<Option<&[u8]>> = Vec::with_capacity(n);
            let mut ext: Vec<(usize, usize, usize)> = Vec::with_capacity(n);
            for i in 0..n {
                let so = LEAF_SLOTS + i * LEAF_SLOT;
                let off = u16le(d, so + 4);
                let klen = u16le(d, so + 6);
                if off < slots_end {
                    local.push(Finding {
                        verdict: "slot-area-overlaps-cells",
                        page,
                        detail: format!("leaf page {}: cell of slot {} starts at {} inside header/slot array (ends {})", page, i, off, slots_end),
                    });
                    keys.push(None);
                    continue;
                }
                if off + klen > PAGE_SIZE {
                    local.push(Finding {
                        verdict: "cell-outside-page",
                        page,
                        detail: format!("leaf page {}: key of slot {} at {}+{} extends beyond the page", page, i, off, klen),
                    });
                    keys.push(None);
                    continue;
                }
                let key = &d[off..off + klen];
                let end = match decode_varint(&d[off + klen..]) {
                    Some((vlen, vs)) => {
                        let e = off + klen + vs + vlen as usize;
                        if vlen > PAGE_SIZE as u64 || e > PAGE_SIZE {
                            local.push(Finding {
                                verdict: "cell-outside-page",
                                page,
                                detail: format!("leaf page {}: value of slot {} (cell at {}, key {}B, value {}B) extends beyond the page", page, i, off, klen, vlen),
                            });
                            None
                        } else {
                            Some(e)
                        }
                    }
                    None => {
                        local.push(Finding {
                            verdict: "cell-outside-page",
                            page,
                            detail: format!("leaf page {}: value length of slot {} at {} is truncated / invalid", page, i, off + klen),
                        });
                        None
                    }
                };
                if let Some(e) = end {
                    ext.push((off, e, i));
                    if off < free_end && free_end <= PAGE_SIZE {
                        local.push(Finding {
                            verdict: "cell-in-free-area",
                            page,
                            detail: format!("leaf page {}: cell of slot {} [{}..{}) lies below free_end={}", page, i, off, e, free_end),
                        });
                    }
                }
                if d[so..so + 4] != prefix_of(key) {
                    local.push(Finding {
                        verdict: "slot-prefix-mismatch",
                        page,
                        detail: format!("leaf page {}: slot {} prefix {:02x?} but key {}", page, i, &d[so..so + 4], bk(key)),
                    });
                }
                keys.push(Some(key));
            }
            check_extents(page, "leaf", &mut ext, &mut local);
            let mut prev: Option<(usize, &[u8])> = None;
            for (i, k) in keys.iter().enumerate() {
                if let Some(k) = k {
                    if let Some((pi, pk)) = prev {
                        if pk >= *k {
                            local.push(Finding {
                                verdict: "keys-not-increasing",
                                page,
                                detail: format!("leaf page {}: key[{}]={} >= key[{}]={}", page, pi, bk(pk), i, bk(k)),
                            });
                            break;
                        }
                    }
                    prev = Some((i, k));
                }
            }
            let first = keys.iter().flatten().next().map(|k| k.to_vec());
            let last = keys.iter().flatten().last().map(|k| k.to_vec());
            Parsed { node: Node::Leaf { n, first, last, next: right }, local }
        }
        0x01 => {
            let slots_end = INT_SLOTS + n * INT_SLOT;
            if slots_end > PAGE_SIZE {
                local.push(Finding {
                    verdict: "cell-outside-page",
                    page,
                    detail: format!("interior page {}: slot array of {} slots ends at {} beyond the page", page, n, slots_end),
                });
                return Parsed { node: Node::Interior { seps: vec![], children: vec![right] }, local };
            }
            if free_start != slots_end {
                local.push(Finding {
                    verdict: "header-inconsistent",
                    page,
                    detail: format!("interior page {}: free_start={} but the slot array of {} slots ends at {}", page, free_start, n, slots_end),
                });
            }
            if free_end > PAGE_SIZE {
                local.push(Finding {
                    verdict: "cell-outside-page",
                    page,
                    detail: format!("interior page {}: free_end={} beyond the page", page, free_end),
                });
            }
            if free_end < slots_end {
                local.push(Finding {
                    verdict: "slot-area-overlaps-cells",
                    page,
                    detail: format!("interior page {}: slot array ends at {} but the cell area starts at free_end={}", page, slots_end, free_end),
                });
            }
            let mut seps: Vec<Vec<u8>> = Vec::with_capacity(n);
            let mut children: Vec<u32> = Vec::with_capacity(n + 1);
            let mut ext: Vec<(usize, usize, usize)> = Vec::with_capacity(n);
            let mut unreadable = false;
            for i in 0..n {
                let so = INT_SLOTS + i * INT_SLOT;
                let child = u32le(d, so + 4);
                let off = u16le(d, so + 8);
                let klen = u16le(d, so + 10);
                children.push(child);
                if klen > 0 && off < slots_end {
                    local.push(Finding {
                        verdict: "slot-area-overlaps-cells",
                        page,
                        detail: format!("interior page {}: separator of slot {} starts at {} inside header/slot array (ends {})", page, i, off, slots_end),
                    });
                    unreadable = true;
                    seps.push(vec![]);
                    continue;
                }
                if off + klen > PAGE_SIZE {
                    local.push(Finding {
                        verdict: "cell-outside-page",
                        page,
                        detail: format!("interior page {}: separator of slot {} at {}+{} extends beyond the page", page, i, off, klen),
                    });
                    unreadable = true;
                    seps.push(vec![]);
                    continue;
                }
                let key = &d[off..off + klen];
                ext.push((off, off + klen, i));
                if klen > 0 && off < free_end && free_end <= PAGE_SIZE {
                    local.push(Finding {
                        verdict: "cell-in-free-area",
                        page,
                        detail: format!("interior page {}: separator of slot {} [{}..{}) lies below free_end={}", page, i, off, off + klen, free_end),
                    });
                }
                if d[so..so + 4] != prefix_of(key) {
                    local.push(Finding {
                        verdict: "slot-prefix-mismatch",
                        page,
                        detail: format!("interior page {}: slot {} prefix {:02x?} but separator {}", page, i, &d[so..so + 4], bk(key)),
                    });
                }
                seps.push(key.to_vec());
            }
            children.push(right);
            check_extents(page, "interior", &mut ext, &mut local);
            if !unreadable {
                for i in 1..seps.len() {
                    if seps[i - 1] >= seps[i] {
                        local.push(Finding {
                            verdict: "keys-not-increasing",
                            page,
                            detail: format!("interior page {}: separator[{}]={} >= separator[{}]={}", page, i - 1, bk(&seps[i - 1]), i, bk(&seps[i])),
                        });
                        break;
                    }
                }
            }
            Parsed { node: Node::Interior { seps, children }, local }
        }
        other => Parsed { node: Node::Bad { type_byte: other }, local },
    }
}

/// All cells of a leaf page, in slot order. `None` if any cell cannot be read.
pub fn read_leaf_cells(d: &[u8]) -> Option<Vec<(Vec<u8>, Vec<u8>)>> {
    if d.len() != PAGE_SIZE || d[0] != 0x02 {
        return None;
    }
    let n = u16le(d, 2);
    if LEAF_SLOTS + n * LEAF_SLOT > PAGE_SIZE {
        return None;
    }
    let mut out = Vec::with_capacity(n);
    for i in 0..n {
        let so = LEAF_SLOTS + i * LEAF_SLOT;
        let off = u16le(d, so + 4);
        let klen = u16le(d, so + 6);
        if off + klen > PAGE_SIZE {
            return None;
        }
        let (vlen, vs) = decode_varint(&d[off + klen..])?;
        let vstart = off + klen + vs;
        if vlen as usize > PAGE_SIZE || vstart + vlen as usize > PAGE_SIZE {
            return None;
        }
        out.push((d[off..off + klen].to_vec(), d[vstart..vstart + vlen as usize].to_vec()));
    }
    Some(out)
}

#[derive(Default)]
pub struct Walker {
    cache: HashMap<u32, Rc<Parsed>>,
    pub parses: u64,
    pub walks: u64,
    pub full_walks: u64,
}

const MAX_FINDINGS: usize = 6;

struct Walk<'a> {
    src: &'a dyn PageSource,
    free: &'a BTreeSet<u32>,
    findings: Vec<Finding>,
    visited: BTreeSet<u32>,
    shape: Shape,
    leaf_depth: Option<usize>,
    min_page: u32,
}

impl Walker {
    pub fn new() -> Self {
        Self::default()
    }

    fn parsed(&mut self, src: &dyn PageSource, page: u32) -> Option<Rc<Parsed>> {
        if let Some(p) = self.cache.get(&page) {
            return Some(p.clone());
        }
        let d = src.src_page(page)?;
        self.parses += 1;
        let p = Rc::new(parse_page(page, d));
        self.cache.insert(page, p.clone());
        Some(p)
    }

    /// Walks the tree from `root`. `dirty`: pages written since the previous call (their cached
    /// parse is dropped); `full`: drop the whole cache and re-parse every reachable page.
    /// `min_page`: smallest page number a tree page may have (1 when page 0 is a file header).
    pub fn check(
        &mut self,
        src: &dyn PageSource,
        root: u32,
        dirty: &[u32],
        free: &BTreeSet<u32>,
        min_page: u32,
        full: bool,
    ) -> (Vec<Finding>, Shape) {
        self.walks += 1;
        if full {
            self.full_walks += 1;
            self.cache.clear();
        } else {
            for p in dirty {
                self.cache.remove(p);
            }
        }
        let mut w = Walk {
            src,
            free,
            findings: vec![],
            visited: BTreeSet::new(),
            shape: Shape::default(),
            leaf_depth: None,
            min_page,
        };
        self.visit(&mut w, root, None, None, 1, 0, "root");
        // leaf chain
        if w.findings.len() < MAX_FINDINGS {
            let leaves = w.shape.leaves.clone();
            for (i, l) in leaves.iter().enumerate() {
                let next = match self.cache.get(l).map(|p| &p.node) {
                    Some(Node::Leaf { next, .. }) => *next,
                    _ => continue,
                };
                let want = leaves.get(i + 1).copied().unwrap_or(0);
                if next != want {
                    w.findings.push(Finding {
                        verdict: "leaf-chain-broken",
                        page: *l,
                        detail: format!(
                            "leaf #{} (page {}) has next_leaf={} but the next leaf in key order is {} (leaves in tree order: {:?})",
                            i,
                            l,
                            next,
                            if want == 0 { "none (0)".to_string() } else { format!("page {}", want) },
                            &leaves[..leaves.len().min(24)]
                        ),
                    });
                    break;
                }
            }
        }
        (w.findings, w.shape)
    }

    #[allow(clippy::too_many_arguments)]
    fn visit(&mut self, w: &mut Walk, page: u32, lo: Option<&[u8]>, hi: Option<&[u8]>, depth: usize, parent: u32, via: &str) {
        if w.findings.len() >= MAX_FINDINGS {
            return;
        }
        if page < w.min_page || page >= w.src.src_page_count() {
            w.findings.push(Finding {
                verdict: "child-out-of-range",
                page,
                detail: format!("page {} ({} of page {}) is outside the valid range {}..{}", page, via, parent, w.min_page, w.src.src_page_count()),
            });
            return;
        }
        if !w.visited.insert(page) {
            w.findings.push(Finding {
                verdict: "page-reachable-twice",
                page,
                detail: format!("page {} is reachable a second time ({} of page {})", page, via, parent),
            });
            return;
        }
        if w.free.contains(&page) {
            w.findings.push(Finding {
                verdict: "free-page-reachable",
                page,
                detail: format!("page {} ({} of page {}) is on the free list", page, via, parent),
            });
        }
        if depth > 64 {
            w.findings.push(Finding { verdict: "leaf-depth-differs", page, detail: format!("depth exceeds 64 at page {}", page) });
            return;
        }
        let p = match self.parsed(w.src, page) {
            Some(p) => p,
            None => return,
        };
        for f in &p.local {
            if w.findings.len() < MAX_FINDINGS {
                w.findings.push(f.clone());
            }
        }
        match &p.node {
            Node::Bad { type_byte } => {
                w.findings.push(Finding {
                    verdict: "bad-page-type",
                    page,
                    detail: format!("page {} ({} of page {}) has page type {:#04x}, neither leaf nor interior", page, via, parent, type_byte),
                });
            }
            Node::Leaf { n, first, last, .. } => {
                match w.leaf_depth {
                    None => w.leaf_depth = Some(depth),
                    Some(d) if d != depth => {
                        w.findings.push(Finding {
                            verdict: "leaf-depth-differs",
                            page,
                            detail: format!("leaf page {} at depth {} but an earlier leaf is at depth {}", page, depth, d),
                        });
                    }
                    _ => {}
                }
                w.shape.depth = w.shape.depth.max(depth);
                w.shape.leaves.push(page);
                w.shape.entries += *n;
                if *n == 0 {
                    w.shape.empty_leaves.push(page);
                }
                if let (Some(f), Some(lo)) = (first, lo) {
                    if f.as_slice() < lo {
                        w.findings.push(Finding {
                            verdict: "separator-violates-subtree",
                            page,
                            detail: format!("leaf page {}: first key {} is below the lower separator {} of its subtree", page, bk(f), bk(lo)),
                        });
                    }
                }
                if let (Some(l), Some(hi)) = (last, hi) {
                    if l.as_slice() >= hi {
                        w.findings.push(Finding {
                            verdict: "separator-violates-subtree",
                            page,
                            detail: format!("leaf page {}: last key {} is not below the upper separator {} of its subtree", page, bk(l), bk(hi)),
                        });
                    }
                }
            }
            Node::Interior { seps, children } => {
                w.shape.interiors += 1;
                for (i, s) in seps.iter().enumerate() {
                    let below = lo.map(|lo| s.as_slice() < lo).unwrap_or(false);
                    // a separator equal to an inherited bound only makes one child range empty;
                    // no key can be misplaced by it, so only strictly-outside separators count
                    let above = hi.map(|hi| s.as_slice() > hi).unwrap_or(false);
                    if below || above {
                        w.findings.push(Finding {
                            verdict: "separator-violates-subtree",
                            page,
                            detail: format!(
                                "interior page {}: separator[{}]={} outside the bounds [{}, {}] inherited from its ancestors",
                                page,
                                i,
                                bk(s),
                                lo.map(bk).unwrap_or_else(|| "-inf".into()),
                                hi.map(bk).unwrap_or_else(|| "+inf".into())
                            ),
                        });
                        break;
                    }
                }
                let n = seps.len();
                for (i, c) in children.iter().enumerate() {
                    let clo: Option<&[u8]> = if i == 0 { lo } else { Some(seps[i - 1].as_slice()) };
                    let chi: Option<&[u8]> = if i < n { Some(seps[i].as_slice()) } else { hi };
                    let via = if i < n { format!("child[{}]", i) } else { "right child".to_string() };
                    self.visit(w, *c, clo, chi, depth + 1, page, &via);
                }
            }
        }
    }

    /// Leaf a lookup of `key` is routed to, by the documented navigation rule (first separator
    /// greater than the key selects the child, else the right child), from the cached parses.
    pub fn route(&mut self, src: &dyn PageSource, root: u32, key: &[u8]) -> Option<u32> {
        let mut page = root;
        for _ in 0..64 {
            let p = self.parsed(src, page)?;
            match &p.node {
                Node::Leaf { .. } => return Some(page),
                Node::Interior { seps, children } => {
                    let i = seps.iter().position(|s| key < s.as_slice()).unwrap_or(seps.len());
                    page = *children.get(i)?;
                }
                Node::Bad { .. } => return None,
            }
        }
        None
    }

    /// (cell count, last key) of a leaf page, from the cached parse.
    pub fn leaf_last(&mut self, src: &dyn PageSource, page: u32) -> Option<(usize, Option<Vec<u8>>)> {
        let p = self.parsed(src, page)?;
        match &p.node {
            Node::Leaf { n, last, .. } => Some((*n, last.clone())),
            _ => None,
        }
    }

    /// Entries of the tree in leaf order, read by the walker itself (used to re-synchronise the
    /// model after a reported mismatch). `None` if a leaf cannot be read.
    pub fn enumerate(&self, src: &dyn PageSource, shape: &Shape) -> Option<Vec<(Vec<u8>, Vec<u8>)>> {
        let mut out = vec![];
        for l in &shape.leaves {
            let d = src.src_page(*l)?;
            out.extend(read_leaf_cells(d)?);
        }
        Some(out)
    }
}
