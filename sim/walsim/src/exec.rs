//! Drives the real `turdb::storage::Wal` and the real recovery entry points.

use crate::model::*;
use std::collections::BTreeMap;
use std::panic::{catch_unwind, AssertUnwindSafe};
use std::path::{Path, PathBuf};
use std::sync::Mutex;
use turdb::storage::{MmapStorage, SyncMode, Wal};

static LAST_PANIC: Mutex<Option<String>> = Mutex::new(None);

pub fn install_panic_hook() {
    std::panic::set_hook(Box::new(|info| {
        let site = info
            .location()
            .map(|l| {
                let f = l.file();
                let f = f.strip_prefix("/repo/").unwrap_or(f);
                format!("{}:{}", f, l.line())
            })
            .unwrap_or_else(|| "unknown".into());
        let msg = if let Some(s) = info.payload().downcast_ref::<&str>() {
            s.to_string()
        } else if let Some(s) = info.payload().downcast_ref::<String>() {
            s.clone()
        } else {
            String::new()
        };
        eprintln!("panicked at {}: {}", site, msg);
        if let Ok(mut g) = LAST_PANIC.lock() {
            *g = Some(site);
        }
    }));
}

pub fn guarded<T>(f: impl FnOnce() -> T) -> Result<T, String> {
    match catch_unwind(AssertUnwindSafe(f)) {
        Ok(v) => Ok(v),
        Err(_) => Err(LAST_PANIC.lock().ok().and_then(|mut g| g.take()).unwrap_or_else(|| "unknown".into())),
    }
}

/// Error text without scratch paths (they differ between a run and its replay).
fn clean_err(e: &eyre::Report) -> String {
    let s = format!("{:#}", e);
    let mut out = String::new();
    let mut rest = s.as_str();
    while let Some(i) = rest.find("/dev/shm/") {
        out.push_str(&rest[..i]);
        let tail = &rest[i..];
        let end = tail.find(|c: char| c == '"' || c == '\'' || c == ' ' || c == ':').unwrap_or(tail.len());
        let path = &tail[..end];
        let name = path.rsplit('/').next().unwrap_or("");
        out.push_str("<scratch>/");
        out.push_str(name);
        rest = &tail[end..];
    }
    out.push_str(rest);
    out.chars().take(300).collect()
}

#[derive(Clone, Debug)]
pub enum RpRes {
    None,
    Img(Img),
    Err(String),
    Panic(String),
}

#[derive(Debug, Default)]
pub struct ExecOut {
    pub model: Model,
    /// (op index, op kind, error text): a write-path call returned Err on a healthy disk
    pub op_errs: Vec<(usize, String, String)>,
    /// (op index, op kind, site)
    pub panic: Option<(usize, String, String)>,
    /// results of `ReadPages` ops: (op index, expected per (file,page), observed)
    pub live_reads: Vec<(usize, Vec<&'static str>, BTreeMap<(u64, u32), Option<u32>>, BTreeMap<(u64, u32), RpRes>)>,
}

fn sync_mode_of(s: &str) -> SyncMode {
    match s {
        "full" => SyncMode::Full,
        "normal" => SyncMode::Normal,
        _ => SyncMode::Off,
    }
}

pub fn expected_reads(model: &Model) -> BTreeMap<(u64, u32), Option<u32>> {
    let seq = model.sequence();
    let mut out = BTreeMap::new();
    for f in 0..NFILES {
        let (st, _) = state_after(&seq, seq.len(), Proj::File(f));
        for p in 0..NPAGES {
            out.insert((f, p), st.get(&p).copied());
        }
    }
    out
}

pub fn read_all_pages(wal: &Wal) -> BTreeMap<(u64, u32), RpRes> {
    let mut out = BTreeMap::new();
    for f in 0..NFILES {
        for p in 0..NPAGES {
            let r = match guarded(|| wal.read_page(f, p)) {
                Ok(Ok(None)) => RpRes::None,
                Ok(Ok(Some(d))) => RpRes::Img(decode(&d)),
                Ok(Err(e)) => RpRes::Err(clean_err(&e)),
                Err(site) => RpRes::Panic(site),
            };
            out.insert((f, p), r);
        }
    }
    out
}

/// The real `Wal` being driven through a history.
pub struct Runner<'a> {
    pub wal: Option<Wal>,
    pub dir: &'a Path,
}

impl<'a> Runner<'a> {
    pub fn start(start_open: bool, dir: &'a Path, out: &mut ExecOut) -> Runner<'a> {
        let first = guarded(|| if start_open { Wal::open(dir) } else { Wal::create(dir) });
        let wal = match first {
            Ok(Ok(w)) => Some(w),
            Ok(Err(e)) => {
                out.op_errs.push((0, "create".into(), clean_err(&e)));
                None
            }
            Err(site) => {
                out.panic = Some((0, "create".into(), site));
                None
            }
        };
        Runner { wal, dir }
    }

    /// Executes op `i`; on success the model in `out` is advanced. Returns false when the
    /// history cannot continue (error, panic).
    pub fn step(&mut self, i: usize, op: &Op, out: &mut ExecOut) -> bool {
        let kind = op.kind().to_string();
        let wal_dir = self.dir;
        let w = match self.wal.as_ref() {
            Some(w) => w,
            None => return false,
        };
        let res: Result<eyre::Result<()>, String> = match op {
            Op::Write { file, page, db_size, tag } => {
                let img = fill(*tag);
                guarded(|| w.write_frame_with_file_id(*page, *db_size, &img, *file))
            }
            Op::Batch { frames, sync } => {
                let imgs: Vec<Vec<u8>> = frames.iter().map(|f| fill(f.tag)).collect();
                let it = frames.iter().zip(imgs.iter()).map(|(f, d)| (f.page, f.db_size, d.as_slice(), f.file));
                if *sync {
                    guarded(|| w.write_frames_batch(it))
                } else {
                    guarded(|| w.write_frames_batch_no_sync(it))
                }
            }
            Op::Undo { table, txn, page, db_size, tag } => {
                let img = fill(*tag);
                guarded(|| w.write_undo_frame(*table, *txn, *page, *db_size, &img))
            }
            Op::Rotate => guarded(|| w.rotate_segment()),
            Op::Truncate => guarded(|| w.truncate()),
            Op::Sync => guarded(|| w.sync()),
            Op::SyncMode { mode } => guarded(|| {
                w.set_sync_mode(sync_mode_of(mode));
                Ok(())
            }),
            Op::Reopen => {
                let old = self.wal.take();
                let r = guarded(move || {
                    drop(old);
                    Wal::open(wal_dir)
                });
                match r {
                    Ok(Ok(nw)) => {
                        self.wal = Some(nw);
                        Ok(Ok(()))
                    }
                    Ok(Err(e)) => Ok(Err(e)),
                    Err(s) => Err(s),
                }
            }
            Op::DamageReopen { back, how } => {
                let cur = out.model.segs.keys().next_back().copied().unwrap_or(1);
                let n = out.model.segs.get(&cur).map(|v| v.len()).unwrap_or(0);
                let old = self.wal.take();
                let back = *back as usize;
                let zero = how == "zero";
                let r = guarded(move || {
                    drop(old);
                    if n > back {
                        let idx = n - 1 - back;
                        let path = wal_dir.join(format!("wal.{:06}", cur));
                        let mut data = std::fs::read(&path)?;
                        let fs = 32 + 16384;
                        if data.len() >= (idx + 1) * fs {
                            if zero {
                                for b in &mut data[idx * fs..(idx + 1) * fs] {
                                    *b = 0;
                                }
                            } else {
                                data[idx * fs + 32 + 4097] ^= 0x5a;
                            }
                            std::fs::write(&path, &data)?;
                        }
                    }
                    Wal::open(wal_dir)
                });
                match r {
                    Ok(Ok(nw)) => {
                        self.wal = Some(nw);
                        Ok(Ok(()))
                    }
                    Ok(Err(e)) => Ok(Err(e)),
                    Err(s) => Err(s),
                }
            }
            Op::ReadPages => {
                let r = guarded(|| w.sync());
                if let Ok(Ok(())) = r {
                    out.model.apply(i, op);
                    let exp = expected_reads(&out.model);
                    let obs = read_all_pages(w);
                    out.live_reads.push((i, out.model.shape_fields(), exp, obs));
                    return true;
                }
                r
            }
        };
        match res {
            Ok(Ok(())) => {
                out.model.apply(i, op);
                true
            }
            Ok(Err(e)) => {
                out.op_errs.push((i, kind, clean_err(&e)));
                false
            }
            Err(site) => {
                out.panic = Some((i, kind, site));
                // the instance may be half-updated: leak it rather than run more code on it
                std::mem::forget(self.wal.take());
                false
            }
        }
    }

    pub fn finish(&mut self, n_ops: usize, out: &mut ExecOut) {
        if let Some(w) = self.wal.take() {
            if let Err(site) = guarded(move || drop(w)) {
                if out.panic.is_none() {
                    out.panic = Some((n_ops, "drop".into(), site));
                }
            }
        }
    }
}

/// Runs the history on a fresh WAL directory and leaves the final segment files in `wal_dir`.
pub fn execute(start_open: bool, ops: &[Op], wal_dir: &Path) -> ExecOut {
    let mut out = ExecOut { model: Model::new(), ..Default::default() };
    let mut r = Runner::start(start_open, wal_dir, &mut out);
    for (i, op) in ops.iter().enumerate() {
        if !r.step(i, op, &mut out) {
            break;
        }
    }
    r.finish(ops.len(), &mut out);
    out
}

// ---------------------------------------------------------------------------------------------
// recovery
// ---------------------------------------------------------------------------------------------

#[derive(Clone, Debug)]
pub struct ApiRes {
    pub api: String,
    pub proj: Proj,
    /// Ok(frames applied) / Err(text)
    pub result: Result<u32, String>,
    pub panic: Option<String>,
    pub pages: Vec<Img>,
}

#[derive(Debug, Default)]
pub struct Recovered {
    pub open_err: Option<String>,
    pub open_panic: Option<String>,
    pub apis: Vec<ApiRes>,
    pub reads: Option<BTreeMap<(u64, u32), RpRes>>,
}

/// Storage files are reused between recoveries while their size is unchanged (mapping and
/// unmapping a file per recovery dominated the run time): every page is reset to the sentinel.
#[derive(Default)]
pub struct StoragePool {
    free: BTreeMap<u32, MmapStorage>,
    serial: u64,
}

impl StoragePool {
    fn take(&mut self, dir: &Path, init_pages: u32) -> Option<MmapStorage> {
        let mut st = match self.free.remove(&init_pages) {
            Some(s) => s,
            None => {
                self.serial += 1;
                MmapStorage::create(dir.join(format!("recover-{}.tbd", self.serial)), init_pages).ok()?
            }
        };
        for p in 0..init_pages {
            let pg = st.page_mut(p).ok()?;
            for b in pg.iter_mut() {
                *b = BASE_BYTE;
            }
        }
        Some(st)
    }
    fn give(&mut self, init_pages: u32, st: MmapStorage) {
        if st.page_count() == init_pages {
            self.free.insert(init_pages, st);
        }
    }
}

fn snapshot(st: &MmapStorage) -> Vec<Img> {
    (0..st.page_count().min(64)).map(|p| st.page(p).map(decode).unwrap_or(Img::Absent)).collect()
}

pub fn segment_paths(dir: &Path) -> Vec<(u64, PathBuf)> {
    let mut v = vec![];
    if let Ok(rd) = std::fs::read_dir(dir) {
        for e in rd.flatten() {
            let n = e.file_name().to_string_lossy().to_string();
            if n.starts_with("wal.") && n.len() == 10 {
                if let Ok(s) = n[4..].parse::<u64>() {
                    v.push((s, e.path()));
                }
            }
        }
    }
    v.sort();
    v
}

pub struct RecoverPlan {
    pub init_pages: u32,
    /// file ids for `recover_for_file`
    pub for_files: Vec<u64>,
    /// file ids for `replay_segments_to_storage`
    pub replay_files: Vec<u64>,
    pub read_pages: bool,
}

/// `Wal::open` + every planned recovery entry point, each into its own fresh storage file.
pub fn recover_dir(wal_dir: &Path, scratch: &Path, plan: &RecoverPlan, pool: &mut StoragePool) -> Result<Recovered, String> {
    let mut rec = Recovered::default();
    let _ = std::fs::create_dir_all(scratch);
    let wal = match guarded(|| Wal::open(wal_dir)) {
        Ok(Ok(w)) => w,
        Ok(Err(e)) => {
            rec.open_err = Some(clean_err(&e));
            return Ok(rec);
        }
        Err(site) => {
            rec.open_panic = Some(site);
            return Ok(rec);
        }
    };
    let mut run = |api: &str, proj: Proj, f: &mut dyn FnMut(&mut MmapStorage) -> eyre::Result<u32>| -> Result<(), String> {
        let mut st = pool.take(scratch, plan.init_pages).ok_or_else(|| "cannot create storage".to_string())?;
        let r = guarded(|| f(&mut st));
        let (result, panic) = match r {
            Ok(Ok(n)) => (Ok(n), None),
            Ok(Err(e)) => (Err(clean_err(&e)), None),
            Err(site) => (Err("panic".into()), Some(site)),
        };
        let pages = snapshot(&st);
        pool.give(plan.init_pages, st);
        rec.apis.push(ApiRes { api: api.to_string(), proj, result, panic, pages });
        Ok(())
    };
    run("recover", Proj::All, &mut |st| wal.recover(st))?;
    for f in &plan.for_files {
        run("recover_for_file", Proj::File(*f), &mut |st| wal.recover_for_file(st, *f))?;
    }
    if !plan.replay_files.is_empty() {
        let segs: Vec<PathBuf> = segment_paths(wal_dir).into_iter().map(|(_, p)| p).collect();
        for f in &plan.replay_files {
            run("replay_segments_to_storage", Proj::File(*f), &mut |st| Wal::replay_segments_to_storage(&segs, st, *f))?;
        }
    }
    if plan.read_pages {
        rec.reads = Some(read_all_pages(&wal));
    }
    let _ = guarded(move || drop(wal));
    Ok(rec)
}
