//! Stored-byte faults on the final segment files: descriptors, enumeration, application.

use crate::model::*;
use serde::{Deserialize, Serialize};
use simcore::{Rng, Tier};
use std::collections::BTreeSet;
use std::path::Path;

#[derive(Serialize, Deserialize, Clone, Debug, PartialEq)]
#[serde(tag = "kind", rename_all = "snake_case")]
pub enum Fault {
    /// the file ends at byte `frame * FRAME + delta`
    Cut { seg: u64, frame: u64, delta: u64 },
    /// bytes from `frame * FRAME + delta` to the end of the file read as zero
    Zerofill { seg: u64, frame: u64, delta: u64 },
    /// the byte at `frame * FRAME + delta` is XORed with `mask` (non-zero)
    Flip { seg: u64, frame: u64, delta: u64, mask: u8 },
    /// `len` zero bytes are appended
    Extend { seg: u64, len: u64 },
}

pub fn header_field(delta: u64) -> &'static str {
    match delta {
        0..=7 => "file_id",
        8..=11 => "page_no",
        12..=15 => "db_size",
        16..=19 => "salt1",
        20..=23 => "salt2",
        24..=31 => "checksum",
        _ => "payload",
    }
}

fn position_class(delta: u64) -> &'static str {
    match delta {
        0 => "frame-boundary",
        1..=31 => "in-header",
        _ => "in-payload",
    }
}

impl Fault {
    pub fn kind(&self) -> &'static str {
        match self {
            Fault::Cut { .. } => "cut",
            Fault::Zerofill { .. } => "zerofill",
            Fault::Flip { .. } => "flip",
            Fault::Extend { .. } => "extend",
        }
    }
    /// where within a frame / which header field
    pub fn at(&self) -> String {
        match self {
            Fault::Cut { delta, .. } | Fault::Zerofill { delta, .. } => position_class(*delta).to_string(),
            Fault::Flip { delta, .. } => header_field(*delta).to_string(),
            Fault::Extend { len, .. } => {
                if *len < FRAME as u64 {
                    "less-than-a-frame".into()
                } else if *len == FRAME as u64 {
                    "one-frame".into()
                } else {
                    "several-frames".into()
                }
            }
        }
    }
    pub fn seg(&self) -> u64 {
        match self {
            Fault::Cut { seg, .. } | Fault::Zerofill { seg, .. } | Fault::Flip { seg, .. } | Fault::Extend { seg, .. } => *seg,
        }
    }
    pub fn offset(&self) -> Option<u64> {
        match self {
            Fault::Cut { frame, delta, .. } | Fault::Zerofill { frame, delta, .. } | Fault::Flip { frame, delta, .. } => {
                Some(frame * FRAME as u64 + delta)
            }
            Fault::Extend { .. } => None,
        }
    }
    pub fn counter_key(&self) -> String {
        match self {
            Fault::Flip { delta, .. } => format!("faults/flip/{}", header_field(*delta)),
            Fault::Extend { .. } => format!("faults/extend/{}", self.at()),
            _ => format!("faults/{}/{}", self.kind(), self.at()),
        }
    }
    pub fn describe(&self) -> String {
        match self {
            Fault::Cut { seg, frame, delta } => format!("cut wal.{:06} at byte {} (frame {} + {})", seg, frame * FRAME as u64 + delta, frame, delta),
            Fault::Zerofill { seg, frame, delta } => {
                format!("zero-fill wal.{:06} from byte {} (frame {} + {}) to its end", seg, frame * FRAME as u64 + delta, frame, delta)
            }
            Fault::Flip { seg, frame, delta, mask } => format!(
                "xor byte {} of wal.{:06} (frame {}, {} byte {}) with {:#04x}",
                frame * FRAME as u64 + delta,
                seg,
                frame,
                header_field(*delta),
                delta,
                mask
            ),
            Fault::Extend { seg, len } => format!("append {} zero bytes to wal.{:06}", len, seg),
        }
    }

    /// Applies the fault to `data` (content of segment `seg`). Returns false if the fault does
    /// not apply to a file of this length (then the file is unchanged).
    pub fn apply(&self, data: &mut Vec<u8>) -> bool {
        let len = data.len() as u64;
        match self {
            Fault::Cut { .. } => {
                let o = self.offset().unwrap_or(0);
                if o >= len {
                    return false;
                }
                data.truncate(o as usize);
                true
            }
            Fault::Zerofill { .. } => {
                let o = self.offset().unwrap_or(0);
                if o >= len {
                    return false;
                }
                for b in data[o as usize..].iter_mut() {
                    *b = 0;
                }
                true
            }
            Fault::Flip { mask, .. } => {
                let o = self.offset().unwrap_or(0);
                if o >= len || *mask == 0 {
                    return false;
                }
                data[o as usize] ^= *mask;
                true
            }
            Fault::Extend { len: n, .. } => {
                if *n == 0 {
                    return false;
                }
                data.extend(std::iter::repeat(0u8).take(*n as usize));
                true
            }
        }
    }
}

fn norm(off: u64) -> (u64, u64) {
    (off / FRAME as u64, off % FRAME as u64)
}

/// All faults for one history: `segs` = (sequence number, number of frames) of every final
/// segment file (whose length is frames * FRAME — checked by the caller).
pub fn enumerate(segs: &[(u64, u64)], rng: &mut Rng, tier: Tier) -> Vec<Fault> {
    let thorough = tier == Tier::Thorough;
    let mut out = vec![];
    for (seg, m) in segs {
        let len = m * FRAME as u64;
        // ---- cut / zero-fill offsets
        let mut offs: BTreeSet<u64> = BTreeSet::new();
        for j in 0..=*m {
            let b = j * FRAME as u64;
            for d in [0i64, 1, 31, 32, 33, -1, -31, -32, -33] {
                let o = b as i64 + d;
                if o >= 0 && (o as u64) < len {
                    offs.insert(o as u64);
                }
            }
            // boundary + header + payload - 1
            let o = b + (HDR + PAGE) as u64 - 1;
            if o < len {
                offs.insert(o);
            }
        }
        let interior = if thorough { 6 } else { 2 };
        for j in 0..*m {
            for _ in 0..interior {
                offs.insert(j * FRAME as u64 + 34 + rng.below((PAGE - 68) as u64));
            }
        }
        for o in &offs {
            let (frame, delta) = norm(*o);
            out.push(Fault::Cut { seg: *seg, frame, delta });
        }
        for o in &offs {
            let (frame, delta) = norm(*o);
            out.push(Fault::Zerofill { seg: *seg, frame, delta });
        }
        // ---- flips
        let masks = [0x01u8, 0x80, 0xFF, 0x10];
        for j in 0..*m {
            let fields: [(u64, u64); 6] = [(0, 8), (8, 4), (12, 4), (16, 4), (20, 4), (24, 8)];
            for (start, n) in fields {
                if thorough {
                    for d in start..start + n {
                        let mask = if rng.chance(1, 2) { *rng.pick(&masks) } else { 1 + rng.below(255) as u8 };
                        out.push(Fault::Flip { seg: *seg, frame: j, delta: d, mask });
                    }
                } else {
                    let d = start + rng.below(n);
                    let mask = if rng.chance(1, 2) { *rng.pick(&masks) } else { 1 + rng.below(255) as u8 };
                    out.push(Fault::Flip { seg: *seg, frame: j, delta: d, mask });
                }
            }
            let mut pay: BTreeSet<u64> = BTreeSet::new();
            pay.insert(HDR as u64);
            pay.insert((FRAME - 1) as u64);
            for _ in 0..(if thorough { 8 } else { 2 }) {
                pay.insert(HDR as u64 + rng.below(PAGE as u64));
            }
            for d in pay {
                let mask = if rng.chance(1, 2) { *rng.pick(&masks) } else { 1 + rng.below(255) as u8 };
                out.push(Fault::Flip { seg: *seg, frame: j, delta: d, mask });
            }
        }
        // ---- zero extension
        let mut lens = vec![HDR as u64, FRAME as u64, 3 * FRAME as u64];
        if thorough {
            lens.push(1);
            lens.push(FRAME as u64 - 1);
            lens.push(2 * FRAME as u64 + 17);
        }
        for l in lens {
            out.push(Fault::Extend { seg: *seg, len: l });
        }
    }
    out
}

/// Copies the segment files of `src` into `dst`, the one named by the fault mutated.
/// Ok(true) = applied, Ok(false) = the fault does not apply to these files.
pub fn materialise(src_files: &[(u64, Vec<u8>)], fault: &Fault, dst: &Path) -> Result<bool, String> {
    let _ = std::fs::remove_dir_all(dst);
    std::fs::create_dir_all(dst).map_err(|e| format!("mkdir {}: {}", dst.display(), e))?;
    let mut applied = false;
    for (seq, data) in src_files {
        let p = dst.join(format!("wal.{:06}", seq));
        if *seq == fault.seg() {
            let mut d = data.clone();
            applied = fault.apply(&mut d);
            std::fs::write(&p, &d).map_err(|e| format!("write {}: {}", p.display(), e))?;
        } else {
            std::fs::write(&p, data).map_err(|e| format!("write {}: {}", p.display(), e))?;
        }
    }
    Ok(applied)
}
