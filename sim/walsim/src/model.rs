//! Reference model of the write-ahead log: what was written, in which segment, in which order.
//!
//! The model knows nothing about files, cursors or buffers. A log is a sequence of segments,
//! each a list of frames in write order; `truncate` empties the log; `reopen` keeps it;
//! `rotate` starts a new segment. Recovery of the first `k` frames of the concatenated frame
//! sequence gives every (file, page) the image of its last frame among those `k`.

use serde::{Deserialize, Serialize};
use std::collections::{BTreeMap, BTreeSet};

pub const PAGE: usize = 16384;
pub const HDR: usize = 32;
pub const FRAME: usize = PAGE + HDR;
pub const NFILES: u64 = 3;
pub const NPAGES: u32 = 6;

#[derive(Serialize, Deserialize, Clone, Debug, PartialEq)]
pub struct BFrame {
    pub file: u64,
    pub page: u32,
    pub db_size: u32,
    pub tag: u32,
}

#[derive(Serialize, Deserialize, Clone, Debug, PartialEq)]
#[serde(tag = "op", rename_all = "snake_case")]
pub enum Op {
    /// `Wal::write_frame_with_file_id`
    Write { file: u64, page: u32, db_size: u32, tag: u32 },
    /// `Wal::write_frames_batch` (sync = true) / `write_frames_batch_no_sync` (sync = false)
    Batch { frames: Vec<BFrame>, sync: bool },
    /// `Wal::write_undo_frame`
    Undo { table: u32, txn: u32, page: u32, db_size: u32, tag: u32 },
    Rotate,
    Truncate,
    Sync,
    SyncMode { mode: String },
    /// drop the `Wal`, `Wal::open` the same directory
    Reopen,
    /// crash with a damaged tail: drop the `Wal`, damage the frame `back` frames before the end
    /// of the newest segment (one flipped byte, or the whole frame zeroed), `Wal::open` again.
    /// The valid prefix of that segment ends before the damaged frame; what is appended
    /// afterwards must follow it directly.
    DamageReopen { back: u32, how: String },
    /// `Wal::sync` followed by `Wal::read_page` for every (file, page) of the page space
    ReadPages,
}

impl Op {
    pub fn kind(&self) -> &'static str {
        match self {
            Op::Write { .. } => "write",
            Op::Batch { sync: true, .. } => "batch",
            Op::Batch { sync: false, .. } => "batch_no_sync",
            Op::Undo { .. } => "undo",
            Op::Rotate => "rotate",
            Op::Truncate => "truncate",
            Op::Sync => "sync",
            Op::SyncMode { .. } => "syncmode",
            Op::Reopen => "reopen",
            Op::DamageReopen { .. } => "damage_reopen",
            Op::ReadPages => "read_pages",
        }
    }
}

pub fn undo_file_id(table: u32, txn: u32) -> u64 {
    (0x02u64 << 56) | (((table & 0x00FF_FFFF) as u64) << 32) | (txn as u64)
}

/// One frame of the model.
#[derive(Clone, Debug, PartialEq)]
pub struct MFrame {
    /// header `file_id` (for undo frames the encoded type/table/txn word)
    pub fid: u64,
    pub page: u32,
    pub db_size: u32,
    pub tag: u32,
    pub undo: bool,
    pub op_idx: usize,
}

#[derive(Clone, Debug, Default)]
pub struct Model {
    /// segment sequence number -> frames in write order
    pub segs: BTreeMap<u64, Vec<MFrame>>,
    pub cur: u64,
    /// every tag ever written -> (fid, page)
    pub tags: BTreeMap<u32, (u64, u32)>,
    /// tags of frames removed by `truncate`
    pub truncated: BTreeSet<u32>,
    // ---- history shape (model-level facts only)
    /// the current segment was non-empty when this `Wal` instance opened it
    opened_nonempty: bool,
    /// this instance wrote frames into the current segment and then truncated it
    truncated_after_own_writes: bool,
    /// frames written by this instance into the current segment
    own_writes_in_cur: u64,
    /// frames written since the last flush point while the sync mode does not flush per frame
    unflushed: u64,
    sync_full: bool,
    pub shape: BTreeSet<&'static str>,
    pub n_rotate: u64,
    pub n_truncate: u64,
    pub n_reopen: u64,
    pub n_reopen_append: u64,
    pub n_truncate_append: u64,
    pub n_frames_written: u64,
}

#[derive(Clone, Copy, Debug, PartialEq, Eq)]
pub enum Proj {
    /// `Wal::recover`: every frame, by page number only
    All,
    /// `recover_for_file` / `replay_segments_to_storage`: frames whose header file id equals this
    File(u64),
}

impl Model {
    pub fn new() -> Model {
        let mut m = Model { cur: 1, sync_full: true, ..Default::default() };
        m.segs.insert(1, vec![]);
        m
    }

    fn push(&mut self, f: MFrame) {
        self.tags.insert(f.tag, (f.fid, f.page));
        self.segs.entry(self.cur).or_default().push(f);
        self.n_frames_written += 1;
        self.own_writes_in_cur += 1;
        if self.opened_nonempty {
            self.shape.insert("reopen-append");
            self.n_reopen_append += 1;
        }
        if self.truncated_after_own_writes {
            self.shape.insert("truncate-append");
            self.n_truncate_append += 1;
        }
    }

    pub fn apply(&mut self, idx: usize, op: &Op) {
        match op {
            Op::Write { file, page, db_size, tag } => {
                self.push(MFrame { fid: *file, page: *page, db_size: *db_size, tag: *tag, undo: false, op_idx: idx });
                if !self.sync_full {
                    self.unflushed += 1;
                }
            }
            Op::Batch { frames, sync } => {
                for f in frames {
                    self.push(MFrame { fid: f.file, page: f.page, db_size: f.db_size, tag: f.tag, undo: false, op_idx: idx });
                }
                if *sync && self.sync_full {
                    self.unflushed = 0;
                } else {
                    self.unflushed += frames.len() as u64;
                }
            }
            Op::Undo { table, txn, page, db_size, tag } => {
                self.push(MFrame { fid: undo_file_id(*table, *txn), page: *page, db_size: *db_size, tag: *tag, undo: true, op_idx: idx });
                if !self.sync_full {
                    self.unflushed += 1;
                }
            }
            Op::Rotate => {
                self.cur += 1;
                self.segs.insert(self.cur, vec![]);
                self.opened_nonempty = false;
                self.truncated_after_own_writes = false;
                self.own_writes_in_cur = 0;
                self.unflushed = 0;
                self.n_rotate += 1;
            }
            Op::Truncate => {
                for (_, fs) in self.segs.iter() {
                    for f in fs {
                        self.truncated.insert(f.tag);
                    }
                }
                // the frames earlier hazards acted on are gone with the log
                self.shape.clear();
                if self.unflushed > 0 {
                    self.shape.insert("buffered-truncate");
                }
                self.segs.clear();
                self.segs.insert(self.cur, vec![]);
                if self.own_writes_in_cur > 0 {
                    self.truncated_after_own_writes = true;
                }
                self.opened_nonempty = false;
                self.unflushed = 0;
                self.n_truncate += 1;
            }
            Op::Sync | Op::ReadPages => {
                self.unflushed = 0;
            }
            Op::SyncMode { mode } => {
                self.sync_full = mode == "full";
            }
            Op::DamageReopen { back, .. } => {
                let cur = self.segs.keys().next_back().copied().unwrap_or(1);
                if let Some(fs) = self.segs.get_mut(&cur) {
                    let n = fs.len();
                    if n > *back as usize {
                        let idx = n - 1 - *back as usize;
                        for f in fs.drain(idx..) {
                            self.truncated.insert(f.tag);
                        }
                        self.shape.insert("damaged-tail-reopen");
                    }
                }
                self.apply(idx, &Op::Reopen);
                self.n_reopen -= 0;
            }
            Op::Reopen => {
                // Wal::open continues with the highest-numbered segment
                self.cur = self.segs.keys().next_back().copied().unwrap_or(1);
                self.opened_nonempty = !self.segs.get(&self.cur).map(|v| v.is_empty()).unwrap_or(true);
                self.truncated_after_own_writes = false;
                self.own_writes_in_cur = 0;
                self.unflushed = 0;
                self.sync_full = true;
                self.n_reopen += 1;
            }
        }
    }

    /// The log as one frame sequence (segments in ascending order).
    pub fn sequence(&self) -> Vec<(u64, usize, MFrame)> {
        let mut out = vec![];
        for (s, fs) in &self.segs {
            for (i, f) in fs.iter().enumerate() {
                out.push((*s, i, f.clone()));
            }
        }
        out
    }

    pub fn is_sync_full(&self) -> bool {
        self.sync_full
    }

    /// Model-level facts about the history that matter for what recovery has to cope with.
    pub fn shape_fields(&self) -> Vec<&'static str> {
        let mut s: Vec<&'static str> = self.shape.iter().copied().collect();
        let last = self.segs.keys().next_back().copied().unwrap_or(1);
        if self.segs.iter().any(|(k, v)| *k != last && !v.is_empty()) {
            s.push("closed-segment-frames");
        }
        s
    }

    pub fn shape_string(&self) -> String {
        let s = self.shape_fields();
        if s.is_empty() {
            "plain".into()
        } else {
            s.join("+")
        }
    }
}

pub fn matches(proj: Proj, f: &MFrame) -> bool {
    match proj {
        Proj::All => true,
        Proj::File(id) => f.fid == id,
    }
}

/// page -> tag after applying the first `k` frames under the projection; also the number of
/// frames applied.
pub fn state_after(seq: &[(u64, usize, MFrame)], k: usize, proj: Proj) -> (BTreeMap<u32, u32>, u32) {
    let mut st = BTreeMap::new();
    let mut n = 0;
    for (_, _, f) in seq.iter().take(k) {
        if matches(proj, f) {
            st.insert(f.page, f.tag);
            n += 1;
        }
    }
    (st, n)
}

// ---------------------------------------------------------------------------------------------
// page images
// ---------------------------------------------------------------------------------------------

pub const BASE_BYTE: u8 = 0xEE;

fn word(tag: u32) -> [u8; 8] {
    let b1 = 0x80 | (tag & 0x7f) as u8;
    let b2 = 0x80 | ((tag >> 7) & 0x7f) as u8;
    let b3 = 0x80 | ((tag >> 14) & 0x7f) as u8;
    [0xC3, b1, b2, b3, 0x5A, b1 ^ 0x55, b2 ^ 0x55, b3 ^ 0x55]
}

/// 16 KiB image of write number `tag`: no byte is zero, every 8-byte word names the tag.
pub fn fill(tag: u32) -> Vec<u8> {
    let w = word(tag);
    let mut v = Vec::with_capacity(PAGE);
    for _ in 0..PAGE / 8 {
        v.extend_from_slice(&w);
    }
    v
}

#[derive(Clone, Copy, Debug, PartialEq, Eq, PartialOrd, Ord, Hash)]
pub enum Img {
    Tag(u32),
    Zero,
    /// the pre-recovery sentinel content of the storage file
    Base,
    /// the page does not exist in the storage
    Absent,
    Garbage(u64),
}

impl Img {
    pub fn show(&self) -> String {
        match self {
            Img::Tag(t) => format!("img#{}", t),
            Img::Zero => "all-zero".into(),
            Img::Base => "untouched".into(),
            Img::Absent => "absent".into(),
            Img::Garbage(h) => format!("garbage:{:08x}", (*h & 0xffff_ffff) as u32),
        }
    }
}

pub fn decode(p: &[u8]) -> Img {
    if p.iter().all(|b| *b == 0) {
        return Img::Zero;
    }
    if p.iter().all(|b| *b == BASE_BYTE) {
        return Img::Base;
    }
    if p.len() == PAGE && p[0] == 0xC3 && p[4] == 0x5A && p[1] & 0x80 != 0 && p[2] & 0x80 != 0 && p[3] & 0x80 != 0 {
        let tag = (p[1] & 0x7f) as u32 | (((p[2] & 0x7f) as u32) << 7) | (((p[3] & 0x7f) as u32) << 14);
        let w = word(tag);
        if p.chunks_exact(8).all(|c| c == w) {
            return Img::Tag(tag);
        }
    }
    Img::Garbage(simcore::rng::fnv1a(p))
}
