//! Thorough tier: crash images of the history itself (filled in after the file-level enumeration).

use crate::engine::{Acc, CaseSpec};
use serde::{Deserialize, Serialize};
use std::path::Path;

#[derive(Serialize, Deserialize, Clone, Debug, PartialEq)]
pub struct CrashSel {
    pub ordinal: u64,
    pub model: String,
}

pub fn run_crash_points(_spec: &CaseSpec, _root: &Path, _seed: u64, _acc: &mut Acc, _only: Option<&CrashSel>) -> Result<(), String> {
    Ok(())
}
