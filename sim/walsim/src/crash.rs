//! Thorough tier: crash images of the history itself, taken by simdisk at every write / fsync /
//! ftruncate of the run (state just before the call), under three crash models: `kill` (all
//! completed write() calls survive), `power-strict` (only fsynced content survives) and
//! `power-random` (each unsynced 4 KiB block independently survives or not).
//!
//! Oracle, `kill` image: the recovered log must be, segment by segment, a prefix of the frames
//! the model has for that segment — at least the frames known to be flushed to the file before
//! the operation during which the image was taken, at most the frames issued up to and
//! including that operation.
//! Oracle, power images: a power image is the kill image of the same crash point with unsynced
//! bytes lost, i.e. the kill image plus a stored-byte fault. C03 promises no durability (that is
//! C01/C02), so the expectation is the same as for the enumerated file faults: exactly the
//! frames before the first damaged byte (strict prefix), or — when every damaged closed segment
//! merely ends early in zeros / end-of-file on a frame boundary, which no reader can tell from
//! a shorter segment — each segment's intact frames.

use crate::engine::{Acc, CaseSpec, Proto};
use crate::exec::{self, ExecOut, RecoverPlan, Runner};
use crate::model::*;
use serde::{Deserialize, Serialize};
use std::collections::{BTreeMap, BTreeSet};
use std::path::Path;

#[derive(Serialize, Deserialize, Clone, Debug, PartialEq)]
pub struct CrashSel {
    /// simdisk crash-point ordinal; None = every point (used while shrinking)
    pub ordinal: Option<u64>,
    /// "kill" | "power-strict" | "power-random(n)"
    pub model: String,
    /// simdisk seed of the run that found it (decides which unsynced blocks a power-random
    /// image keeps)
    #[serde(default)]
    pub seed: u64,
}

#[derive(Clone, Debug, Default)]
struct Lo {
    /// per segment: frames certainly in the file / certainly durable
    kill: BTreeMap<u64, usize>,
    power: BTreeMap<u64, usize>,
}

fn seg_counts(m: &Model) -> BTreeMap<u64, usize> {
    m.segs.iter().map(|(s, v)| (*s, v.len())).collect()
}

fn update_lo(lo: &mut Lo, op: &Op, pre: &Model, post: &Model) {
    let cur = post.cur;
    let n_cur = post.segs.get(&cur).map(|v| v.len()).unwrap_or(0);
    match op {
        Op::Write { .. } | Op::Undo { .. } | Op::Batch { sync: true, .. } => {
            if pre.is_sync_full() {
                lo.kill.insert(cur, n_cur);
                lo.power.insert(cur, n_cur);
            }
        }
        Op::Batch { sync: false, .. } | Op::SyncMode { .. } => {}
        Op::Sync | Op::ReadPages => {
            lo.kill.insert(cur, n_cur);
            lo.power.insert(cur, n_cur);
        }
        Op::Rotate => {
            let old = pre.cur;
            lo.kill.insert(old, pre.segs.get(&old).map(|v| v.len()).unwrap_or(0));
        }
        Op::DamageReopen { .. } => {
            // (histories with this operation are not run in crash-image mode)
        }
        Op::Reopen => {
            let old = pre.cur;
            lo.kill.insert(old, pre.segs.get(&old).map(|v| v.len()).unwrap_or(0));
        }
        Op::Truncate => {
            lo.kill.clear();
            lo.power.clear();
        }
    }
}

/// All acceptable (per-segment prefix) frame sequences, as lists of frames.
type SFrame = (u64, MFrame);

fn allowed_sequences(model: &Model, lo: &BTreeMap<u64, usize>, hi: &BTreeMap<u64, usize>, relax_seg: Option<u64>, cap: usize) -> Vec<Vec<SFrame>> {
    let mut out: Vec<Vec<SFrame>> = vec![vec![]];
    for (s, fs) in &model.segs {
        let h = hi.get(s).copied().unwrap_or(fs.len()).min(fs.len());
        let mut l = lo.get(s).copied().unwrap_or(0).min(h);
        if relax_seg == Some(*s) {
            l = 0;
        }
        let mut next = vec![];
        for base in &out {
            for k in l..=h {
                let mut v = base.clone();
                v.extend(fs[..k].iter().map(|f| (*s, f.clone())));
                next.push(v);
                if next.len() >= cap {
                    break;
                }
            }
        }
        out = next;
    }
    out
}

fn state_of(frames: &[SFrame], proj: Proj) -> (BTreeMap<u32, u32>, u32) {
    let mut st = BTreeMap::new();
    let mut n = 0;
    for (_, f) in frames {
        if matches(proj, f) {
            st.insert(f.page, f.tag);
            n += 1;
        }
    }
    (st, n)
}

fn img_matches(st: &BTreeMap<u32, u32>, pages: &[Img], init_pages: u32) -> bool {
    let top = (pages.len() as u32).max(NPAGES + 2);
    (0..top).all(|p| {
        let obs = pages.get(p as usize).copied().unwrap_or(Img::Absent);
        let exp = match st.get(&p) {
            Some(t) => Img::Tag(*t),
            None if p < init_pages => Img::Base,
            None => Img::Zero,
        };
        exp == obs || (p >= init_pages && exp == Img::Zero && obs == Img::Absent)
    })
}

fn wal_files(img: &simdisk::Image) -> BTreeMap<u64, std::sync::Arc<Vec<u8>>> {
    let mut m = BTreeMap::new();
    for (rel, data) in &img.files {
        if let Some(name) = rel.strip_prefix("wal/wal.") {
            if let Ok(s) = name.parse::<u64>() {
                m.insert(s, data.clone());
            }
        }
    }
    m
}

/// The model frames a (kill) image physically holds, read off its bytes; None if the files do
/// not look like per-segment prefixes of the model log.
fn frames_in_files(model: &Model, files: &BTreeMap<u64, std::sync::Arc<Vec<u8>>>) -> Option<Vec<SFrame>> {
    let mut out = vec![];
    for (s, data) in files {
        let fs = match model.segs.get(s) {
            Some(f) => f,
            None if data.is_empty() => continue,
            None => return None,
        };
        if data.len() % FRAME != 0 || data.len() / FRAME > fs.len() {
            return None;
        }
        for (i, f) in fs.iter().take(data.len() / FRAME).enumerate() {
            let b = &data[i * FRAME..(i + 1) * FRAME];
            let fid = u64::from_le_bytes(b[0..8].try_into().ok()?);
            let page = u32::from_le_bytes(b[8..12].try_into().ok()?);
            if fid != f.fid || page != f.page || decode(&b[HDR..]) != Img::Tag(f.tag) {
                return None;
            }
            out.push((*s, f.clone()));
        }
    }
    Some(out)
}

/// What a power image (= kill image with bytes lost) may recover to, given the frames `fk` the
/// kill image holds: the strict prefix before the first damaged byte and, if every damage in a
/// closed segment is a clean early end, each segment's intact frames.
fn power_expectations(fk: &[SFrame], kfiles: &BTreeMap<u64, std::sync::Arc<Vec<u8>>>, pfiles: &BTreeMap<u64, std::sync::Arc<Vec<u8>>>) -> Vec<Vec<SFrame>> {
    let last = kfiles.keys().next_back().copied().unwrap_or(1);
    let mut strict: Vec<SFrame> = vec![];
    let mut per_seg: Vec<SFrame> = vec![];
    let mut stopped = false;
    let mut all_clean = true;
    for (s, kd) in kfiles {
        let empty = std::sync::Arc::new(Vec::new());
        let pd = pfiles.get(s).unwrap_or(&empty);
        let common = kd.len().min(pd.len());
        let first_diff = (0..common).find(|i| kd[*i] != pd[*i]).or(if kd.len() != pd.len() { Some(common) } else { None });
        let frames_here: Vec<&SFrame> = fk.iter().filter(|(fs, _)| fs == s).collect();
        let intact = match first_diff {
            None => frames_here.len(),
            Some(d) => frames_here.len().min(d / FRAME),
        };
        if let Some(d) = first_diff {
            let clean = d % FRAME == 0 && pd[d.min(pd.len())..].iter().all(|b| *b == 0);
            if !clean && *s != last {
                all_clean = false;
            }
        }
        per_seg.extend(frames_here.iter().take(intact).map(|f| (*f).clone()));
        if !stopped {
            strict.extend(frames_here.iter().take(intact).map(|f| (*f).clone()));
            if first_diff.is_some() {
                stopped = true;
            }
        }
    }
    let mut out = vec![strict];
    if all_clean {
        out.push(per_seg);
    }
    out
}

pub fn run_crash_points(spec: &CaseSpec, root: &Path, seed: u64, acc: &mut Acc, only: Option<&CrashSel>) -> Result<(), String> {
    if spec.ops.iter().any(|o| matches!(o, Op::DamageReopen { .. })) {
        // the harness itself rewrites a segment file in such a history: no crash images
        return Ok(());
    }
    let sim_root = root.join("crashroot");
    let _ = std::fs::remove_dir_all(&sim_root);
    std::fs::create_dir_all(&sim_root).map_err(|e| format!("mkdir {}: {}", sim_root.display(), e))?;
    let sim_root_s = sim_root.to_str().ok_or("bad scratch path")?.to_string();
    simdisk::install(&sim_root_s, seed);
    let want_model = only.map(|o| o.model.clone());
    simdisk::with(|s| {
        s.capture = Some(simdisk::CapturePolicy {
            // the kill image of a point is the reference for its power images: always taken
            kill: true,
            power_strict: want_model.as_deref().map_or(true, |m| m == "power-strict"),
            power_random: if want_model.as_deref().map_or(true, |m| m.starts_with("power-random")) { 1 } else { 0 },
            kinds: vec!['W', 'S', 'T'],
            only_ordinal: only.and_then(|o| o.ordinal),
            max_points: 100_000,
        })
    });
    let wal_dir = sim_root.join("wal");
    let mut out = ExecOut { model: Model::new(), ..Default::default() };
    let mut runner = Runner::start(spec.start == "open", &wal_dir, &mut out);
    let _ = simdisk::take_images();
    let mut lo = Lo::default();
    let img_dir = root.join("img");
    let mut result = Ok(());
    let n_ops = spec.ops.len();
    // the final drop of the Wal is one more "operation" (it flushes)
    for i in 0..=n_ops {
        simdisk::begin_op();
        let pre = out.model.clone();
        let op_kind: String;
        let is_truncate;
        if i < n_ops {
            let op = &spec.ops[i];
            op_kind = op.kind().to_string();
            is_truncate = matches!(op, Op::Truncate);
            let cont = runner.step(i, op, &mut out);
            if !cont {
                break;
            }
        } else {
            op_kind = "drop".into();
            is_truncate = false;
            runner.finish(n_ops, &mut out);
        }
        let post = out.model.clone();
        let images = simdisk::take_images();
        let hi = seg_counts(&post);
        let model_ref = if is_truncate { &pre } else { &post };
        let mut seen_images: BTreeSet<u64> = BTreeSet::new();
        // per crash point: the frames its kill image holds (None = the kill image itself was wrong)
        let mut kill_ref: BTreeMap<u64, Option<(Vec<SFrame>, BTreeMap<u64, std::sync::Arc<Vec<u8>>>)>> = BTreeMap::new();
        for img in images {
            let model_name = img.model.as_str();
            let model_class = model_name.split('(').next().unwrap_or("").to_string();
            let kill = img.model == simdisk::CrashModel::Kill;
            let wanted = want_model.as_deref().map_or(true, |m| m == model_name);
            acc.out.count(&format!("crash_points/{}/{}", img.point.kind, model_class), 1);
            if !kill && !seen_images.insert(img.hash ^ simcore::rng::fnv1a(model_name.as_bytes())) {
                acc.out.count("crash_images_identical_skipped", 1);
                continue;
            }
            // acceptable logs
            let allowed: Vec<Vec<SFrame>> = if kill {
                let mut a = vec![];
                if is_truncate {
                    a.extend(allowed_sequences(&pre, &lo.kill, &seg_counts(&pre), Some(pre.cur), 4000));
                    a.push(vec![]);
                } else {
                    a.extend(allowed_sequences(&post, &lo.kill, &hi, None, 4000));
                }
                a
            } else {
                match kill_ref.get(&img.point.ordinal) {
                    Some(Some((fk, kfiles))) => power_expectations(fk, kfiles, &wal_files(&img)),
                    _ => {
                        acc.out.count("crash_power_images_without_sound_kill_reference", 1);
                        continue;
                    }
                }
            };
            let _ = std::fs::remove_dir_all(&img_dir);
            simdisk::write_image(&img, img_dir.to_str().unwrap_or("/dev/shm/walsim-img"));
            let plan = RecoverPlan { init_pages: 8, for_files: (0..NFILES).collect(), replay_files: vec![], read_pages: false };
            let rec = match exec::recover_dir(&img_dir.join("wal"), &root.join("st"), &plan, &mut acc.pool) {
                Ok(r) => r,
                Err(e) => {
                    result = Err(e);
                    break;
                }
            };
            acc.note_recovered(&rec);
            acc.out.count("crash_images_recovered", 1);
            acc.out.count(&format!("crash_images_recovered/{}", model_class), 1);
            acc.combos.insert(format!("crash|{}|{}|{}", img.point.kind, model_class, op_kind));
            let mut sig: BTreeMap<String, String> = BTreeMap::new();
            sig.insert("api".into(), "recover".into());
            sig.insert("fault".into(), "crash".into());
            sig.insert("crash_model".into(), model_class.clone());
            sig.insert("during".into(), op_kind.clone());
            for f in model_ref.shape_fields() {
                sig.insert(f.to_string(), "yes".into());
            }
            let where_txt = format!(
                "{} image at crash point #{} ({} on {} at {}) during op #{} ({})",
                model_name, img.point.ordinal, img.point.kind, img.point.file, img.point.at, i, op_kind
            );
            let mut proto: Option<Proto> = None;
            let mut matched: Option<Vec<SFrame>> = None;
            if let Some(site) = &rec.open_panic {
                sig.insert("site".into(), site.clone());
                proto = Some(Proto { verdict: "panic".into(), sig: sig.clone(), detail: format!("Wal::open panicked at {}: {}", site, where_txt) });
            } else if let Some(e) = &rec.open_err {
                proto = Some(Proto { verdict: "recover-error-on-damaged-log".into(), sig: sig.clone(), detail: format!("Wal::open returned Err({}): {}", e, where_txt) });
            } else {
                for a in &rec.apis {
                    if let Some(site) = &a.panic {
                        sig.insert("site".into(), site.clone());
                        proto = Some(Proto { verdict: "panic".into(), sig: sig.clone(), detail: format!("{} panicked at {}: {}", a.api, site, where_txt) });
                        break;
                    }
                    let n = match &a.result {
                        Ok(n) => *n,
                        Err(e) => {
                            proto = Some(Proto { verdict: "recover-error-on-damaged-log".into(), sig: sig.clone(), detail: format!("{} returned Err({}): {}", a.api, e, where_txt) });
                            break;
                        }
                    };
                    let hit = allowed.iter().find(|fr| {
                        let (st, cnt) = state_of(fr, a.proj);
                        cnt == n && img_matches(&st, &a.pages, 8)
                    });
                    if let Some(fr) = hit {
                        if a.proj == Proj::All {
                            matched = Some(fr.clone());
                        }
                        continue;
                    }
                    // classify against the largest acceptable log
                    let largest: Vec<SFrame> = allowed.iter().max_by_key(|f| f.len()).cloned().unwrap_or_default();
                    let (st_full, _) = state_of(&largest, a.proj);
                    let state_ok = allowed.iter().any(|fr| img_matches(&state_of(fr, a.proj).0, &a.pages, 8));
                    let mut verdict = if state_ok { "applied-count-mismatch" } else { "valid-frame-lost" };
                    let mut notes = vec![];
                    if !state_ok {
                        let mut best = 99;
                        for p in 0..(a.pages.len() as u32).max(NPAGES + 2) {
                            let obs = a.pages.get(p as usize).copied().unwrap_or(Img::Absent);
                            let exp = st_full.get(&p).map(|t| Img::Tag(*t)).unwrap_or(Img::Base);
                            if obs == exp {
                                continue;
                            }
                            let (prio, v): (u32, &str) = match obs {
                                Img::Zero => (1, "hole-replayed-as-frame"),
                                Img::Garbage(_) => (2, "garbage-page-applied"),
                                Img::Tag(t) => match model_ref.tags.get(&t) {
                                    None => (2, "garbage-page-applied"),
                                    Some((fid, page)) => {
                                        let wrong_file = matches!(a.proj, Proj::File(f) if f != *fid);
                                        let in_model = model_ref.sequence().iter().any(|(_, _, f)| f.tag == t);
                                        if *page != p || wrong_file {
                                            (3, "misattributed-frame")
                                        } else if !in_model {
                                            (4, "truncated-frame-replayed")
                                        } else if !largest.iter().any(|(_, f)| f.tag == t) {
                                            (5, "recovered-beyond-corruption")
                                        } else {
                                            (7, "stale-image-wins")
                                        }
                                    }
                                },
                                _ => (6, "valid-frame-lost"),
                            };
                            notes.push(format!("page {}: acceptable at most {}, found {}", p, exp.show(), obs.show()));
                            if prio < best {
                                best = prio;
                                verdict = v;
                            }
                        }
                    }
                    let acc_txt: Vec<String> = allowed
                        .iter()
                        .take(3)
                        .map(|fr| format!("[{}]", fr.iter().map(|(s, f)| format!("seg{}:#{}", s, f.tag)).collect::<Vec<_>>().join(" ")))
                        .collect();
                    let found: Vec<String> = a.pages.iter().enumerate().filter(|(_, i)| !matches!(i, Img::Base)).map(|(p, i)| format!("p{}={}", p, i.show())).collect();
                    proto = Some(Proto {
                        verdict: verdict.into(),
                        sig: sig.clone(),
                        detail: format!(
                            "{}: {}({:?}) recovered {{{}}} with {} frames applied; {} acceptable logs, e.g. {}{}; {}",
                            where_txt,
                            a.api,
                            a.proj,
                            found.join(" "),
                            n,
                            allowed.len(),
                            acc_txt.join(" / "),
                            if kill { " (per segment: at least the frames flushed before this operation, at most those issued so far)" } else { " (frames of the kill image of this point before the first lost byte)" },
                            notes.join("; ")
                        ),
                    });
                    break;
                }
            }
            if kill {
                let kf = wal_files(&img);
                let reference = if proto.is_none() && matched.is_some() { frames_in_files(model_ref, &kf).map(|m| (m, kf)) } else { None };
                kill_ref.insert(img.point.ordinal, reference);
            }
            if let Some(p) = proto {
                if wanted {
                    let mut case = spec.clone();
                    case.fault = None;
                    case.crash = Some(CrashSel { ordinal: Some(img.point.ordinal), model: img.model.as_str(), seed });
                    acc.push(p, &case);
                }
            }
        }
        if result.is_err() {
            break;
        }
        if i < n_ops {
            update_lo(&mut lo, &spec.ops[i], &pre, &post);
        }
    }
    simdisk::with(|s| s.capture = None);
    result
}
