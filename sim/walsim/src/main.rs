//! walsim — decides C03 (WAL replay applies exactly the longest valid frame prefix) by seeded
//! deterministic simulation of `turdb::storage::Wal` with enumerated stored-byte faults.

mod crash;
mod engine;
mod exec;
mod faults;
mod model;

use simcore::driver::{self, CheckSpec, Engine};
use simcore::pool::{self, JobStatus, PoolCfg};
use simcore::Tier;
use std::time::Duration;

const PROFILE: &str = "wal@C03";
const QUICK_RUNS: u64 = 600;
const THOROUGH_RUNS: u64 = 900;

fn arg_value(args: &[String], flag: &str) -> Option<String> {
    args.iter().position(|a| a == flag).and_then(|i| args.get(i + 1).cloned())
}

fn env_u64(k: &str) -> Option<u64> {
    std::env::var(k).ok().and_then(|v| v.parse().ok())
}

fn workers() -> usize {
    env_u64("VSIM_WORKERS")
        .map(|v| v as usize)
        .unwrap_or_else(|| std::thread::available_parallelism().map(|n| n.get()).unwrap_or(8).min(16))
}

fn cmd_check(args: &[String]) -> i32 {
    let id = match args.first() {
        Some(i) => i.clone(),
        None => {
            eprintln!("usage: walsim check C03 [--tier quick|thorough] [--seed N] [--runs N]");
            return 2;
        }
    };
    if id != "C03" {
        eprintln!("unknown property {} (walsim serves C03)", id);
        return 2;
    }
    let tier = Tier::parse(&arg_value(args, "--tier").or_else(|| std::env::var("VERIF_TIER").ok()).unwrap_or_else(|| "quick".into()));
    let seed = arg_value(args, "--seed").and_then(|s| s.parse().ok()).or_else(|| env_u64("VERIF_SEED")).unwrap_or(1);
    let runs = arg_value(args, "--runs")
        .and_then(|s| s.parse().ok())
        .or_else(|| env_u64("VSIM_RUNS"))
        .unwrap_or(if tier == Tier::Thorough { THOROUGH_RUNS } else { QUICK_RUNS });
    let spec = CheckSpec {
        property: "C03".into(),
        profile: PROFILE.into(),
        tier,
        seed,
        runs,
        workers: workers(),
        run_timeout: Duration::from_secs(if tier == Tier::Thorough { 300 } else { 120 }),
        batch_budget: Duration::from_secs(if tier == Tier::Thorough { 840 } else { 150 }),
        level: "fault_enumeration".into(),
        also_owns: vec![],
        min_budget_runs: if tier == Tier::Thorough { 600 } else { 300 },
        min_budget_wall: Duration::from_secs(if tier == Tier::Thorough { 30 } else { 12 }),
        max_minimise: if tier == Tier::Thorough { 48 } else { 32 },
    };
    driver::run_check(&engine::WalSim, &spec)
}

fn cmd_replay(args: &[String]) -> i32 {
    match args.first() {
        Some(p) => driver::replay(&engine::WalSim, std::path::Path::new(p)),
        None => {
            eprintln!("usage: walsim replay <file>");
            2
        }
    }
}

/// `walsim run1 <profile> <seed> <run> [tier]`
fn cmd_run1(args: &[String]) -> i32 {
    if args.len() < 3 {
        eprintln!("usage: walsim run1 <profile> <seed> <run> [tier]");
        return 2;
    }
    let e = engine::WalSim;
    let profile = args[0].clone();
    let seed: u64 = args[1].parse().unwrap_or(1);
    let run: u64 = args[2].parse().unwrap_or(0);
    let tier = Tier::parse(args.get(3).map(|s| s.as_str()).unwrap_or("quick"));
    let base = pool::default_scratch_base();
    let cfg = PoolCfg { workers: 1, timeout: Duration::from_secs(600), scratch: base.join("run1"), deadline: None };
    let res = pool::run_jobs(&cfg, &[run], |j| e.run_seeded(&profile, seed, j, tier));
    pool::cleanup(&base);
    for (_, st) in res {
        match st {
            JobStatus::Done(o) => {
                println!("{}", serde_json::to_string_pretty(&o.sample).unwrap_or_default());
                println!("counters: {:?}", o.counters);
                println!("events_hash={:016x} nontrivial={} harness_error={:?}", o.events_hash, o.nontrivial, o.harness_error);
                for v in &o.violations {
                    println!("VIOL {} :: {}\n     case: {}", v.sig_string(), v.detail, v.case);
                }
            }
            other => println!("{:?}", other),
        }
    }
    0
}

/// `walsim selfcheck determinism <n> [seed] [tier]`: every seed twice, at two worker counts and
/// with a differently sized environment.
fn cmd_selfcheck(args: &[String]) -> i32 {
    if args.len() < 2 || args[0] != "determinism" {
        eprintln!("usage: walsim selfcheck determinism <n> [seed] [tier]");
        return 2;
    }
    let e = engine::WalSim;
    let n: u64 = args[1].parse().unwrap_or(300);
    let seed: u64 = args.get(2).and_then(|s| s.parse().ok()).unwrap_or(1);
    let tier = Tier::parse(args.get(3).map(|s| s.as_str()).unwrap_or("quick"));
    let base = pool::default_scratch_base();
    let jobs: Vec<u64> = (0..n).collect();
    let mut hashes: Vec<Vec<(u64, String)>> = vec![];
    for (round, w) in [(0, 5usize), (1, 16usize)] {
        let cfg = PoolCfg { workers: w, timeout: Duration::from_secs(300), scratch: base.join(format!("det{}", round)), deadline: None };
        if round == 1 {
            std::env::set_var("VSIM_PAD", "x".repeat(777));
        }
        let res = pool::run_jobs(&cfg, &jobs, |j| e.run_seeded(PROFILE, seed, j, tier));
        hashes.push(
            res.into_iter()
                .map(|(j, st)| match st {
                    JobStatus::Done(o) => {
                        let sigs: Vec<String> = o.violations.iter().map(|v| v.sig_string()).collect();
                        (j, format!("{:016x}/{}v/{:016x}/{:?}", o.events_hash, o.violations.len(), simcore::rng::fnv1a(sigs.join(";").as_bytes()), o.harness_error))
                    }
                    other => (j, format!("{:?}", other).chars().take(60).collect()),
                })
                .collect(),
        );
    }
    pool::cleanup(&base);
    let mut bad = 0;
    for (a, b) in hashes[0].iter().zip(hashes[1].iter()) {
        if a != b {
            println!("DIVERGED run {}: {} vs {}", a.0, a.1, b.1);
            bad += 1;
        }
    }
    println!("determinism: {} seed pairs, {} diverged", n, bad);
    if bad > 0 {
        1
    } else {
        0
    }
}

/// `walsim survey <profile> <n> [seed] [tier]`: signature histogram over n seeded runs.
fn cmd_survey(args: &[String]) -> i32 {
    if args.len() < 2 {
        eprintln!("usage: walsim survey <profile> <n> [seed] [tier]");
        return 2;
    }
    let e = engine::WalSim;
    let profile = args[0].clone();
    let n: u64 = args[1].parse().unwrap_or(100);
    let seed: u64 = args.get(2).and_then(|s| s.parse().ok()).unwrap_or(1);
    let tier = Tier::parse(args.get(3).map(|s| s.as_str()).unwrap_or("quick"));
    let base = pool::default_scratch_base();
    let cfg = PoolCfg { workers: workers(), timeout: Duration::from_secs(300), scratch: base.join("survey"), deadline: None };
    let jobs: Vec<u64> = (0..n).collect();
    let t0 = std::time::Instant::now();
    let res = pool::run_jobs(&cfg, &jobs, |j| e.run_seeded(&profile, seed, j, tier));
    pool::cleanup(&base);
    let mut hist: std::collections::BTreeMap<String, (u64, u64, String)> = Default::default();
    let mut counters: std::collections::BTreeMap<String, u64> = Default::default();
    let mut clean = 0;
    for (j, st) in res {
        match st {
            JobStatus::Done(o) => {
                for (k, v) in &o.counters {
                    *counters.entry(k.clone()).or_insert(0) += v;
                }
                if let Some(e) = &o.harness_error {
                    hist.entry(format!("HARNESS {}", e)).or_insert((0, j, String::new())).0 += 1;
                }
                if o.violations.is_empty() {
                    clean += 1;
                }
                let mut seen = std::collections::BTreeSet::new();
                for v in &o.violations {
                    if seen.insert(v.sig_string()) {
                        hist.entry(v.sig_string()).or_insert((0, j, v.detail.clone())).0 += 1;
                    }
                }
            }
            other => {
                hist.entry(format!("{:?}", other).chars().take(300).collect()).or_insert((0, j, String::new())).0 += 1;
            }
        }
    }
    let mut v: Vec<_> = hist.into_iter().collect();
    v.sort_by_key(|(_, (c, _, _))| std::cmp::Reverse(*c));
    println!("{} runs, {} clean, {:.1}s", n, clean, t0.elapsed().as_secs_f64());
    println!("counters: {:#?}", counters);
    for (sig, (c, j, d)) in v {
        let d: String = d.chars().take(900).collect();
        println!("{:5}x run{} {}\n        {}", c, j, sig, d);
    }
    0
}

fn main() {
    let args: Vec<String> = std::env::args().collect();
    simcore::noaslr::ensure();
    simdisk::plug_hash_order();
    let code = match args.get(1).map(|s| s.as_str()) {
        Some("check") => cmd_check(&args[2..]),
        Some("replay") => cmd_replay(&args[2..]),
        Some("run1") => cmd_run1(&args[2..]),
        Some("selfcheck") => cmd_selfcheck(&args[2..]),
        Some("survey") => cmd_survey(&args[2..]),
        _ => {
            eprintln!("usage: walsim check C03 [--tier quick|thorough] [--seed N] [--runs N] | replay <file> | run1 <profile> <seed> <run> [tier] | survey <profile> <n> [seed] [tier] | selfcheck determinism <n> [seed] [tier]");
            2
        }
    };
    std::process::exit(code);
}
