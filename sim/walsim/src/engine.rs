//! The C03 engine: generated histories on the real `Wal`, reference model, enumerated stored-byte
//! faults on the final segment files, recovery through every public replay entry point.

use crate::exec::{self, ApiRes, ExecOut, RecoverPlan, Recovered, RpRes};
use crate::faults::{self, Fault};
use crate::model::*;
use serde::{Deserialize, Serialize};
use serde_json::{json, Value};
use simcore::driver::{ddmin_keepsets, Engine};
use simcore::rng::{fnv1a, mix};
use simcore::{Rng, RunOutcome, Tier, Violation};
use std::collections::{BTreeMap, BTreeSet};
use std::path::Path;

pub struct WalSim;

#[derive(Serialize, Deserialize, Clone, Debug)]
pub struct CaseSpec {
    pub engine: String,
    /// "create" = `Wal::create`, "open" = `Wal::open` on the not yet existing directory
    pub start: String,
    pub ops: Vec<Op>,
    pub fault: Option<Fault>,
    /// pages of the storage files recovery writes into (all pre-filled with a sentinel)
    pub init_pages: u32,
    pub for_files: Vec<u64>,
    pub replay_files: Vec<u64>,
    pub read_pages: bool,
    /// crash-image cases (thorough tier): see crash.rs
    #[serde(default, skip_serializing_if = "Option::is_none")]
    pub crash: Option<crate::crash::CrashSel>,
}

#[derive(Clone, Debug)]
pub struct Proto {
    pub verdict: String,
    pub sig: BTreeMap<String, String>,
    pub detail: String,
}

fn hmix(h: &mut u64, v: u64) {
    *h = mix(*h, v);
}

// ---------------------------------------------------------------------------------------------
// generation
// ---------------------------------------------------------------------------------------------

pub fn gen_history(rng: &mut Rng, tier: Tier) -> (String, Vec<Op>) {
    let n_ops = if tier == Tier::Thorough { rng.range(4, 18) } else { rng.range(3, 12) } as usize;
    let start = if rng.chance(1, 6) { "open" } else { "create" }.to_string();
    let mut tag = 0u32;
    let mut ops = vec![];
    let mut next_tag = || {
        tag += 1;
        tag
    };
    // 0 write, 1 batch, 2 undo, 3 rotate, 4 truncate, 5 sync, 6 syncmode, 7 reopen, 8 read_pages
    // 9 damage_reopen
    let weights = [38u32, 14, 8, 8, 6, 5, 6, 11, 4, 4];
    for _ in 0..n_ops {
        let db_size = *rng.pick(&[0u32, 6, 8]);
        let op = match rng.weighted(&weights) {
            0 => Op::Write { file: rng.below(NFILES), page: rng.below(NPAGES as u64) as u32, db_size, tag: next_tag() },
            1 => {
                let n = rng.range(1, 4) as usize;
                let frames = (0..n)
                    .map(|_| BFrame { file: rng.below(NFILES), page: rng.below(NPAGES as u64) as u32, db_size, tag: next_tag() })
                    .collect();
                Op::Batch { frames, sync: rng.chance(2, 3) }
            }
            2 => Op::Undo {
                table: rng.range(1, 3) as u32,
                txn: rng.range(1, 4) as u32,
                page: rng.below(NPAGES as u64) as u32,
                db_size,
                tag: next_tag(),
            },
            3 => Op::Rotate,
            4 => Op::Truncate,
            5 => Op::Sync,
            6 => Op::SyncMode { mode: rng.pick(&["full", "normal", "off"]).to_string() },
            7 => Op::Reopen,
            9 => Op::DamageReopen { back: rng.below(3) as u32, how: rng.pick(&["flip", "zero"]).to_string() },
            _ => Op::ReadPages,
        };
        ops.push(op);
    }
    (start, ops)
}

// ---------------------------------------------------------------------------------------------
// oracle
// ---------------------------------------------------------------------------------------------

pub struct Ctx<'a> {
    pub model: &'a Model,
    pub seq: &'a [(u64, usize, MFrame)],
    pub init_pages: u32,
    pub fault: Option<&'a Fault>,
    /// number of frames of the model sequence that recovery must apply: all of them without a
    /// fault; with a fault, the frames that lie entirely before the first damaged byte
    pub k_exp: usize,
    /// A second acceptable outcome: all frames of this sequence applied. Used for faults that
    /// leave a closed (non-last) segment as "valid frames followed by end-of-file or zero bytes"
    /// (cut, zero-fill from a frame boundary, zero extension): no reader can tell lost frames
    /// from frames that never existed there, so stopping after that segment's valid frames and
    /// continuing with the next segment are both accepted.
    pub alt: Option<Vec<(u64, usize, MFrame)>>,
}

fn expected_img(st: &BTreeMap<u32, u32>, p: u32, init_pages: u32) -> Img {
    if let Some(t) = st.get(&p) {
        Img::Tag(*t)
    } else if p < init_pages {
        Img::Base
    } else {
        Img::Zero
    }
}

fn same_img(exp: Img, obs: Img, p: u32, init_pages: u32) -> bool {
    exp == obs || (p >= init_pages && exp == Img::Zero && obs == Img::Absent)
}

fn observed(res: &ApiRes, p: u32) -> Img {
    res.pages.get(p as usize).copied().unwrap_or(Img::Absent)
}

fn frame_index_of(seq: &[(u64, usize, MFrame)], tag: u32) -> Option<usize> {
    seq.iter().position(|(_, _, f)| f.tag == tag)
}

fn base_sig(ctx: &Ctx, api_group: &str) -> BTreeMap<String, String> {
    let mut sig = BTreeMap::new();
    sig.insert("api".to_string(), api_group.to_string());
    match ctx.fault {
        None => {
            sig.insert("fault".to_string(), "none".to_string());
            for f in ctx.model.shape_fields() {
                sig.insert(f.to_string(), "yes".to_string());
            }
        }
        Some(f) => {
            sig.insert("fault".to_string(), f.kind().to_string());
            if matches!(f, Fault::Flip { .. } | Fault::Extend { .. }) {
                sig.insert("at".to_string(), f.at());
            }
            let last = ctx.model.segs.keys().next_back().copied().unwrap_or(1);
            sig.insert("where".to_string(), if f.seg() == last { "last-segment" } else { "closed-segment" }.to_string());
        }
    }
    sig
}

/// Class of a single wrong image `obs` found where `exp` was expected (page `p`).
fn classify_image(ctx: &Ctx, proj: Proj, p: u32, exp: Img, obs: Img) -> (u32, &'static str) {
    match obs {
        Img::Zero if p < ctx.init_pages => (1, "hole-replayed-as-frame"),
        Img::Garbage(_) => (2, "garbage-page-applied"),
        Img::Tag(o) => match ctx.model.tags.get(&o) {
            None => (2, "garbage-page-applied"),
            Some((fid, page)) => {
                let wrong_file = matches!(proj, Proj::File(f) if f != *fid);
                if *page != p || wrong_file {
                    (3, "misattributed-frame")
                } else {
                    match frame_index_of(ctx.seq, o) {
                        None => (4, "truncated-frame-replayed"),
                        Some(gi) if gi >= ctx.k_exp => (5, "recovered-beyond-corruption"),
                        Some(_) => {
                            let _ = exp;
                            (7, "stale-image-wins")
                        }
                    }
                }
            }
        },
        _ => (6, "valid-frame-lost"),
    }
}

fn states_equal(st: &BTreeMap<u32, u32>, res: &ApiRes, init_pages: u32) -> bool {
    let top = (res.pages.len() as u32).max(NPAGES + 2);
    (0..top).all(|p| same_img(expected_img(st, p, init_pages), observed(res, p), p, init_pages))
}

fn show_state(st: &BTreeMap<u32, u32>) -> String {
    let v: Vec<String> = st.iter().map(|(p, t)| format!("p{}=img#{}", p, t)).collect();
    format!("{{{}}}", v.join(" "))
}

fn show_obs(res: &ApiRes) -> String {
    let v: Vec<String> = res
        .pages
        .iter()
        .enumerate()
        .filter(|(_, i)| !matches!(i, Img::Base))
        .map(|(p, i)| format!("p{}={}", p, i.show()))
        .collect();
    format!("{{{}}} of {} pages", v.join(" "), res.pages.len())
}

fn check_api(ctx: &Ctx, res: &ApiRes) -> Option<Proto> {
    let what = match res.proj {
        Proj::All => format!("{}()", res.api),
        Proj::File(f) => format!("{}(file_id={})", res.api, f),
    };
    let fault_txt = ctx.fault.map(|f| f.describe()).unwrap_or_else(|| "no fault".into());
    if let Some(site) = &res.panic {
        let mut sig = base_sig(ctx, "recover");
        sig.insert("site".into(), site.clone());
        return Some(Proto { verdict: "panic".into(), sig, detail: format!("{} panicked at {} ({})", what, site, fault_txt) });
    }
    let (st_exp, n_exp) = state_after(ctx.seq, ctx.k_exp, res.proj);
    if let (Some(alt), Ok(n)) = (&ctx.alt, &res.result) {
        let (st_alt, n_alt) = state_after(alt, alt.len(), res.proj);
        if states_equal(&st_alt, res, ctx.init_pages) && *n == n_alt {
            return None;
        }
    }
    let count = match &res.result {
        Ok(n) => *n,
        Err(e) => {
            let verdict = if ctx.fault.is_none() { "recover-error-on-intact-log" } else { "recover-error-on-damaged-log" };
            return Some(Proto {
                verdict: verdict.into(),
                sig: base_sig(ctx, "recover"),
                detail: format!("{} returned Err({}) ({}); {} of the log's {} frames are valid", what, e, fault_txt, ctx.k_exp, ctx.seq.len()),
            });
        }
    };
    let top = (res.pages.len() as u32).max(NPAGES + 2);
    let mut wrong: Vec<(u32, Img, Img)> = vec![];
    for p in 0..top {
        let e = expected_img(&st_exp, p, ctx.init_pages);
        let o = observed(res, p);
        if !same_img(e, o, p, ctx.init_pages) {
            wrong.push((p, e, o));
        }
    }
    let header = format!(
        "{} after [{}]: log has {} frames, the first {} form the longest valid prefix; expected pages {} ({} frames applied), recovered {} ({} frames applied)",
        what,
        fault_txt,
        ctx.seq.len(),
        ctx.k_exp,
        show_state(&st_exp),
        n_exp,
        show_obs(res),
        count
    );
    if wrong.is_empty() {
        if count != n_exp {
            let mut sig = base_sig(ctx, "recover");
            sig.insert("direction".into(), if count > n_exp { "more" } else { "fewer" }.into());
            return Some(Proto { verdict: "applied-count-mismatch".into(), sig, detail: header });
        }
        return None;
    }
    // is the recovered state the state of a different prefix?
    let ks: Vec<usize> = (0..=ctx.seq.len()).filter(|k| states_equal(&state_after(ctx.seq, *k, res.proj).0, res, ctx.init_pages)).collect();
    let verdict: &str = if !ks.is_empty() && ks.iter().all(|k| *k > ctx.k_exp) {
        "recovered-beyond-corruption"
    } else if !ks.is_empty() && ks.iter().all(|k| *k < ctx.k_exp) {
        if ctx.fault.is_some() {
            "prefix-shorter-than-intact-frames"
        } else {
            "valid-frame-lost"
        }
    } else {
        wrong.iter().map(|(p, e, o)| classify_image(ctx, res.proj, *p, *e, *o)).min().map(|(_, v)| v).unwrap_or("valid-frame-lost")
    };
    let pages: Vec<String> = wrong.iter().map(|(p, e, o)| format!("page {}: expected {}, found {}", p, e.show(), o.show())).collect();
    let prefix_note = if ks.is_empty() { "no prefix of the log gives the recovered state".to_string() } else { format!("recovered state = state after {:?} frames", ks) };
    Some(Proto { verdict: verdict.into(), sig: base_sig(ctx, "recover"), detail: format!("{}; {}; {}", header, pages.join("; "), prefix_note) })
}

/// `read_page` results against the model. `strict_none`: a page the model has a frame for must
/// be found (no-fault case only).
fn check_reads(ctx: &Ctx, api: &str, shape: Option<&[&'static str]>, exp: &BTreeMap<(u64, u32), Option<u32>>, obs: &BTreeMap<(u64, u32), RpRes>, strict: bool) -> Vec<Proto> {
    let mut out: BTreeMap<String, Proto> = BTreeMap::new();
    let fault_txt = ctx.fault.map(|f| f.describe()).unwrap_or_else(|| "no fault".into());
    for ((f, p), o) in obs {
        let e = exp.get(&(*f, *p)).copied().flatten();
        let mut sig = base_sig(ctx, api);
        if let Some(s) = shape {
            for k in ["reopen-append", "truncate-append", "buffered-truncate", "closed-segment-frames"] {
                sig.remove(k);
            }
            for k in s {
                sig.insert(k.to_string(), "yes".to_string());
            }
        }
        let mk = |verdict: &str, sig: BTreeMap<String, String>, found: String| Proto {
            verdict: verdict.to_string(),
            sig,
            detail: format!(
                "{}(file_id={}, page={}) [{}]: expected {}, got {}",
                api,
                f,
                p,
                fault_txt,
                e.map(|t| format!("img#{}", t)).unwrap_or_else(|| "None".into()),
                found
            ),
        };
        let proto = match o {
            RpRes::Panic(site) => {
                sig.insert("site".into(), site.clone());
                Some(mk("panic", sig, format!("panic at {}", site)))
            }
            RpRes::Err(msg) => {
                if strict {
                    Some(mk("read-page-error", sig, format!("Err({})", msg)))
                } else {
                    None
                }
            }
            RpRes::None => {
                if strict && e.is_some() {
                    Some(mk("read-page-hides-frame", sig, "None".into()))
                } else {
                    None
                }
            }
            RpRes::Img(img) => {
                if Some(*img) == e.map(Img::Tag) {
                    None
                } else {
                    let exp_img = e.map(Img::Tag).unwrap_or(Img::Base);
                    let (_, v) = match img {
                        Img::Zero => (1, "hole-replayed-as-frame"),
                        Img::Base | Img::Absent => (2, "garbage-page-applied"),
                        other => classify_image(ctx, Proj::File(*f), *p, exp_img, *other),
                    };
                    Some(mk(v, sig, img.show()))
                }
            }
        };
        if let Some(pr) = proto {
            out.entry(pr.verdict.clone()).or_insert(pr);
        }
    }
    out.into_values().collect()
}

/// Do the final files look the way the model says (frame i of a segment at byte i * FRAME)?
fn layout_problem(model: &Model, files: &[(u64, Vec<u8>)]) -> Option<String> {
    let on_disk: BTreeSet<u64> = files.iter().map(|(s, _)| *s).collect();
    for (s, fs) in &model.segs {
        if !on_disk.contains(s) {
            if fs.is_empty() {
                continue;
            }
            return Some(format!("segment wal.{:06} with {} frames is missing", s, fs.len()));
        }
    }
    for (s, data) in files {
        let fs = match model.segs.get(s) {
            Some(f) => f,
            None => {
                if data.is_empty() {
                    continue;
                }
                return Some(format!("unexpected segment file wal.{:06} of {} bytes", s, data.len()));
            }
        };
        if data.len() != fs.len() * FRAME {
            return Some(format!("wal.{:06} is {} bytes, the model's {} frames need {}", s, data.len(), fs.len(), fs.len() * FRAME));
        }
        for (i, f) in fs.iter().enumerate() {
            let b = &data[i * FRAME..(i + 1) * FRAME];
            let fid = u64::from_le_bytes(b[0..8].try_into().unwrap_or([0; 8]));
            let page = u32::from_le_bytes(b[8..12].try_into().unwrap_or([0; 4]));
            let img = decode(&b[HDR..]);
            if fid != f.fid || page != f.page || img != Img::Tag(f.tag) {
                return Some(format!(
                    "wal.{:06} frame {}: header file_id={:#x} page={} payload {}; model: file_id={:#x} page={} img#{}",
                    s,
                    i,
                    fid,
                    page,
                    img.show(),
                    f.fid,
                    f.page,
                    f.tag
                ));
            }
        }
    }
    None
}

fn read_segments(dir: &Path) -> Vec<(u64, Vec<u8>)> {
    exec::segment_paths(dir).into_iter().map(|(s, p)| (s, std::fs::read(&p).unwrap_or_default())).collect()
}

/// The number of model frames that lie entirely before the first damaged byte.
pub fn expected_prefix(model: &Model, fault: &Fault) -> usize {
    let n: usize = model.segs.values().map(|v| v.len()).sum();
    match fault {
        Fault::Extend { .. } => n,
        _ => {
            let seg = fault.seg();
            let before: usize = model.segs.iter().filter(|(s, _)| **s < seg).map(|(_, v)| v.len()).sum();
            let m = model.segs.get(&seg).map(|v| v.len()).unwrap_or(0);
            let off = fault.offset().unwrap_or(0);
            before + m.min((off / FRAME as u64) as usize)
        }
    }
}

// ---------------------------------------------------------------------------------------------
// one case
// ---------------------------------------------------------------------------------------------

pub struct Acc {
    pub pool: exec::StoragePool,
    pub out: RunOutcome,
    pub seen_sig: BTreeSet<String>,
    pub h: u64,
    pub combos: BTreeSet<String>,
}

impl Acc {
    pub fn new() -> Acc {
        Acc { pool: exec::StoragePool::default(), out: RunOutcome::default(), seen_sig: BTreeSet::new(), h: 0x5157, combos: BTreeSet::new() }
    }
    pub fn push(&mut self, p: Proto, case: &CaseSpec) {
        let v = Violation {
            property: "C03".into(),
            verdict: p.verdict,
            sig: p.sig,
            detail: p.detail,
            case: serde_json::to_value(case).unwrap_or(Value::Null),
        };
        hmix(&mut self.h, fnv1a(v.sig_string().as_bytes()));
        if self.seen_sig.insert(v.sig_string()) {
            self.out.violations.push(v);
        }
    }
    pub fn note_recovered(&mut self, rec: &Recovered) {
        if rec.open_err.is_some() {
            self.out.count("wal_open_err", 1);
        }
        for a in &rec.apis {
            self.out.count("recoveries", 1);
            self.out.count(&format!("recoveries/{}", a.api), 1);
            match &a.result {
                Ok(n) => {
                    self.out.count("recoveries_ok", 1);
                    hmix(&mut self.h, *n as u64);
                }
                Err(_) => {
                    self.out.count("recoveries_err", 1);
                    hmix(&mut self.h, 0xE44);
                }
            }
            if a.panic.is_some() {
                self.out.count("recoveries_panicked", 1);
            }
            for i in &a.pages {
                let v = match i {
                    Img::Tag(t) => *t as u64,
                    Img::Zero => 0xFFFF_0001,
                    Img::Base => 0xFFFF_0002,
                    Img::Absent => 0xFFFF_0003,
                    Img::Garbage(h) => *h,
                };
                hmix(&mut self.h, v);
            }
        }
        if let Some(r) = &rec.reads {
            self.out.count("read_page_calls", r.len() as u64);
            for v in r.values() {
                let x = match v {
                    RpRes::None => 1,
                    RpRes::Img(Img::Tag(t)) => 0x100 + *t as u64,
                    RpRes::Img(_) => 2,
                    RpRes::Err(_) => 3,
                    RpRes::Panic(_) => 4,
                };
                hmix(&mut self.h, x);
            }
        }
    }
}

fn check_recovered(ctx: &Ctx, rec: &Recovered, strict_reads: bool) -> Vec<Proto> {
    let mut out = vec![];
    let fault_txt = ctx.fault.map(|f| f.describe()).unwrap_or_else(|| "no fault".into());
    if let Some(site) = &rec.open_panic {
        let mut sig = base_sig(ctx, "open");
        sig.insert("site".into(), site.clone());
        out.push(Proto { verdict: "panic".into(), sig, detail: format!("Wal::open panicked at {} ({})", site, fault_txt) });
        return out;
    }
    if let Some(e) = &rec.open_err {
        let verdict = if ctx.fault.is_none() { "recover-error-on-intact-log" } else { "recover-error-on-damaged-log" };
        out.push(Proto { verdict: verdict.into(), sig: base_sig(ctx, "open"), detail: format!("Wal::open returned Err({}) ({})", e, fault_txt) });
        return out;
    }
    let mut by_verdict: BTreeMap<String, Proto> = BTreeMap::new();
    for a in &rec.apis {
        if let Some(p) = check_api(ctx, a) {
            by_verdict.entry(p.verdict.clone()).or_insert(p);
        }
    }
    out.extend(by_verdict.into_values());
    if let (Some(obs), None) = (&rec.reads, &ctx.alt) {
        let mut exp = BTreeMap::new();
        for f in 0..NFILES {
            let (st, _) = state_after(ctx.seq, ctx.k_exp, Proj::File(f));
            for p in 0..NPAGES {
                exp.insert((f, p), st.get(&p).copied());
            }
        }
        out.extend(check_reads(ctx, "read_page", None, &exp, obs, strict_reads));
    }
    out
}

/// Checks of the history itself (no fault): write-path errors / panics, live `read_page`.
fn check_history(ex: &ExecOut) -> Vec<Proto> {
    let mut out = vec![];
    let seq = ex.model.sequence();
    let ctx = Ctx { model: &ex.model, seq: &seq, init_pages: 8, fault: None, k_exp: seq.len(), alt: None };
    if let Some((i, kind, site)) = &ex.panic {
        let mut sig = base_sig(&ctx, "write-path");
        sig.insert("site".into(), site.clone());
        sig.insert("op".into(), kind.clone());
        out.push(Proto { verdict: "panic".into(), sig, detail: format!("op #{} ({}) panicked at {}", i, kind, site) });
    }
    for (i, kind, e) in &ex.op_errs {
        let mut sig = base_sig(&ctx, "write-path");
        sig.insert("op".into(), kind.clone());
        out.push(Proto { verdict: "op-error-on-healthy-log".into(), sig, detail: format!("op #{} ({}) returned Err({}) on a fault-free disk", i, kind, e) });
    }
    for (i, shape, exp, obs) in &ex.live_reads {
        let mut ps = check_reads(&ctx, "read_page_live", Some(shape.as_slice()), exp, obs, true);
        for p in ps.iter_mut() {
            p.detail = format!("at op #{}: {}", i, p.detail);
        }
        out.extend(ps);
    }
    out
}

pub struct HistoryRun {
    pub ex: ExecOut,
    pub files: Vec<(u64, Vec<u8>)>,
    pub baseline_clean: bool,
}

/// Executes the history and the strict no-fault check. Violations go to `acc` only if
/// `report` (a case that carries a fault reports nothing for a broken baseline).
pub fn run_history(spec: &CaseSpec, root: &Path, acc: &mut Acc, report: bool) -> Result<HistoryRun, String> {
    let wal_dir = root.join("wal");
    let _ = std::fs::remove_dir_all(&wal_dir);
    let ex = exec::execute(spec.start == "open", &spec.ops, &wal_dir);
    let files = read_segments(&wal_dir);
    for (s, d) in &files {
        hmix(&mut acc.h, *s);
        hmix(&mut acc.h, fnv1a(d));
    }
    let mut protos = check_history(&ex);
    let seq = ex.model.sequence();
    if ex.panic.is_none() && ex.op_errs.is_empty() {
        let mut inits = vec![8u32];
        if spec.fault.is_none() && spec.init_pages != 8 {
            inits.push(spec.init_pages);
        }
        for init in inits {
            let plan = RecoverPlan { init_pages: init, for_files: (0..NFILES).collect(), replay_files: (0..NFILES).collect(), read_pages: init == 8 };
            let rec = exec::recover_dir(&wal_dir, &root.join("st"), &plan, &mut acc.pool)?;
            acc.note_recovered(&rec);
            let ctx = Ctx { model: &ex.model, seq: &seq, init_pages: init, fault: None, k_exp: seq.len(), alt: None };
            protos.extend(check_recovered(&ctx, &rec, true));
        }
        if !protos.iter().any(|p| p.sig.get("api").map(|a| a != "read_page").unwrap_or(true)) {
            if let Some(msg) = layout_problem(&ex.model, &files) {
                let ctx = Ctx { model: &ex.model, seq: &seq, init_pages: 8, fault: None, k_exp: seq.len(), alt: None };
                protos.push(Proto { verdict: "log-layout-differs".into(), sig: base_sig(&ctx, "files"), detail: msg });
            }
        }
    }
    // read_page findings are reported but do not decide whether the stored-byte enumeration is
    // meaningful: that needs the files to look the way the model says and recovery to agree
    let clean = protos.iter().all(|p| p.sig.get("api").map(|a| a == "read_page").unwrap_or(false))
        && ex.panic.is_none()
        && ex.op_errs.is_empty()
        && layout_problem(&ex.model, &files).is_none();
    if report {
        let mut nofault = spec.clone();
        nofault.fault = None;
        nofault.crash = None;
        for p in protos {
            acc.push(p, &nofault);
        }
    }
    Ok(HistoryRun { ex, files, baseline_clean: clean })
}

pub fn run_fault(spec: &CaseSpec, hr: &HistoryRun, fault: &Fault, root: &Path, acc: &mut Acc) -> Result<bool, String> {
    let dst = root.join("mut");
    if !faults::materialise(&hr.files, fault, &dst)? {
        return Ok(false);
    }
    acc.out.count(&fault.counter_key(), 1);
    acc.out.count("faults_applied", 1);
    let seq = hr.ex.model.sequence();
    let k_exp = expected_prefix(&hr.ex.model, fault);
    let last_seg = hr.ex.model.segs.keys().next_back().copied().unwrap_or(1);
    // In a closed segment, "valid frames followed by nothing / by zero bytes" looks the same on
    // disk whether frames were lost or never existed, so both readings are accepted there: stop
    // at the end of that segment's valid frames, or carry on with the next segment.
    let alt = match fault {
        Fault::Cut { seg, frame, .. } if *seg != last_seg => {
            Some(seq.iter().filter(|(s, i, _)| !(*s == *seg && *i as u64 >= *frame)).cloned().collect::<Vec<_>>())
        }
        Fault::Zerofill { seg, frame, delta: 0 } if *seg != last_seg => {
            Some(seq.iter().filter(|(s, i, _)| !(*s == *seg && *i as u64 >= *frame)).cloned().collect::<Vec<_>>())
        }
        Fault::Extend { seg, .. } if *seg != last_seg => Some(seq.iter().filter(|(s, _, _)| *s <= *seg).cloned().collect::<Vec<_>>()),
        _ => None,
    };
    let plan = RecoverPlan { init_pages: spec.init_pages, for_files: spec.for_files.clone(), replay_files: spec.replay_files.clone(), read_pages: spec.read_pages };
    let rec = exec::recover_dir(&dst, &root.join("st"), &plan, &mut acc.pool)?;
    acc.note_recovered(&rec);
    let ctx = Ctx { model: &hr.ex.model, seq: &seq, init_pages: spec.init_pages, fault: Some(fault), k_exp, alt };
    let protos = check_recovered(&ctx, &rec, false);
    acc.combos.insert(format!("{}|{}|{}", hr.ex.model.shape_string(), fault.kind(), fault.at()));
    let mut case = spec.clone();
    case.fault = Some(fault.clone());
    case.crash = None;
    for p in protos {
        acc.push(p, &case);
    }
    Ok(true)
}

fn op_summary(ops: &[Op]) -> Vec<String> {
    ops.iter()
        .map(|o| match o {
            Op::Write { file, page, tag, .. } => format!("write(f{},p{})#{}", file, page, tag),
            Op::Batch { frames, sync } => format!(
                "{}[{}]",
                if *sync { "batch" } else { "batch_no_sync" },
                frames.iter().map(|f| format!("(f{},p{})#{}", f.file, f.page, f.tag)).collect::<Vec<_>>().join(",")
            ),
            Op::Undo { table, txn, page, tag, .. } => format!("undo(t{},x{},p{})#{}", table, txn, page, tag),
            Op::SyncMode { mode } => format!("syncmode({})", mode),
            other => other.kind().to_string(),
        })
        .collect()
}

fn finish(mut acc: Acc, hr: Option<&HistoryRun>, spec: &CaseSpec, n_faults: u64) -> RunOutcome {
    if let Some(hr) = hr {
        let m = &hr.ex.model;
        acc.out.count("histories", 1);
        for k in ["recoveries_ok", "recoveries_err", "recoveries_panicked", "wal_open_err", "faults_applied"] {
            acc.out.count(k, 0);
        }
        acc.out.count("ops", spec.ops.len() as u64);
        acc.out.count("frames_written", m.n_frames_written);
        acc.out.count("rotations", m.n_rotate);
        acc.out.count("truncations", m.n_truncate);
        acc.out.count("reopens", m.n_reopen);
        acc.out.count("frames_appended_after_reopen_of_nonempty_segment", m.n_reopen_append);
        acc.out.count("frames_appended_after_truncate_of_written_segment", m.n_truncate_append);
        acc.out.count(if hr.baseline_clean { "histories_baseline_clean" } else { "histories_baseline_violating" }, 1);
        let shape = m.shape_string();
        acc.out.count(&format!("shape/{}", shape), 1);
        let kinds: Vec<&str> = spec.ops.iter().map(|o| o.kind()).collect();
        acc.out.fingerprint = fnv1a(format!("{}|{}|{}", spec.start, kinds.join(","), shape).as_bytes());
        acc.out.nontrivial = m.n_frames_written >= 2 && (n_faults > 0 || m.n_rotate + m.n_truncate + m.n_reopen > 0);
        acc.out.sample = json!({
            "start": spec.start,
            "ops": op_summary(&spec.ops),
            "shape": shape,
            "final_segments": hr.files.iter().map(|(s, d)| format!("wal.{:06}:{}B", s, d.len())).collect::<Vec<_>>(),
            "model_frames": m.sequence().iter().map(|(s, i, f)| format!("seg{}[{}]=(f{:#x},p{})#{}", s, i, f.fid, f.page, f.tag)).collect::<Vec<_>>(),
            "baseline": if hr.baseline_clean { "no-fault recovery = model" } else { "no-fault recovery differs from model (fault enumeration skipped)" },
            "faults_applied": n_faults,
            "violations": acc.out.violations.iter().map(|v| v.sig_string()).collect::<Vec<_>>(),
        });
    }
    acc.out.states = acc.combos.iter().map(|c| fnv1a(c.as_bytes())).collect();
    acc.out.events_hash = acc.h;
    acc.out
}

pub fn run_spec_seeded(seed: u64, run: u64, tier: Tier) -> RunOutcome {
    let s = mix(seed, run);
    simdisk::install_clock_entropy(s);
    exec::install_panic_hook();
    let rng = Rng::new(s);
    let mut grng = rng.fork("history");
    let (start, ops) = gen_history(&mut grng, tier);
    let root = simcore::pool::child_scratch().join("walsim");
    let _ = std::fs::create_dir_all(&root);
    let mut prng = rng.fork("plan");
    let spec = CaseSpec {
        engine: "walsim".into(),
        start,
        ops,
        fault: None,
        init_pages: *prng.pick(&[1u32, 3, 8]),
        for_files: (0..NFILES).collect(),
        replay_files: (0..NFILES).collect(),
        read_pages: true,
        crash: None,
    };
    let mut acc = Acc::new();
    hmix(&mut acc.h, fnv1a(serde_json::to_string(&spec.ops).unwrap_or_default().as_bytes()));
    let hr = match run_history(&spec, &root, &mut acc, true) {
        Ok(h) => h,
        Err(e) => {
            acc.out.harness_error = Some(e);
            return acc.out;
        }
    };
    let mut n_faults = 0u64;
    if hr.baseline_clean {
        let segs: Vec<(u64, u64)> = hr.files.iter().map(|(s, d)| (*s, (d.len() / FRAME) as u64)).collect();
        let mut frng = rng.fork("faults");
        let fl = faults::enumerate(&segs, &mut frng, tier);
        for f in &fl {
            let fspec = CaseSpec {
                init_pages: *prng.pick(&[8u32, 8, 8, 8, 1, 3]),
                for_files: vec![prng.below(NFILES)],
                replay_files: vec![prng.below(NFILES)],
                read_pages: prng.chance(1, 4),
                ..spec.clone()
            };
            match run_fault(&fspec, &hr, f, &root, &mut acc) {
                Ok(true) => n_faults += 1,
                Ok(false) => acc.out.count("faults_not_applicable", 1),
                Err(e) => {
                    acc.out.harness_error = Some(e);
                    break;
                }
            }
        }
        if tier == Tier::Thorough {
            if let Err(e) = crate::crash::run_crash_points(&spec, &root, s, &mut acc, None) {
                acc.out.harness_error = Some(e);
            }
        }
    } else {
        acc.out.count("fault_enumeration_skipped_baseline_violating", 1);
    }
    finish(acc, Some(&hr), &spec, n_faults)
}

pub fn run_spec_case(case: &Value) -> RunOutcome {
    let spec: CaseSpec = match serde_json::from_value(case.clone()) {
        Ok(s) => s,
        Err(e) => return RunOutcome { harness_error: Some(format!("bad case: {}", e)), ..Default::default() },
    };
    // the clock (hence the salts) of a replay is a function of the case itself
    let s = fnv1a(serde_json::to_string(&spec.ops).unwrap_or_default().as_bytes());
    simdisk::install_clock_entropy(s);
    exec::install_panic_hook();
    let root = simcore::pool::child_scratch().join("walsim");
    let _ = std::fs::create_dir_all(&root);
    let mut acc = Acc::new();
    if let Some(sel) = &spec.crash {
        if let Err(e) = crate::crash::run_crash_points(&spec, &root, sel.seed, &mut acc, Some(sel)) {
            acc.out.harness_error = Some(e);
        }
        return finish(acc, None, &spec, 0);
    }
    let report = spec.fault.is_none();
    let hr = match run_history(&spec, &root, &mut acc, report) {
        Ok(h) => h,
        Err(e) => {
            acc.out.harness_error = Some(e);
            return acc.out;
        }
    };
    let mut n = 0;
    if let Some(f) = &spec.fault {
        // a fault case is meaningful only on a history whose no-fault recovery is right
        if hr.baseline_clean {
            match run_fault(&spec, &hr, f, &root, &mut acc) {
                Ok(true) => n = 1,
                Ok(false) => {}
                Err(e) => acc.out.harness_error = Some(e),
            }
        }
    }
    finish(acc, Some(&hr), &spec, n)
}

// ---------------------------------------------------------------------------------------------
// shrinking
// ---------------------------------------------------------------------------------------------

pub fn shrink_case(case: &Value) -> Vec<Value> {
    let spec: CaseSpec = match serde_json::from_value(case.clone()) {
        Ok(s) => s,
        Err(_) => return vec![],
    };
    let mut out: Vec<CaseSpec> = vec![];
    // drop operations
    for keep in ddmin_keepsets(spec.ops.len()) {
        let mut c = spec.clone();
        c.ops = keep.iter().map(|i| spec.ops[*i].clone()).collect();
        out.push(c);
    }
    // drop frames of a batch
    for (i, op) in spec.ops.iter().enumerate() {
        if let Op::Batch { frames, sync } = op {
            if frames.len() > 1 {
                for j in 0..frames.len() {
                    let mut fr = frames.clone();
                    fr.remove(j);
                    let mut c = spec.clone();
                    c.ops[i] = Op::Batch { frames: fr, sync: *sync };
                    out.push(c);
                }
            }
        }
    }
    // simpler operations: a one-frame batch or an undo frame becomes a plain write
    for (i, op) in spec.ops.iter().enumerate() {
        match op {
            Op::Batch { frames, .. } if frames.len() == 1 => {
                let f = &frames[0];
                let mut c = spec.clone();
                c.ops[i] = Op::Write { file: f.file, page: f.page, db_size: f.db_size, tag: f.tag };
                out.push(c);
            }
            Op::Undo { page, db_size, tag, .. } => {
                let mut c = spec.clone();
                c.ops[i] = Op::Write { file: 0, page: *page, db_size: *db_size, tag: *tag };
                out.push(c);
            }
            _ => {}
        }
    }
    if spec.start != "create" {
        let mut c = spec.clone();
        c.start = "create".into();
        out.push(c);
    }
    // simpler fault: earlier frame, canonical mask (the position class within the frame is kept)
    if let Some(f) = &spec.fault {
        let mut alts: Vec<Fault> = vec![];
        match f {
            Fault::Cut { seg, frame, delta } if *frame > 0 => {
                alts.push(Fault::Cut { seg: *seg, frame: 0, delta: *delta });
                alts.push(Fault::Cut { seg: *seg, frame: frame - 1, delta: *delta });
            }
            Fault::Zerofill { seg, frame, delta } if *frame > 0 => {
                alts.push(Fault::Zerofill { seg: *seg, frame: 0, delta: *delta });
                alts.push(Fault::Zerofill { seg: *seg, frame: frame - 1, delta: *delta });
            }
            Fault::Flip { seg, frame, delta, mask } => {
                if *frame > 0 {
                    alts.push(Fault::Flip { seg: *seg, frame: 0, delta: *delta, mask: *mask });
                    alts.push(Fault::Flip { seg: *seg, frame: frame - 1, delta: *delta, mask: *mask });
                }
                if *mask != 1 {
                    alts.push(Fault::Flip { seg: *seg, frame: *frame, delta: *delta, mask: 1 });
                }
            }
            _ => {}
        }
        for a in alts {
            let mut c = spec.clone();
            c.fault = Some(a);
            out.push(c);
        }
    }
    if spec.init_pages != 8 {
        let mut c = spec.clone();
        c.init_pages = 8;
        out.push(c);
    }
    if spec.fault.is_some() && spec.read_pages {
        let mut c = spec.clone();
        c.read_pages = false;
        out.push(c);
    }
    out.into_iter()
        .filter_map(|mut c| {
            // crash cases: dropping operations renumbers the crash points
            if let Some(cr) = c.crash.as_mut() {
                cr.ordinal = None;
            }
            serde_json::to_value(&c).ok()
        })
        .collect()
}

impl Engine for WalSim {
    fn name(&self) -> &'static str {
        "walsim"
    }
    fn run_seeded(&self, _profile: &str, seed: u64, run: u64, tier: Tier) -> RunOutcome {
        run_spec_seeded(seed, run, tier)
    }
    fn run_case(&self, case: &Value) -> RunOutcome {
        run_spec_case(case)
    }
    fn shrink(&self, case: &Value) -> Vec<Value> {
        shrink_case(case)
    }
    fn rule(&self, _profile: &str) -> String {
        "a run = one generated history (create/open, write_frame_with_file_id, write_frames_batch[_no_sync], write_undo_frame, rotate_segment, truncate, sync, set_sync_mode, drop+Wal::open, read_page) on 3 file ids x 6 pages executed on the real Wal, the strict no-fault recovery check, and - if that holds - every enumerated stored-byte fault (cut / zero-fill at every frame boundary +-{0,1,31,32,33} and boundary+16415 plus sampled interior offsets; one flipped byte in each of the 6 header fields and sampled payload bytes of every frame; zero extension by 32 / 16416 / 49248 bytes of every segment) each followed by Wal::open + recover + recover_for_file + replay_segments_to_storage (+ read_page) into sentinel-filled MmapStorage files. nontrivial = >= 2 frames written and (>= 1 fault applied or >= 1 rotate/truncate/reopen). fingerprint = hash(start, op-kind sequence, history shape); distinct_states = distinct (history shape, fault kind, position-within-frame / header field) combinations exercised".into()
    }
    fn real_vs_stub(&self) -> Value {
        json!({
            "real": ["turdb::storage::Wal (create/open/write paths/rotate/truncate/sync/read_page)", "turdb::storage::WalSegment (via Wal)", "Wal::recover / recover_for_file / replay_segments_to_storage", "turdb::storage::MmapStorage", "crc CRC-64/ECMA-182", "tmpfs files under /dev/shm"],
            "simulated": ["wall clock (salt source) through simdisk clock_gettime", "stored-byte faults: applied by the harness to copies of the closed segment files", "thorough tier: crash images (kill / power-strict) captured by simdisk at every write/fsync/ftruncate of the history"],
            "model": "walsim/src/model.rs: per-segment frame lists; state after k frames"
        })
    }
    fn assumptions(&self, _profile: &str) -> Vec<String> {
        vec![
            "a single-byte change or a zero-filled/missing tail makes the frame that contains it invalid (CRC-64 detects every error burst of <= 64 bits; every payload byte written is non-zero)".into(),
            "the log is the concatenation of the segment files in ascending sequence number; a frame damaged in an earlier segment ends the valid prefix for all later segments too".into(),
            "histories of <= 12 (quick) / <= 18 (thorough) operations; explicit rotate_segment only (the 64 MiB auto-rotation threshold is not reached)".into(),
            "faults are applied after a clean close of the log (plus, thorough tier, crash images during the history); one fault per recovered copy".into(),
            "Wal::recover ignores file ids and frame types by design: its expected result is the last image per page number over all frames".into(),
        ]
    }
}
