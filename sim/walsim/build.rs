fn main() {
    // export the libc overrides of simdisk so that dlsym(RTLD_DEFAULT, ..) finds them
    println!("cargo:rustc-link-arg-bins=-rdynamic");
}
