//! simdisk — disk, clock and entropy at the libc boundary.
//!
//! This executable *defines* the libc entry points TurDB's I/O reaches the kernel through
//! (std::fs, memmap2, std::time, std's hash-key source). Calls on anything outside the current
//! simulation root, and all calls made while the harness itself is working (`IN_HARNESS`), are
//! forwarded untouched with `syscall(2)`.
//!
//! "Current" file contents are real files on tmpfs (so MAP_SHARED coherence between write()
//! and mmap stores is the kernel's own). What is simulated is *durability*: for every tracked
//! file a durable image `D_f` = the bytes that would survive a power loss.

#![allow(clippy::missing_safety_doc)]

use libc::{c_char, c_int, c_long, c_void, mode_t, off_t, size_t, ssize_t};
use std::collections::{BTreeMap, HashMap};
use std::ffi::CStr;
use std::sync::atomic::{AtomicBool, AtomicU64, Ordering};
use std::sync::Arc;

// ---------------------------------------------------------------------------------------------
// raw syscalls
// ---------------------------------------------------------------------------------------------

#[inline]
unsafe fn raw_open(path: *const c_char, flags: c_int, mode: mode_t) -> c_int {
    libc::syscall(libc::SYS_openat, libc::AT_FDCWD, path, flags, mode as c_int) as c_int
}
#[inline]
unsafe fn raw_pread(fd: c_int, buf: *mut c_void, n: size_t, off: off_t) -> ssize_t {
    libc::syscall(libc::SYS_pread64, fd, buf, n, off) as ssize_t
}

// ---------------------------------------------------------------------------------------------
// global state
// ---------------------------------------------------------------------------------------------

static ACTIVE: AtomicBool = AtomicBool::new(false);
static IN_HARNESS: AtomicBool = AtomicBool::new(false);
static CLOCK_ACTIVE: AtomicBool = AtomicBool::new(false);
static CLOCK_US: AtomicU64 = AtomicU64::new(0);
static ENTROPY_ACTIVE: AtomicBool = AtomicBool::new(false);
static ENTROPY_STATE: AtomicU64 = AtomicU64::new(0);
static mut STATE: Option<Box<SimDisk>> = None;

pub const CLOCK_T0_US: u64 = 1_700_000_000_000_000;

#[inline]
fn tracking() -> bool {
    ACTIVE.load(Ordering::Relaxed) && !IN_HARNESS.load(Ordering::Relaxed)
}

/// RAII: everything inside runs as "harness" (pure pass-through I/O).
pub struct HarnessGuard(bool);
impl HarnessGuard {
    pub fn enter() -> Self {
        HarnessGuard(IN_HARNESS.swap(true, Ordering::SeqCst))
    }
}
impl Drop for HarnessGuard {
    fn drop(&mut self) {
        IN_HARNESS.store(self.0, Ordering::SeqCst);
    }
}

#[allow(static_mut_refs)]
fn sd() -> &'static mut SimDisk {
    // SAFETY: a simulation child drives TurDB from exactly one thread; STATE is installed before
    // ACTIVE is set and never removed while ACTIVE.
    unsafe { STATE.as_mut().expect("simdisk not installed") }
}

#[derive(Clone, Copy, Debug, PartialEq, Eq, Hash, PartialOrd, Ord)]
pub enum Role {
    Table,
    Index,
    Hnsw,
    Wal,
    Catalog,
    Meta,
    Spill,
    Other,
}

impl Role {
    pub fn as_str(&self) -> &'static str {
        match self {
            Role::Table => "table",
            Role::Index => "index",
            Role::Hnsw => "hnsw",
            Role::Wal => "wal",
            Role::Catalog => "catalog",
            Role::Meta => "meta",
            Role::Spill => "spill",
            Role::Other => "other",
        }
    }
    pub fn of(rel: &str) -> Role {
        if rel.starts_with("wal/") || rel.contains("/wal/") || rel.starts_with("wal.") {
            Role::Wal
        } else if rel.contains("partition/") || rel.contains("spill") {
            Role::Spill
        } else if rel.ends_with(".tbd") {
            Role::Table
        } else if rel.ends_with(".idx") {
            Role::Index
        } else if rel.ends_with(".hnsw") {
            Role::Hnsw
        } else if rel.ends_with("turdb.catalog") || rel.ends_with(".catalog") {
            Role::Catalog
        } else if rel.ends_with("turdb.meta") {
            Role::Meta
        } else {
            Role::Other
        }
    }
}

#[derive(Clone, Debug)]
pub struct CrashPoint {
    pub ordinal: u64,
    /// 'P' page_mut, 'W' write, 'S' sync, 'T' truncate, 'N' namespace, 'B' API boundary
    pub kind: char,
    pub role: Role,
    pub file: String,
    /// page number (P), byte offset (W/T), 0 otherwise
    pub at: u64,
}

#[derive(Clone, Copy, Debug, PartialEq, Eq, Hash)]
pub enum CrashModel {
    Kill,
    PowerStrict,
    PowerRandom(u32),
}

impl CrashModel {
    pub fn as_str(&self) -> String {
        match self {
            CrashModel::Kill => "kill".into(),
            CrashModel::PowerStrict => "power-strict".into(),
            CrashModel::PowerRandom(r) => format!("power-random({})", r),
        }
    }
    pub fn parse(s: &str) -> Option<CrashModel> {
        match s {
            "kill" => Some(CrashModel::Kill),
            "power-strict" => Some(CrashModel::PowerStrict),
            _ => {
                let inner = s.strip_prefix("power-random(")?.strip_suffix(')')?;
                inner.parse().ok().map(CrashModel::PowerRandom)
            }
        }
    }
}

/// A crash image: the directory tree that a crash at `point` under `model` leaves behind.
#[derive(Clone)]
pub struct Image {
    pub point: CrashPoint,
    pub model: CrashModel,
    pub files: Vec<(String, Arc<Vec<u8>>)>,
    pub dirs: Vec<String>,
    pub hash: u64,
}

struct FileState {
    durable: Arc<Vec<u8>>,
    durable_hash: u64,
    version: u64,
    cached: Option<(u64, Arc<Vec<u8>>, u64)>,
    role: Role,
}

struct Mapping {
    addr: usize,
    len: usize,
    rel: String,
    offset: u64,
}

#[derive(Clone, Debug)]
pub struct ArmedFault {
    /// call kind: "write" "fsync" "msync" "ftruncate" "open" "read"
    pub call: String,
    pub role: Role,
    /// fire on the n-th matching call from now (0 = next)
    pub countdown: u32,
    /// errno to return; 0 with `short` = short transfer
    pub errno: i32,
    pub short: bool,
    pub fired: bool,
}

pub struct CapturePolicy {
    pub kill: bool,
    pub power_strict: bool,
    /// number of power-random sub-seeds per point
    pub power_random: u32,
    /// capture only at these kinds (empty = all)
    pub kinds: Vec<char>,
    /// capture only this ordinal (pinned replay)
    pub only_ordinal: Option<u64>,
    /// capture at most this many points per op; points are sub-sampled evenly after that
    pub max_points: usize,
}

pub struct SimDisk {
    root: String, // absolute, with trailing '/'
    fds: HashMap<c_int, String>,
    files: BTreeMap<String, FileState>,
    maps: Vec<Mapping>,
    pub ordinal: u64,
    pub log_hash: u64,
    pub counters: BTreeMap<String, u64>,
    pub capture: Option<CapturePolicy>,
    pub images: Vec<Image>,
    pub faults: Vec<ArmedFault>,
    pub points_in_op: u64,
    image_seed: u64,
    pub last_point: Option<CrashPoint>,
    pub point_trace: Vec<(u64, char, Role, u64)>,
    pub trace_points: bool,
    /// keep durable images up to date (needed only when power-loss images are taken)
    pub track_durable: bool,
}

pub static DEBUG_LOG: std::sync::atomic::AtomicBool = std::sync::atomic::AtomicBool::new(false);

#[inline]
fn mixhash(h: u64, v: u64) -> u64 {
    (h ^ v).wrapping_mul(0x9E3779B97F4A7C15).rotate_left(23) ^ 0x165667B19E3779F9
}

pub fn hash_bytes(b: &[u8]) -> u64 {
    let mut h: u64 = 0x243F6A8885A308D3 ^ (b.len() as u64);
    let mut chunks = b.chunks_exact(8);
    for c in &mut chunks {
        let v = u64::from_le_bytes([c[0], c[1], c[2], c[3], c[4], c[5], c[6], c[7]]);
        h = (h ^ v).wrapping_mul(0x9E3779B97F4A7C15);
        h ^= h >> 29;
    }
    for x in chunks.remainder() {
        h = (h ^ *x as u64).wrapping_mul(0x100000001b3);
    }
    h
}

fn read_whole(path: &str) -> Vec<u8> {
    // harness-side read, by path
    let _g = HarnessGuard::enter();
    std::fs::read(path).unwrap_or_default()
}

impl SimDisk {
    fn rel_of(&self, abs: &str) -> Option<String> {
        abs.strip_prefix(self.root.as_str()).map(|s| s.to_string())
    }

    fn bump(&mut self, key: &str) {
        *self.counters.entry(key.to_string()).or_insert(0) += 1;
    }

    fn log(&mut self, kind: char, role: Role, rel: &str, at: u64, extra: u64) {
        let mut h = self.log_hash;
        h = mixhash(h, kind as u64);
        h = mixhash(h, role as u64);
        h = mixhash(h, hash_bytes(rel.as_bytes()));
        h = mixhash(h, at);
        h = mixhash(h, extra);
        self.log_hash = h;
        if DEBUG_LOG.load(Ordering::Relaxed) {
            use std::io::Write;
            if let Ok(mut f) = std::fs::OpenOptions::new().create(true).append(true).open(format!("/tmp/vsim-sd-{}.txt", std::process::id())) {
                let _ = writeln!(f, "SD {} {:?} {} at={} extra={:016x}", kind, role, rel, at, extra);
            }
        }
    }

    /// A crash point: tick, log, maybe capture images of the state *before* the mutation.
    fn point(&mut self, kind: char, rel: &str, at: u64, extra: u64) {
        let role = Role::of(rel);
        self.ordinal += 1;
        self.points_in_op += 1;
        self.log(kind, role, rel, at, extra);
        let key = format!("cp/{}/{}", kind, role.as_str());
        self.bump(&key);
        if self.trace_points {
            self.point_trace.push((self.ordinal, kind, role, at));
        }
        let cp = CrashPoint {
            ordinal: self.ordinal,
            kind,
            role,
            file: rel.to_string(),
            at,
        };
        self.last_point = Some(cp.clone());
        let want = match &self.capture {
            None => false,
            Some(p) => {
                (p.kinds.is_empty() || p.kinds.contains(&kind))
                    && p.only_ordinal.map_or(true, |o| o == self.ordinal)
                    && (p.only_ordinal.is_some() || (self.points_in_op as usize) <= p.max_points)
            }
        };
        if want {
            self.capture_images(cp);
        }
    }

    fn file_entry(&mut self, rel: &str) -> &mut FileState {
        let role = Role::of(rel);
        self.files.entry(rel.to_string()).or_insert_with(|| FileState {
            durable: Arc::new(Vec::new()),
            durable_hash: hash_bytes(&[]),
            version: 1,
            cached: None,
            role,
        })
    }

    fn touch(&mut self, rel: &str) {
        self.file_entry(rel).version += 1;
    }

    fn current_of(&mut self, rel: &str) -> (Arc<Vec<u8>>, u64) {
        let abs = format!("{}{}", self.root, rel);
        let fs = self.file_entry(rel);
        if let Some((v, data, h)) = &fs.cached {
            if *v == fs.version {
                return (data.clone(), *h);
            }
        }
        let data = Arc::new(read_whole(&abs));
        let h = hash_bytes(&data);
        fs.cached = Some((fs.version, data.clone(), h));
        (data, h)
    }

    fn list_dirs(&self) -> Vec<String> {
        let _g = HarnessGuard::enter();
        let mut out = vec![];
        let mut stack = vec![String::new()];
        while let Some(d) = stack.pop() {
            let abs = format!("{}{}", self.root, d);
            if let Ok(rd) = std::fs::read_dir(&abs) {
                let mut names: Vec<(String, bool)> = rd
                    .filter_map(|e| e.ok())
                    .map(|e| {
                        (
                            e.file_name().to_string_lossy().to_string(),
                            e.file_type().map(|t| t.is_dir()).unwrap_or(false),
                        )
                    })
                    .collect();
                names.sort();
                for (n, is_dir) in names {
                    if is_dir {
                        let rel = if d.is_empty() { n } else { format!("{}/{}", d, n) };
                        out.push(rel.clone());
                        stack.push(rel);
                    }
                }
            }
        }
        out.sort();
        out
    }

    fn capture_images(&mut self, cp: CrashPoint) {
        let _g = HarnessGuard::enter();
        let (kill, strict, nrand) = match &self.capture {
            Some(p) => (p.kill, p.power_strict, p.power_random),
            None => return,
        };
        let dirs = self.list_dirs();
        let rels: Vec<String> = self.files.keys().cloned().collect();
        // Files opened through a mapping are mutated without any call we see: a page_mut grant
        // bumps the version (see on_page_mut), so `current_of` re-reads exactly those.
        let mut cur: Vec<(String, Arc<Vec<u8>>, u64)> = Vec::with_capacity(rels.len());
        for r in &rels {
            let (d, h) = self.current_of(r);
            cur.push((r.clone(), d, h));
        }
        if kill {
            let mut h = 0x11u64;
            for (r, _, fh) in &cur {
                h = mixhash(h, hash_bytes(r.as_bytes()));
                h = mixhash(h, *fh);
            }
            self.images.push(Image {
                point: cp.clone(),
                model: CrashModel::Kill,
                files: cur.iter().map(|(r, d, _)| (r.clone(), d.clone())).collect(),
                dirs: dirs.clone(),
                hash: h,
            });
            self.bump("img/kill");
        }
        if strict {
            let mut h = 0x22u64;
            let mut files = Vec::with_capacity(rels.len());
            for r in &rels {
                let fs = &self.files[r];
                h = mixhash(h, hash_bytes(r.as_bytes()));
                h = mixhash(h, fs.durable_hash);
                files.push((r.clone(), fs.durable.clone()));
            }
            self.images.push(Image {
                point: cp.clone(),
                model: CrashModel::PowerStrict,
                files,
                dirs: dirs.clone(),
                hash: h,
            });
            self.bump("img/power-strict");
        }
        for sub in 0..nrand {
            let mut rng = simcore::Rng::new(simcore::rng::mix(self.image_seed, cp.ordinal * 64 + sub as u64));
            let mut h = 0x33u64;
            let mut files = Vec::with_capacity(rels.len());
            for (r, c, _) in &cur {
                let d = self.files[r].durable.clone();
                let mixed = mix_blocks(&d, c, &mut rng);
                h = mixhash(h, hash_bytes(r.as_bytes()));
                h = mixhash(h, hash_bytes(&mixed));
                files.push((r.clone(), Arc::new(mixed)));
            }
            self.images.push(Image {
                point: cp.clone(),
                model: CrashModel::PowerRandom(sub),
                files,
                dirs: dirs.clone(),
                hash: h,
            });
            self.bump("img/power-random");
        }
    }

    fn set_durable_from_current(&mut self, rel: &str) {
        let (data, h) = self.current_of(rel);
        let fs = self.file_entry(rel);
        fs.durable = data;
        fs.durable_hash = h;
    }

    fn check_fault(&mut self, call: &str, role: Role) -> Option<(i32, bool)> {
        let mut hit = None;
        for f in self.faults.iter_mut() {
            if f.fired || f.call != call || f.role != role {
                continue;
            }
            if f.countdown == 0 {
                f.fired = true;
                hit = Some((f.errno, f.short));
                break;
            } else {
                f.countdown -= 1;
            }
        }
        if let Some((e, s)) = hit {
            let key = format!("fault/{}/{}/{}", call, role.as_str(), if s { "short".to_string() } else { errno_name(e) });
            self.bump(&key);
        }
        hit
    }
}

fn errno_name(e: i32) -> String {
    match e {
        libc::EIO => "EIO".into(),
        libc::ENOSPC => "ENOSPC".into(),
        libc::EINTR => "EINTR".into(),
        libc::EMFILE => "EMFILE".into(),
        _ => format!("E{}", e),
    }
}

/// Power loss with partial write-back: every 4 KiB block whose current and durable contents
/// differ independently keeps one of them; an unsynced extension is cut at a block boundary.
fn mix_blocks(d: &[u8], c: &[u8], rng: &mut simcore::Rng) -> Vec<u8> {
    const B: usize = 4096;
    let len = if c.len() > d.len() {
        let extra_blocks = (c.len() - d.len()).div_ceil(B);
        let keep = rng.usize_below(extra_blocks + 1);
        (d.len() + keep * B).min(c.len())
    } else {
        c.len()
    };
    let mut out = vec![0u8; len];
    let mut off = 0;
    while off < len {
        let end = (off + B).min(len);
        let dc = if off < d.len() { &d[off..end.min(d.len())] } else { &[][..] };
        let cc = &c[off..end];
        let take_cur = if dc == cc { true } else { rng.chance(1, 2) };
        if take_cur {
            out[off..end].copy_from_slice(cc);
        } else {
            out[off..off + dc.len()].copy_from_slice(dc);
        }
        off = end;
    }
    out
}

// ---------------------------------------------------------------------------------------------
// harness API
// ---------------------------------------------------------------------------------------------

/// Start simulating under `root` (absolute path of a fresh directory). Clock and entropy become
/// functions of `seed`.
#[allow(static_mut_refs)]
pub fn install(root: &str, seed: u64) {
    DEBUG_LOG.store(std::env::var_os("VSIM_DEBUG").is_some(), Ordering::Relaxed);
    CLOCK_US.store(0, Ordering::SeqCst);
    CLOCK_ACTIVE.store(true, Ordering::SeqCst);
    ENTROPY_STATE.store(simcore::rng::mix(seed, 0xE17), Ordering::SeqCst);
    ENTROPY_ACTIVE.store(true, Ordering::SeqCst);
    let mut r = root.to_string();
    if !r.ends_with('/') {
        r.push('/');
    }
    let sdisk = SimDisk {
        root: r,
        fds: HashMap::new(),
        files: BTreeMap::new(),
        maps: Vec::new(),
        ordinal: 0,
        log_hash: 0,
        counters: BTreeMap::new(),
        capture: None,
        images: Vec::new(),
        faults: Vec::new(),
        points_in_op: 0,
        image_seed: simcore::rng::mix(seed, 0x1347),
        last_point: None,
        point_trace: Vec::new(),
        trace_points: false,
        track_durable: false,
    };
    // SAFETY: called once per child before any tracked I/O, from the simulation thread.
    unsafe {
        STATE = Some(Box::new(sdisk));
    }
    turdb::verif_hooks::install(Some(on_page_mut), Some(on_knob), Some(on_probe));
    ACTIVE.store(true, Ordering::SeqCst);
}

/// Deterministic clock/entropy only (component simulators that do no tracked I/O).
pub fn install_clock_entropy(seed: u64) {
    CLOCK_US.store(0, Ordering::SeqCst);
    CLOCK_ACTIVE.store(true, Ordering::SeqCst);
    ENTROPY_STATE.store(simcore::rng::mix(seed, 0xE17), Ordering::SeqCst);
    ENTROPY_ACTIVE.store(true, Ordering::SeqCst);
}

pub fn is_active() -> bool {
    ACTIVE.load(Ordering::SeqCst)
}

pub fn with<R>(f: impl FnOnce(&mut SimDisk) -> R) -> R {
    let _g = HarnessGuard::enter();
    f(sd())
}

pub fn sim_time_us() -> u64 {
    CLOCK_US.load(Ordering::SeqCst)
}

pub fn advance_clock(us: u64) {
    CLOCK_US.fetch_add(us, Ordering::SeqCst);
}

/// API-call boundary crash point (kind 'B').
pub fn boundary_point() {
    if !ACTIVE.load(Ordering::SeqCst) {
        return;
    }
    let _g = HarnessGuard::enter();
    sd().point('B', "", 0, 0);
}

pub fn begin_op() {
    with(|s| s.points_in_op = 0);
}

pub fn take_images() -> Vec<Image> {
    with(|s| std::mem::take(&mut s.images))
}

static KNOBS: std::sync::Mutex<BTreeMap<String, u64>> = std::sync::Mutex::new(BTreeMap::new());
static PROBES: std::sync::Mutex<BTreeMap<&'static str, u64>> = std::sync::Mutex::new(BTreeMap::new());

pub fn set_knob(name: &str, v: Option<u64>) {
    let mut k = KNOBS.lock().unwrap();
    match v {
        Some(v) => {
            k.insert(name.to_string(), v);
        }
        None => {
            k.remove(name);
        }
    }
}

fn on_knob(name: &str) -> Option<u64> {
    KNOBS.lock().ok().and_then(|k| k.get(name).copied())
}

fn on_probe(name: &'static str) {
    if let Ok(mut p) = PROBES.lock() {
        *p.entry(name).or_insert(0) += 1;
    }
}

pub fn probes() -> BTreeMap<String, u64> {
    PROBES
        .lock()
        .map(|p| p.iter().map(|(k, v)| (k.to_string(), *v)).collect())
        .unwrap_or_default()
}

fn on_page_mut(_kind: u8, addr: usize, page: u32) {
    if !tracking() {
        return;
    }
    let _g = HarnessGuard::enter();
    let s = sd();
    let rel = match s.maps.iter().find(|m| m.addr == addr) {
        Some(m) => m.rel.clone(),
        None => return,
    };
    s.point('P', &rel, page as u64, 0);
    // the grant allows stores we will not see: the file's content may change from here on
    s.touch(&rel);
}

/// Materialise an image into `dir` (must not exist or be empty).
pub fn write_image(img: &Image, dir: &str) {
    let _g = HarnessGuard::enter();
    let _ = std::fs::create_dir_all(dir);
    for d in &img.dirs {
        let _ = std::fs::create_dir_all(format!("{}/{}", dir, d));
    }
    for (rel, data) in &img.files {
        let p = format!("{}/{}", dir, rel);
        if let Some(parent) = std::path::Path::new(&p).parent() {
            let _ = std::fs::create_dir_all(parent);
        }
        let _ = std::fs::write(&p, data.as_slice());
    }
}

// ---------------------------------------------------------------------------------------------
// interposed libc entry points
// ---------------------------------------------------------------------------------------------

unsafe fn set_errno(e: c_int) {
    *libc::__errno_location() = e;
}

unsafe fn path_str<'a>(p: *const c_char) -> Option<&'a str> {
    if p.is_null() {
        return None;
    }
    CStr::from_ptr(p).to_str().ok()
}

unsafe fn do_open(path: *const c_char, flags: c_int, mode: mode_t) -> c_int {
    if !tracking() {
        return raw_open(path, flags, mode);
    }
    let ps = match path_str(path) {
        Some(s) => s,
        None => return raw_open(path, flags, mode),
    };
    let s = sd();
    let rel = match s.rel_of(ps) {
        Some(r) => r,
        None => return raw_open(path, flags, mode),
    };
    if flags & libc::O_DIRECTORY != 0 {
        return raw_open(path, flags, mode);
    }
    let _g = HarnessGuard::enter();
    let exists = std::path::Path::new(ps).is_file();
    if std::path::Path::new(ps).is_dir() {
        return raw_open(path, flags, mode);
    }
    let role = Role::of(&rel);
    if let Some((e, _)) = s.check_fault("open", role) {
        set_errno(e);
        return -1;
    }
    let creating = (flags & libc::O_CREAT != 0) && !exists;
    let truncating = (flags & libc::O_TRUNC != 0) && exists;
    if creating {
        s.point('N', &rel, 0, 1);
    }
    if truncating {
        s.point('T', &rel, 0, 0);
    }
    let fd = raw_open(path, flags, mode);
    if fd >= 0 {
        s.fds.insert(fd, rel.clone());
        if creating || truncating {
            // namespace and size changes are durable immediately and in order (DESIGN §2.1)
            let fs = s.file_entry(&rel);
            fs.durable = Arc::new(Vec::new());
            fs.durable_hash = hash_bytes(&[]);
            fs.version += 1;
        } else if exists && !s.files.contains_key(&rel) {
            // pre-existing file we have never seen (e.g. root copied in by the harness):
            // treat its present content as durable
            s.set_durable_from_current(&rel);
        }
    }
    fd
}

#[no_mangle]
pub unsafe extern "C" fn open64(path: *const c_char, flags: c_int, mode: mode_t) -> c_int {
    do_open(path, flags, mode)
}
#[no_mangle]
pub unsafe extern "C" fn open(path: *const c_char, flags: c_int, mode: mode_t) -> c_int {
    do_open(path, flags, mode)
}

#[no_mangle]
pub unsafe extern "C" fn close(fd: c_int) -> c_int {
    if tracking() {
        sd().fds.remove(&fd);
    }
    libc::syscall(libc::SYS_close, fd) as c_int
}

unsafe fn do_write(fd: c_int, buf: *const c_void, n: size_t, off: Option<off_t>) -> ssize_t {
    let raw = |n: size_t| -> ssize_t {
        match off {
            None => libc::syscall(libc::SYS_write, fd, buf, n) as ssize_t,
            Some(o) => libc::syscall(libc::SYS_pwrite64, fd, buf, n, o) as ssize_t,
        }
    };
    if !tracking() {
        return raw(n);
    }
    let s = sd();
    let rel = match s.fds.get(&fd) {
        Some(r) => r.clone(),
        None => return raw(n),
    };
    let _g = HarnessGuard::enter();
    let role = Role::of(&rel);
    let pos = match off {
        Some(o) => o as u64,
        None => libc::syscall(libc::SYS_lseek, fd, 0 as off_t, libc::SEEK_CUR) as u64,
    };
    let bytes = std::slice::from_raw_parts(buf as *const u8, n);
    s.point('W', &rel, pos, mixhash(n as u64, hash_bytes(bytes)));
    if role == Role::Wal {
        *s.counters.entry("bytes/wal".to_string()).or_insert(0) += n as u64;
    }
    if let Some((e, short)) = s.check_fault("write", role) {
        if short && n > 1 {
            let k = n / 2;
            s.touch(&rel);
            return raw(k);
        }
        set_errno(e);
        return -1;
    }
    s.touch(&rel);
    raw(n)
}

#[no_mangle]
pub unsafe extern "C" fn write(fd: c_int, buf: *const c_void, n: size_t) -> ssize_t {
    do_write(fd, buf, n, None)
}
#[no_mangle]
pub unsafe extern "C" fn pwrite64(fd: c_int, buf: *const c_void, n: size_t, off: off_t) -> ssize_t {
    do_write(fd, buf, n, Some(off))
}
#[no_mangle]
pub unsafe extern "C" fn pwrite(fd: c_int, buf: *const c_void, n: size_t, off: off_t) -> ssize_t {
    do_write(fd, buf, n, Some(off))
}

unsafe fn do_read(fd: c_int, buf: *mut c_void, n: size_t, off: Option<off_t>) -> ssize_t {
    let raw = |n: size_t| -> ssize_t {
        match off {
            None => libc::syscall(libc::SYS_read, fd, buf, n) as ssize_t,
            Some(o) => raw_pread(fd, buf, n, o),
        }
    };
    if !tracking() {
        return raw(n);
    }
    let s = sd();
    if s.faults.is_empty() {
        return raw(n);
    }
    let rel = match s.fds.get(&fd) {
        Some(r) => r.clone(),
        None => return raw(n),
    };
    let _g = HarnessGuard::enter();
    if let Some((e, short)) = s.check_fault("read", Role::of(&rel)) {
        if short && n > 1 {
            return raw(n / 2);
        }
        set_errno(e);
        return -1;
    }
    raw(n)
}

#[no_mangle]
pub unsafe extern "C" fn read(fd: c_int, buf: *mut c_void, n: size_t) -> ssize_t {
    do_read(fd, buf, n, None)
}
#[no_mangle]
pub unsafe extern "C" fn pread64(fd: c_int, buf: *mut c_void, n: size_t, off: off_t) -> ssize_t {
    do_read(fd, buf, n, Some(off))
}
#[no_mangle]
pub unsafe extern "C" fn pread(fd: c_int, buf: *mut c_void, n: size_t, off: off_t) -> ssize_t {
    do_read(fd, buf, n, Some(off))
}

unsafe fn do_fsync(fd: c_int, nr: c_long) -> c_int {
    if !tracking() {
        return libc::syscall(nr, fd) as c_int;
    }
    let s = sd();
    let rel = match s.fds.get(&fd) {
        Some(r) => r.clone(),
        None => return libc::syscall(nr, fd) as c_int,
    };
    let _g = HarnessGuard::enter();
    s.point('S', &rel, 0, 0);
    if let Some((e, _)) = s.check_fault("fsync", Role::of(&rel)) {
        set_errno(e);
        return -1;
    }
    if s.track_durable {
        s.set_durable_from_current(&rel);
    }
    s.bump("sync/fsync");
    0
}

#[no_mangle]
pub unsafe extern "C" fn fsync(fd: c_int) -> c_int {
    do_fsync(fd, libc::SYS_fsync)
}
#[no_mangle]
pub unsafe extern "C" fn fdatasync(fd: c_int) -> c_int {
    do_fsync(fd, libc::SYS_fdatasync)
}

#[no_mangle]
pub unsafe extern "C" fn msync(addr: *mut c_void, len: size_t, flags: c_int) -> c_int {
    if !tracking() {
        return libc::syscall(libc::SYS_msync, addr, len, flags) as c_int;
    }
    let s = sd();
    let a = addr as usize;
    let m = s
        .maps
        .iter()
        .find(|m| a >= m.addr && a < m.addr + m.len)
        .map(|m| (m.rel.clone(), m.addr, m.len, m.offset));
    let (rel, maddr, mlen, moff) = match m {
        Some(x) => x,
        None => return libc::syscall(libc::SYS_msync, addr, len, flags) as c_int,
    };
    let _g = HarnessGuard::enter();
    s.point('S', &rel, (a - maddr) as u64 + moff, 1);
    if let Some((e, _)) = s.check_fault("msync", Role::of(&rel)) {
        set_errno(e);
        return -1;
    }
    if !s.track_durable {
        s.bump("sync/msync");
        return 0;
    }
    // D_f[range] := current (the mapping is the current content)
    let start = a - maddr;
    let end = (start + len).min(mlen);
    let src = std::slice::from_raw_parts((maddr + start) as *const u8, end - start);
    let fs = s.file_entry(&rel);
    let mut d = (*fs.durable).clone();
    let fstart = moff as usize + start;
    let fend = fstart + src.len();
    if d.len() < fend {
        d.resize(fend, 0);
    }
    d[fstart..fend].copy_from_slice(src);
    fs.durable_hash = hash_bytes(&d);
    fs.durable = Arc::new(d);
    s.bump("sync/msync");
    0
}

unsafe fn do_ftruncate(fd: c_int, len: off_t) -> c_int {
    if !tracking() {
        return libc::syscall(libc::SYS_ftruncate, fd, len) as c_int;
    }
    let s = sd();
    let rel = match s.fds.get(&fd) {
        Some(r) => r.clone(),
        None => return libc::syscall(libc::SYS_ftruncate, fd, len) as c_int,
    };
    let _g = HarnessGuard::enter();
    s.point('T', &rel, len as u64, 0);
    if let Some((e, _)) = s.check_fault("ftruncate", Role::of(&rel)) {
        set_errno(e);
        return -1;
    }
    let r = libc::syscall(libc::SYS_ftruncate, fd, len) as c_int;
    if r == 0 {
        let track = s.track_durable;
        let fs = s.file_entry(&rel);
        if track {
            let mut d = (*fs.durable).clone();
            d.resize(len as usize, 0);
            fs.durable_hash = hash_bytes(&d);
            fs.durable = Arc::new(d);
        }
        fs.version += 1;
    }
    r
}

#[no_mangle]
pub unsafe extern "C" fn ftruncate64(fd: c_int, len: off_t) -> c_int {
    do_ftruncate(fd, len)
}
#[no_mangle]
pub unsafe extern "C" fn ftruncate(fd: c_int, len: off_t) -> c_int {
    do_ftruncate(fd, len)
}

unsafe fn do_mmap(addr: *mut c_void, len: size_t, prot: c_int, flags: c_int, fd: c_int, off: off_t) -> *mut c_void {
    let r = libc::syscall(libc::SYS_mmap, addr, len, prot, flags, fd, off) as *mut c_void;
    if fd >= 0 && r != libc::MAP_FAILED && tracking() && (flags & libc::MAP_SHARED != 0) {
        let s = sd();
        if let Some(rel) = s.fds.get(&fd).cloned() {
            let _g = HarnessGuard::enter();
            s.maps.retain(|m| m.addr != r as usize);
            s.maps.push(Mapping {
                addr: r as usize,
                len,
                rel,
                offset: off as u64,
            });
        }
    }
    r
}

#[no_mangle]
pub unsafe extern "C" fn mmap(addr: *mut c_void, len: size_t, prot: c_int, flags: c_int, fd: c_int, off: off_t) -> *mut c_void {
    do_mmap(addr, len, prot, flags, fd, off)
}
#[no_mangle]
pub unsafe extern "C" fn mmap64(addr: *mut c_void, len: size_t, prot: c_int, flags: c_int, fd: c_int, off: off_t) -> *mut c_void {
    do_mmap(addr, len, prot, flags, fd, off)
}

#[no_mangle]
pub unsafe extern "C" fn munmap(addr: *mut c_void, len: size_t) -> c_int {
    if tracking() {
        let s = sd();
        let a = addr as usize;
        if s.maps.iter().any(|m| m.addr == a) {
            let _g = HarnessGuard::enter();
            s.maps.retain(|m| m.addr != a);
        }
    }
    libc::syscall(libc::SYS_munmap, addr, len) as c_int
}

#[no_mangle]
pub unsafe extern "C" fn unlink(path: *const c_char) -> c_int {
    if tracking() {
        if let Some(ps) = path_str(path) {
            let s = sd();
            if let Some(rel) = s.rel_of(ps) {
                let _g = HarnessGuard::enter();
                s.point('N', &rel, 0, 2);
                let r = libc::syscall(libc::SYS_unlinkat, libc::AT_FDCWD, path, 0) as c_int;
                if r == 0 {
                    s.files.remove(&rel);
                }
                return r;
            }
        }
    }
    libc::syscall(libc::SYS_unlinkat, libc::AT_FDCWD, path, 0) as c_int
}

#[no_mangle]
pub unsafe extern "C" fn unlinkat(dirfd: c_int, path: *const c_char, flags: c_int) -> c_int {
    if tracking() {
        if let Some(ps) = path_str(path) {
            let abs = if ps.starts_with('/') {
                Some(ps.to_string())
            } else if dirfd >= 0 {
                let _g = HarnessGuard::enter();
                std::fs::read_link(format!("/proc/self/fd/{}", dirfd))
                    .ok()
                    .map(|d| format!("{}/{}", d.to_string_lossy(), ps))
            } else {
                None
            };
            if let Some(abs) = abs {
                let s = sd();
                if let Some(rel) = s.rel_of(&abs) {
                    let _g = HarnessGuard::enter();
                    s.point('N', &rel, 0, 3);
                    let r = libc::syscall(libc::SYS_unlinkat, dirfd, path, flags) as c_int;
                    if r == 0 && flags & libc::AT_REMOVEDIR == 0 {
                        s.files.remove(&rel);
                    }
                    return r;
                }
            }
        }
    }
    libc::syscall(libc::SYS_unlinkat, dirfd, path, flags) as c_int
}

#[no_mangle]
pub unsafe extern "C" fn rename(from: *const c_char, to: *const c_char) -> c_int {
    if tracking() {
        if let (Some(f), Some(t)) = (path_str(from), path_str(to)) {
            let s = sd();
            if let (Some(rf), Some(rt)) = (s.rel_of(f), s.rel_of(t)) {
                let _g = HarnessGuard::enter();
                s.point('N', &rf, 0, 4);
                let r = libc::syscall(libc::SYS_renameat, libc::AT_FDCWD, from, libc::AT_FDCWD, to) as c_int;
                if r == 0 {
                    if std::path::Path::new(t).is_dir() {
                        // directory rename: move every tracked file under it
                        let pf = format!("{}/", rf);
                        let keys: Vec<String> = s.files.keys().filter(|k| k.starts_with(&pf)).cloned().collect();
                        for k in keys {
                            if let Some(mut st) = s.files.remove(&k) {
                                let nk = format!("{}/{}", rt, &k[pf.len()..]);
                                st.role = Role::of(&nk);
                                st.version += 1;
                                st.cached = None;
                                s.files.insert(nk, st);
                            }
                        }
                        for (_, v) in s.fds.iter_mut() {
                            if v.starts_with(&pf) {
                                *v = format!("{}/{}", rt, &v[pf.len()..]);
                            }
                        }
                        for m in s.maps.iter_mut() {
                            if m.rel.starts_with(&pf) {
                                m.rel = format!("{}/{}", rt, &m.rel[pf.len()..]);
                            }
                        }
                    } else if let Some(mut st) = s.files.remove(&rf) {
                        st.role = Role::of(&rt);
                        st.version += 1;
                        st.cached = None;
                        s.files.insert(rt.clone(), st);
                        for (_, v) in s.fds.iter_mut() {
                            if *v == rf {
                                *v = rt.clone();
                            }
                        }
                        for m in s.maps.iter_mut() {
                            if m.rel == rf {
                                m.rel = rt.clone();
                            }
                        }
                    }
                }
                return r;
            }
        }
    }
    libc::syscall(libc::SYS_renameat, libc::AT_FDCWD, from, libc::AT_FDCWD, to) as c_int
}

#[no_mangle]
pub unsafe extern "C" fn mkdir(path: *const c_char, mode: mode_t) -> c_int {
    if tracking() {
        if let Some(ps) = path_str(path) {
            let s = sd();
            if let Some(rel) = s.rel_of(ps) {
                let _g = HarnessGuard::enter();
                if !std::path::Path::new(ps).exists() {
                    s.point('N', &rel, 0, 5);
                }
            }
        }
    }
    libc::syscall(libc::SYS_mkdirat, libc::AT_FDCWD, path, mode as c_int) as c_int
}

#[no_mangle]
pub unsafe extern "C" fn rmdir(path: *const c_char) -> c_int {
    if tracking() {
        if let Some(ps) = path_str(path) {
            let s = sd();
            if let Some(rel) = s.rel_of(ps) {
                let _g = HarnessGuard::enter();
                s.point('N', &rel, 0, 6);
            }
        }
    }
    libc::syscall(libc::SYS_unlinkat, libc::AT_FDCWD, path, libc::AT_REMOVEDIR) as c_int
}

#[no_mangle]
pub unsafe extern "C" fn clock_gettime(clk: libc::clockid_t, ts: *mut libc::timespec) -> c_int {
    if !CLOCK_ACTIVE.load(Ordering::Relaxed) {
        return libc::syscall(libc::SYS_clock_gettime, clk, ts) as c_int;
    }
    let us = CLOCK_T0_US + CLOCK_US.fetch_add(1, Ordering::Relaxed) + 1;
    if !ts.is_null() {
        (*ts).tv_sec = (us / 1_000_000) as libc::time_t;
        (*ts).tv_nsec = ((us % 1_000_000) * 1000) as c_long;
    }
    0
}

#[no_mangle]
pub unsafe extern "C" fn nanosleep(req: *const libc::timespec, rem: *mut libc::timespec) -> c_int {
    if !CLOCK_ACTIVE.load(Ordering::Relaxed) {
        return libc::syscall(libc::SYS_nanosleep, req, rem) as c_int;
    }
    if !req.is_null() {
        let us = (*req).tv_sec as u64 * 1_000_000 + (*req).tv_nsec as u64 / 1000;
        CLOCK_US.fetch_add(us, Ordering::Relaxed);
    }
    0
}

#[no_mangle]
pub unsafe extern "C" fn getrandom(buf: *mut c_void, len: size_t, flags: libc::c_uint) -> ssize_t {
    if !ENTROPY_ACTIVE.load(Ordering::Relaxed) {
        return libc::syscall(libc::SYS_getrandom, buf, len, flags) as ssize_t;
    }
    let out = std::slice::from_raw_parts_mut(buf as *mut u8, len);
    let mut st = ENTROPY_STATE.load(Ordering::Relaxed);
    for chunk in out.chunks_mut(8) {
        let v = simcore::rng::splitmix64(&mut st).to_le_bytes();
        chunk.copy_from_slice(&v[..chunk.len()]);
    }
    ENTROPY_STATE.store(st, Ordering::Relaxed);
    len as ssize_t
}

// ---------------------------------------------------------------------------------------------
// ahash: hashbrown's iteration order must not depend on addresses
// ---------------------------------------------------------------------------------------------

struct FixedAhashSource;
static AHASH_COUNTER: AtomicU64 = AtomicU64::new(0);

impl ahash::random_state::RandomSource for FixedAhashSource {
    fn gen_hasher_seed(&self) -> usize {
        (AHASH_COUNTER.fetch_add(0x9E37_79B9, Ordering::Relaxed) as usize).wrapping_add(0x5851_F42D)
    }
}

/// Must be called at process start, before any hashbrown map is created.
pub fn plug_hash_order() {
    let _ = ahash::random_state::set_random_source(FixedAhashSource);
}

/// Called at the start of every run (child), so that the seeds do not depend on how many maps
/// the coordinator created before forking.
pub fn reset_hash_counter() {
    AHASH_COUNTER.store(0, Ordering::SeqCst);
}
