fn main() {
    // export our libc overrides in the dynamic symbol table so that dlsym(RTLD_DEFAULT, "getrandom")
    // (std's weak-symbol lookup) finds them
    println!("cargo:rustc-link-arg-bins=-rdynamic");
}
