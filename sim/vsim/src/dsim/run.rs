//! The dsim run loop: one simulated history against the real Database, the relational model as
//! oracle, crash images verified by reopening, lifecycle / configuration / bulk twins.

use super::exec::*;
use super::gen::*;
use super::model::*;
use super::obs::*;
use super::ops::*;
use simdisk::{self, CapturePolicy, CrashModel, Image};
use serde::{Deserialize, Serialize};
use serde_json::{json, Value};
use simcore::rng::{fnv1a, mix};
use simcore::{Rng, RunOutcome, Tier, Violation};
use std::collections::{BTreeMap, HashSet};
use std::path::PathBuf;

#[derive(Clone, Debug, Serialize, Deserialize)]
pub struct PinnedPoint {
    /// ordinal of the crash point within its step (1-based)
    pub nth: u64,
    pub kind: String,
    pub role: String,
    pub at: u64,
    pub model: String,
}

#[derive(Clone, Debug, Serialize, Deserialize)]
pub struct CrashSpec {
    /// step index whose crash points are imaged; None = every step
    pub step: Option<usize>,
    /// pinned single point (replay) or all points of the step(s)
    pub point: Option<PinnedPoint>,
}

#[derive(Clone, Debug, Serialize, Deserialize)]
pub struct Case {
    pub engine: String,
    pub profile: String,
    pub property: String,
    pub swarm: Swarm,
    pub steps: Vec<Step>,
    #[serde(default)]
    pub crash: Option<CrashSpec>,
    /// twin transform to run and compare (config / nolife / noindex / asinsert)
    #[serde(default)]
    pub twin: Option<String>,
    #[serde(default)]
    pub twin_cfg: Option<DbConfig>,
}

pub enum Source {
    Seeded { rng: Rng, gen: Gen },
    Explicit { steps: Vec<Step>, pos: usize },
}

#[derive(Clone, Debug)]
pub struct StepRecord {
    pub step: Step,
    pub actual: Actual,
    pub q: Option<(QPlan, QObs)>,
}

pub struct Ctx {
    pub profile: String,
    pub property: String,
    pub swarm: Swarm,
    pub tier: Tier,
    pub out: RunOutcome,
    pub log: u64,
    pub steps_done: Vec<Step>,
    pub crash: Option<CrashSpec>,
    pub img_seq: u64,
    pub images_verified: u64,
    pub max_images_per_step: usize,
    pub max_images_per_run: u64,
    pub image_cost: u64,
    pub max_image_cost_per_run: u64,
    pub stop: bool,
    pub fault_armed: bool,
    pub kinds: Vec<String>,
    pub seen_sigs: std::collections::BTreeSet<u64>,
}

fn prop_for_step(op: &Op) -> &'static str {
    match op {
        Op::Rollback | Op::RollbackTo(_) | Op::Release(_) | Op::Savepoint(_) | Op::Begin => "C07",
        Op::Checkpoint | Op::PragmaCheckpoint | Op::CloseReopen | Op::DropReopen | Op::Pragma { .. } => "C04",
        Op::Bulk { .. } => "C43",
        o if o.is_ddl() => "C21",
        _ => "C05",
    }
}

fn table_features(t: Option<&MTable>) -> String {
    match t {
        None => "none".into(),
        Some(t) => {
            let mut f = vec![];
            if t.def.cols.iter().any(|c| c.pk) {
                f.push("pk");
            }
            if t.def.cols.iter().any(|c| c.unique) {
                f.push("unique");
            }
            if !t.indexes.is_empty() {
                f.push("index");
            }
            if t.def.cols.iter().any(|c| c.fk.is_some()) {
                f.push("fk");
            }
            if t.def.cols.iter().any(|c| c.auto_inc) {
                f.push("autoinc");
            }
            for c in &t.def.cols {
                match &c.check {
                    Some(Pred::Between(..)) => {
                        if !f.contains(&"check-between") {
                            f.push("check-between")
                        }
                    }
                    Some(Pred::Cmp(_, CmpOp::Ne, _)) => {
                        if !f.contains(&"check-ne") {
                            f.push("check-ne")
                        }
                    }
                    Some(_) => {
                        if !f.contains(&"check") {
                            f.push("check")
                        }
                    }
                    None => {}
                }
            }
            if t.rows.iter().any(|r| r.iter().any(|v| matches!(v, Val::Text(s) if s.len() > 1000) || matches!(v, Val::Blob(b) if b.len() > 1000))) {
                f.push("toast");
            }
            f.join("+")
        }
    }
}

impl Ctx {
    pub fn case_json(&self, crash: Option<CrashSpec>) -> Value {
        let c = Case {
            engine: "dsim".into(),
            profile: self.profile.clone(),
            property: self.property.clone(),
            swarm: self.swarm.clone(),
            steps: self.steps_done.clone(),
            crash,
            twin: None,
            twin_cfg: None,
        };
        serde_json::to_value(&c).unwrap_or(Value::Null)
    }

    pub fn violate(&mut self, property: &str, verdict: &str, sig: &[(&str, String)], detail: String, crash: Option<CrashSpec>) {
        let mut m = BTreeMap::new();
        for (k, v) in sig {
            m.insert(k.to_string(), v.clone());
        }
        // the value-fidelity profile owns content differences: a stored value that reads back
        // differently is C11's verdict
        let (property, verdict) = if self.profile == "values" && property == "C05" && (verdict == "table-content-mismatch" || verdict == "wrong-result") && m.get("what").map_or(true, |w| w != "affected-count" && w != "count") {
            let blob_as_text = match detail.split_once("unexpected") {
                Some((missing, unexpected)) => missing.contains("x[") && unexpected.contains("'L") && !unexpected.contains("x["),
                None => false,
            };
            let kind = if blob_as_text { "long-blob-read-as-text" } else { m.get("what").map(|s| s.as_str()).unwrap_or("rows") }.to_string();
            m.insert("what".into(), kind);
            ("C11", "stored-value-differs")
        } else {
            (property, verdict)
        };
        // one violation per distinct signature per run: repeats add nothing and would exhaust the
        // per-run cap before the history has been explored
        let key = simcore::rng::fnv1a(format!("{}|{}|{:?}", property, verdict, m).as_bytes());
        if !self.seen_sigs.insert(key) {
            self.out.count("violations_repeated_in_run", 1);
            return;
        }
        let case = self.case_json(crash);
        self.out.violations.push(Violation {
            property: property.to_string(),
            verdict: verdict.to_string(),
            sig: m,
            detail,
            case,
        });
    }

    fn logev(&mut self, s: &str) {
        if std::env::var_os("VSIM_DEBUG").is_some() {
            use std::io::Write;
            let _g = simdisk::HarnessGuard::enter();
            if let Ok(mut f) = std::fs::OpenOptions::new().create(true).append(true).open(format!("/tmp/vsim-ev-{}.txt", std::process::id())) {
                let _ = writeln!(f, "EV {}", s.chars().take(600).collect::<String>());
            }
        }
        self.log = mix(self.log, fnv1a(s.as_bytes()));
    }
}

fn is_long(v: &Val) -> bool {
    match v {
        Val::Long { len, .. } => *len > 900,
        Val::Text(s) => s.len() > 900,
        Val::Blob(b) => b.len() > 900,
        _ => false,
    }
}

/// Does the statement write a TOAST-sized value?
fn op_has_long(op: &Op) -> bool {
    match op {
        Op::Insert { rows, .. } | Op::Bulk { rows, .. } => rows.iter().any(|r| r.iter().any(is_long)),
        Op::Update { sets, .. } => sets.iter().any(|(_, e)| matches!(e, SetExpr::Const(v) if is_long(v))),
        _ => false,
    }
}

/// Does the statement's predicate mention a column that currently holds a TOAST-sized value?
fn pred_on_toast_col(op: &Op, t: Option<&MTable>) -> bool {
    let (p, t) = match (op, t) {
        (Op::Update { pred, .. }, Some(t)) | (Op::Delete { pred, .. }, Some(t)) | (Op::Select { pred, .. }, Some(t)) => (pred, t),
        _ => return false,
    };
    let mut cs = vec![];
    p.columns(&mut cs);
    cs.iter().any(|c| match t.def.col_index(c) {
        Some(i) => t.rows.iter().any(|r| is_long(&r[i])),
        None => false,
    })
}

fn stmt_shape(op: &Op, pred: &Prediction) -> String {
    match op {
        Op::Insert { rows, .. } => {
            if rows.len() > 1 {
                match pred.failing_row {
                    Some(0) => "multirow-first-row-fails".into(),
                    Some(_) => "multirow-later-row-fails".into(),
                    None => "multirow".into(),
                }
            } else {
                "single-row".into()
            }
        }
        Op::Update { .. } => match pred.failing_row {
            Some(0) => "first-target-fails".into(),
            Some(_) => "later-target-fails".into(),
            None => "update".into(),
        },
        _ => "-".into(),
    }
}

fn is_toast_pointer(v: &Val) -> bool {
    match v {
        Val::Blob(b) => b.len() == 17,
        Val::Text(s) => s.starts_with("?ToastPointer"),
        _ => false,
    }
}

/// Classify how two RETURNING bags differ.
fn returning_diff_kind(expected: &[Row], observed: &[Row]) -> &'static str {
    let (m, x) = bag_diff(expected, observed);
    if m.len() != x.len() {
        return "returning-rows";
    }
    // every missing row must pair with an unexpected row that differs only in cells that are
    // (a) BOOLEAN returned as 0/1 or (b) a TOAST-sized value returned as the TOAST pointer
    let mut explained = true;
    let mut any_toast = false;
    for e in &m {
        let mut row_ok = false;
        for o in &x {
            if o.len() != e.len() {
                continue;
            }
            let mut ok = true;
            let mut toast_here = false;
            for (a, b) in e.iter().zip(o.iter()) {
                if a == b {
                    continue;
                }
                let bool_int = matches!((a, b), (Val::Bool(t), Val::Int(i)) if (*t as i64) == *i);
                let toast = matches!(a, Val::Text(s) if s.len() > 900) && is_toast_pointer(b)
                    || matches!(a, Val::Blob(s) if s.len() > 900) && is_toast_pointer(b);
                if toast {
                    toast_here = true;
                }
                if !bool_int && !toast {
                    ok = false;
                    break;
                }
            }
            if ok {
                row_ok = true;
                any_toast |= toast_here;
                break;
            }
        }
        explained &= row_ok;
    }
    if !explained {
        "returning-rows"
    } else if any_toast {
        "returning-toast-pointer"
    } else {
        "returning-bool-as-int"
    }
}

/// Compare a successful engine result with the model's; returns (kind, description) of the mismatch.
fn compare_ok(exp: &Res, act: &ARes) -> Option<(&'static str, String)> {
    match (exp, act) {
        (Res::Unit, _) => None,
        (Res::Affected { n, returning }, ARes::Affected { n: an, returning: ar }) => {
            if n != an {
                return Some(("affected-count", format!("affected rows: expected {}, got {}", n, an)));
            }
            if let Some(er) = returning {
                match ar {
                    None => return Some(("returning-missing", "RETURNING rows missing".into())),
                    Some(ar) => {
                        if !bags_equal(er, ar) {
                            let (m, x) = bag_diff(er, ar);
                            let ern: Vec<Row> = er.iter().map(norm_row).collect();
                            let arn: Vec<Row> = ar.iter().map(norm_row).collect();
                            return Some((returning_diff_kind(&ern, &arn), format!("RETURNING: missing {} unexpected {}", fmt_bag(&m), fmt_bag(&x))));
                        }
                    }
                }
            }
            None
        }
        (Res::Rows(er), ARes::Rows { rows, .. }) => {
            if !bags_equal(er, rows) {
                let (m, x) = bag_diff(er, rows);
                Some(("rows", format!("rows: missing {} unexpected {}", fmt_bag(&m), fmt_bag(&x))))
            } else {
                None
            }
        }
        (Res::Count(n), ARes::Rows { rows, .. }) => {
            if rows.len() == 1 && rows[0].len() == 1 && rows[0][0] == Val::Int(*n) {
                None
            } else {
                Some(("count", format!("COUNT(*): expected {}, got {}", n, fmt_bag(rows))))
            }
        }
        (e, a) => Some(("shape", format!("result shape: expected {:?}, got {:?}", e, a))),
    }
}

pub struct History {
    pub live: Live,
    pub model: Model,
    pub records: Vec<StepRecord>,
}

fn open_image_and_observe(ctx: &mut Ctx, img: &Image, plan: &QPlan) -> Result<(QObs, Option<String>), String> {
    ctx.img_seq += 1;
    let dir = simcore::pool::child_scratch().join(format!("img{}", ctx.img_seq));
    let dirs = dir.to_string_lossy().to_string();
    simdisk::write_image(img, &dirs);
    let _g = simdisk::HarnessGuard::enter();
    let dbpath = dir.join("db");
    let res = (|| {
        let db = match guarded(|| turdb::Database::open(&dbpath)) {
            Err(site) => return Err(format!("PANIC at {} in Database::open", site)),
            Ok(Err(e)) => return Err(format!("open failed: {:#}", e)),
            Ok(Ok(db)) => db,
        };
        let live = Live {
            path: dbpath.clone(),
            cfg: DbConfig::durable(),
            sessions: vec![Some(db)],
        };
        let obs = live_obs(&live, 0, plan);
        // writable after recovery? one fresh-key insert into the first table with an int pk
        let mut wr = None;
        let _ = &mut wr;
        let r = guarded(|| drop(live));
        if let Err(site) = r {
            return Err(format!("PANIC at {} while dropping recovered database", site));
        }
        Ok((obs, wr))
    })();
    let _ = std::fs::remove_dir_all(&dir);
    res
}

/// Second recovery path (C02): open the same image with the recovery budget forced to zero so
/// that the database comes up read-only degraded, run `PRAGMA recover_wal` (streaming recovery)
/// and observe. Ok(None) when the image has no WAL frames to recover (nothing to compare).
fn observe_via_streaming_recovery(ctx: &mut Ctx, img: &Image, plan: &QPlan) -> Result<Option<QObs>, String> {
    ctx.img_seq += 1;
    let dir = simcore::pool::child_scratch().join(format!("img{}", ctx.img_seq));
    simdisk::write_image(img, &dir.to_string_lossy());
    let _g = simdisk::HarnessGuard::enter();
    let dbpath = dir.join("db");
    simdisk::set_knob("recovery_available", Some(0));
    let opened = guarded(|| turdb::Database::open(&dbpath));
    simdisk::set_knob("recovery_available", None);
    let res = (|| {
        let db = match opened {
            Err(site) => return Err(format!("PANIC at {} in Database::open (degraded)", site)),
            Ok(Err(e)) => return Err(format!("open (degraded) failed: {:#}", e)),
            Ok(Ok(db)) => db,
        };
        let live = Live { path: dbpath.clone(), cfg: DbConfig::durable(), sessions: vec![Some(db)] };
        let mode = match live.query(0, "PRAGMA database_mode") {
            Actual::Ok(ARes::Text(t)) => t,
            other => return Err(format!("PRAGMA database_mode: {}", other.brief())),
        };
        if !mode.contains("degraded") {
            let _ = guarded(|| drop(live));
            return Ok(None);
        }
        match live.query(0, "PRAGMA recover_wal") {
            Actual::Ok(_) => {}
            other => return Err(format!("PRAGMA recover_wal: {}", other.brief())),
        }
        let obs = live_obs(&live, 0, plan);
        if let Err(site) = guarded(|| drop(live)) {
            return Err(format!("PANIC at {} while dropping the database after PRAGMA recover_wal", site));
        }
        Ok(Some(obs))
    })();
    let _ = std::fs::remove_dir_all(&dir);
    res
}

/// Bag intersection (rows present in both, with multiplicity).
fn bag_intersect(a: &[Row], b: &[Row]) -> Vec<Row> {
    let mut rest: Vec<Row> = b.to_vec();
    let mut out = vec![];
    for r in a {
        if let Some(p) = rest.iter().position(|x| x == r) {
            rest.swap_remove(p);
            out.push(r.clone());
        }
    }
    out
}

/// Verify the crash images taken during one step.
#[allow(clippy::too_many_arguments)]
fn verify_images(
    ctx: &mut Ctx,
    images: Vec<Image>,
    step_idx: usize,
    op: &Op,
    acked: &DbState,
    accept: &[DbState],
    in_txn: bool,
    first_ordinal: u64,
    after_checkpoint: bool,
    since_open: &str,
) {
    if images.is_empty() {
        return;
    }
    let mut seen: HashSet<u64> = HashSet::new();
    let mut uniq: Vec<Image> = vec![];
    for im in images {
        if seen.insert(im.hash) {
            uniq.push(im);
        }
    }
    ctx.out.count("images_distinct", uniq.len() as u64);
    // sub-sample evenly
    let stepby = uniq.len().div_ceil(ctx.max_images_per_step.max(1)).max(1);
    let mut states: Vec<&DbState> = vec![acked];
    for a in accept {
        states.push(a);
    }
    let plan = plan_q(&states, None, 6);
    let exp_acked = model_obs(acked, &plan);
    let exp_accept: Vec<QObs> = accept.iter().map(|a| model_obs(a, &plan)).collect();
    for (i, img) in uniq.iter().enumerate() {
        // the image taken when the statement has returned (kind B) is always verified: it is the one
        // that decides "acknowledged, therefore durable"
        let is_boundary = img.point.kind == 'B';
        if i % stepby != 0 && !is_boundary && ctx.crash.as_ref().and_then(|c| c.point.as_ref()).is_none() {
            continue;
        }
        // deterministic cost model (replayable, unlike a wall-clock cut): one unit per image plus one
        // per 64 KiB it holds. Boundary images are always judged (two per step); the others share a
        // budget that is released step by step, so that late steps of a long history (the COMMIT
        // of a large transaction) are not starved by the early ones.
        let cost = 1 + img.files.iter().map(|(_, b)| b.len() as u64).sum::<u64>() / 65_536;
        if !is_boundary && ctx.crash.as_ref().and_then(|c| c.point.as_ref()).is_none() {
            let planned = ctx.swarm.n_ops.max(1) as u64;
            let released = ctx.max_image_cost_per_run * (step_idx as u64 + 1).min(planned) / planned;
            if ctx.image_cost + cost > released {
                ctx.out.count("images_skipped_budget", 1);
                continue;
            }
            ctx.image_cost += cost;
            if ctx.images_verified >= ctx.max_images_per_run {
                ctx.out.count("images_skipped_budget", 1);
                continue;
            }
        }
        ctx.images_verified += 1;
        ctx.out.count("images_verified", 1);
        ctx.out.count(&format!("verified/{}/{}/{}", img.point.kind, img.point.role.as_str(), img.model.as_str().split('(').next().unwrap_or("")), 1);
        let pinned = CrashSpec {
            step: Some(step_idx),
            point: Some(PinnedPoint {
                nth: img.point.ordinal - first_ordinal,
                kind: img.point.kind.to_string(),
                role: img.point.role.as_str().to_string(),
                at: img.point.at,
                model: img.model.as_str(),
            }),
        };
        let base_sig = |ctx: &Ctx| -> Vec<(&'static str, String)> {
            vec![
                ("stmt", op.kind().to_string()),
                ("in_txn", in_txn.to_string()),
                ("crash_kind", img.point.kind.to_string()),
                ("crash_role", img.point.role.as_str().to_string()),
                ("model", img.model.as_str().split('(').next().unwrap_or("").to_string()),
                ("wal", ctx.swarm.cfg.wal.to_string()),
                ("after_checkpoint", after_checkpoint.to_string()),
                ("since_open", since_open.to_string()),
                ("auto_ckpt", ctx.swarm.cfg.checkpoint_threshold.is_some().to_string()),
            ]
        };
        let where_ = format!(
            "crash at step {} ({}) point #{} {}:{}:{}@{} model {}",
            step_idx,
            op.kind(),
            img.point.ordinal - first_ordinal,
            img.point.kind,
            img.point.role.as_str(),
            img.point.file,
            img.point.at,
            img.model.as_str()
        );
        match open_image_and_observe(ctx, img, &plan) {
            Err(e) => {
                let mut sig = base_sig(ctx);
                let what = if e.starts_with("PANIC") { "panic" } else { "error" };
                sig.push(("how", what.to_string()));
                if let Some(site) = e.strip_prefix("PANIC at ") {
                    sig.push(("site", site.split(' ').next().unwrap_or("").to_string()));
                }
                ctx.violate("C02", "open-failed", &sig, format!("{}: {}", where_, e), Some(pinned.clone()));
                if op.is_ddl() && !acked.tables.is_empty() {
                    ctx.violate("C40", "open-failed-during-ddl", &sig, format!("{}: {}", where_, e), Some(pinned.clone()));
                }
                if !acked.tables.is_empty() {
                    ctx.violate("C01", "acked-data-unreachable", &sig, format!("{}: {}", where_, e), Some(pinned));
                }
            }
            Ok((obs, _)) => {
                // both recovery paths must produce the same state (sampled: every 3rd image)
                let pinned_replay = ctx.crash.as_ref().and_then(|c| c.point.as_ref()).is_some();
                // only where automatic recovery produced a legitimate state: when it did not, that is
                // reported by itself below and a second opinion on garbage says nothing
                let acceptable = exp_accept.iter().any(|e| diff_obs(e, &obs, &plan).is_none()) || diff_obs(&exp_acked, &obs, &plan).is_none();
                if (pinned_replay || img.hash % 3 == 0) && acceptable {
                    ctx.out.count("recovery_paths_compared", 1);
                    match observe_via_streaming_recovery(ctx, img, &plan) {
                        Ok(None) => ctx.out.count("recovery_paths_no_wal", 1),
                        Ok(Some(obs2)) => {
                            if let Some(d) = diff_obs(&obs, &obs2, &plan) {
                                let mut sig = base_sig(ctx);
                                sig.push(("what", d.what.clone()));
                                let ft = accept.last().unwrap_or(acked).tables.get(&d.table).or(acked.tables.get(&d.table));
                                sig.push(("features", table_features(ft)));
                                ctx.violate(
                                    "C02",
                                    "recovery-paths-differ",
                                    &sig,
                                    format!("{}: automatic recovery at open and PRAGMA recover_wal disagree (expected = automatic path): {}", where_, d.detail),
                                    Some(pinned.clone()),
                                );
                            }
                        }
                        Err(e) => {
                            let mut sig = base_sig(ctx);
                            sig.push(("how", if e.starts_with("PANIC") { "panic".into() } else { "error".into() }));
                            if let Some(site) = panic_site_in(&e) {
                                sig.push(("site", site));
                            }
                            ctx.violate("C02", "streaming-recovery-failed", &sig, format!("{}: {}", where_, e), Some(pinned.clone()));
                        }
                    }
                }
                if acceptable {
                    continue;
                }
                // not acceptable. C01: is anything acknowledged missing?
                let mut c01: Option<(String, String)> = None;
                let full = accept.last().unwrap_or(acked);
                for (tn, t) in &acked.tables {
                    // tables the in-flight unit drops are not obligations
                    let tf = match full.tables.get(tn) {
                        Some(tf) => tf,
                        None => continue,
                    };
                    match obs.get(tn) {
                        Some(TableObs::Data { scan, .. }) => {
                            // rows untouched by the in-flight unit must be there; only comparable
                            // when the unit did not change the table's shape
                            if tf.def.cols.len() != t.def.cols.len() {
                                continue;
                            }
                            let a: Vec<Row> = t.rows.iter().map(norm_row).collect();
                            let f: Vec<Row> = tf.rows.iter().map(norm_row).collect();
                            let must = bag_intersect(&a, &f);
                            let (missing, extra) = bag_diff(&must, scan);
                            if !missing.is_empty() {
                                // classify: does a row with the same key exist with other values?
                                let keycol = t.def.cols.iter().position(|c| c.pk);
                                let mut verdict = "acked-row-missing";
                                if let Some(k) = keycol {
                                    if missing.iter().any(|m| extra.iter().any(|x| x.get(k) == m.get(k))) {
                                        verdict = "acked-update-reverted";
                                    }
                                }
                                c01 = Some((
                                    verdict.to_string(),
                                    format!("table {}: acknowledged rows missing {} (unexpected {})", tn, fmt_bag(&missing), fmt_bag(&extra)),
                                ));
                                break;
                            }
                        }
                        Some(TableObs::Missing) => {
                            c01 = Some(("acked-table-lost".into(), format!("table {} (created and acknowledged) is missing", tn)));
                            break;
                        }
                        Some(TableObs::Error(e)) => {
                            c01 = Some(("acked-table-unreadable".into(), format!("table {} unreadable: {}", tn, e)));
                            break;
                        }
                        None => {}
                    }
                }
                // C02: classify against the nearest acceptable state (mildest kind of difference)
                let d_acked = diff_obs(&exp_acked, &obs, &plan);
                let d_full = exp_accept.last().and_then(|e| diff_obs(e, &obs, &plan));
                let severity = |d: &Option<ObsDiff>| -> u32 {
                    match d.as_ref().map(|d| d.what.as_str()) {
                        None => 0,
                        Some("count") => 1,
                        Some("lookup") => 2,
                        Some("scan") => 3,
                        _ => 4,
                    }
                };
                let mut cands: Vec<Option<ObsDiff>> = vec![d_acked.clone()];
                for e in &exp_accept {
                    cands.push(diff_obs(e, &obs, &plan));
                }
                cands.sort_by_key(|c| severity(c));
                let d = cands.into_iter().next().flatten().or(d_full.clone());
                let (verdict, detail) = match &d {
                    Some(d) => {
                        let v = match d.what.as_str() {
                            "unreadable" => "unreadable",
                            "count" => "count-mismatch",
                            "lookup" => "index-mismatch",
                            "missing" | "unexpected-table" => "table-set-mismatch",
                            _ => {
                                if in_txn {
                                    "partial-transaction"
                                } else {
                                    "partial-statement"
                                }
                            }
                        };
                        (v, d.detail.clone())
                    }
                    None => ("not-acceptable", String::new()),
                };
                let mut sig = base_sig(ctx);
                sig.push(("what", d.as_ref().map(|d| d.what.clone()).unwrap_or_default()));
                sig.push(("features", table_features(d.as_ref().and_then(|d| full.tables.get(&d.table).or(acked.tables.get(&d.table))))));
                if let Some((v1, d1)) = &c01 {
                    ctx.violate("C01", v1, &sig, format!("{}: {}", where_, d1), Some(pinned.clone()));
                    if op.is_ddl() && v1 == "acked-table-lost" {
                        ctx.violate("C40", "pre-existing-table-lost", &sig, format!("{}: {}", where_, d1), Some(pinned.clone()));
                    }
                }
                ctx.violate(
                    "C02",
                    verdict,
                    &sig,
                    format!(
                        "{}: recovered state is neither the acknowledged state nor acknowledged+in-flight unit. vs acked: {} | vs acked+unit: {}",
                        where_,
                        d_acked.map(|d| d.detail).unwrap_or_else(|| "equal".into()),
                        if detail.is_empty() { "equal".into() } else { detail }
                    ),
                    Some(pinned),
                );
            }
        }
        if ctx.out.violations.len() > 60 {
            ctx.stop = true;
            return;
        }
    }
}

/// Run one history. `src` supplies the steps.
pub fn run_history(ctx: &mut Ctx, src: &mut Source, seed: u64) -> Option<History> {
    let root = simcore::pool::child_scratch().join("live");
    let _ = std::fs::create_dir_all(&root);
    simdisk::reset_hash_counter();
    simdisk::install(root.to_str().unwrap_or("/dev/shm/vsim-x"), seed);
    install_panic_hook();
    if ctx.crash.is_some() {
        simdisk::with(|sd| sd.track_durable = true);
    }
    let dbpath: PathBuf = root.join("db");
    let nsess = ctx.swarm.sessions.max(1);
    let mut live = match Live::create(&dbpath, &ctx.swarm.cfg, nsess) {
        Ok(l) => l,
        Err(e) => {
            ctx.out.harness_error = Some(format!("cannot create database: {}", e));
            return None;
        }
    };
    let mut model = Model::new(nsess);
    let mut records: Vec<StepRecord> = vec![];
    let crash_profile = ctx.crash.is_some();
    let n_ops = ctx.swarm.n_ops;
    let mut step_idx = 0usize;
    let mut sched = Rng::new(mix(seed, 0x5C4ED));
    let mut rolled_back = false;
    let mut aborted_by_reopen = false;
    let mut rolled_back_since_open = false;
    // TRUNCATE is not logged (KF-C04-01): once one ran with the WAL on, any later WAL replay
    // (explicit, automatic or at open) can bring the truncated rows back
    let mut truncated_under_wal = false;
    // per table: the largest AUTO_INCREMENT value that was ever part of the committed state
    let mut committed_auto_max: std::collections::BTreeMap<String, i64> = Default::default();
    // tables that got a column added while they held rows (old rows keep the old record layout)
    let mut widened_tables: Vec<String> = vec![];
    let mut ever_long = false;
    let mut after_checkpoint = false;
    let mut ddl_since_reopen: Vec<&'static str> = vec![];
    let mut since_open: Vec<&'static str> = vec![];
    loop {
        if ctx.stop {
            break;
        }
        let step = match src {
            Source::Seeded { rng, gen } => {
                if step_idx >= n_ops {
                    break;
                }
                let s = if nsess > 1 { sched.usize_below(nsess) } else { 0 };
                let op = gen.next_op(rng, &ctx.swarm, &model, s);
                Step { s, op }
            }
            Source::Explicit { steps, pos } => {
                if *pos >= steps.len() {
                    break;
                }
                let st = steps[*pos].clone();
                *pos += 1;
                st
            }
        };
        ctx.steps_done.push(step.clone());
        ctx.logev(&format!("{:?}", step));
        ctx.kinds.push(step.op.kind().to_string());
        let s = step.s.min(nsess - 1);
        let op = &step.op;

        if let Op::ArmFault { call, role, countdown, errno, short } = op {
            let role_e = match role.as_str() {
                "wal" => simdisk::Role::Wal,
                "table" => simdisk::Role::Table,
                "index" => simdisk::Role::Index,
                "catalog" => simdisk::Role::Catalog,
                "meta" => simdisk::Role::Meta,
                _ => simdisk::Role::Other,
            };
            simdisk::with(|sd| {
                sd.faults.clear();
                sd.faults.push(simdisk::ArmedFault {
                    call: call.clone(),
                    role: role_e,
                    countdown: *countdown,
                    errno: *errno,
                    short: *short,
                    fired: false,
                })
            });
            ctx.fault_armed = true;
            step_idx += 1;
            continue;
        }

        if op_has_long(op) {
            ever_long = true;
        }
        let pred = model.predict(s, op);
        // which kinds of writes would a rollback undo? (signature of C07 verdicts)
        let undone_kinds: String = {
            let mut ks: Vec<&str> = vec![];
            if let Some(t) = model.sessions[s].txn.as_ref() {
                let from = match op {
                    Op::RollbackTo(n) => t.saves.iter().rposition(|(x, _)| x == n).map(|p| p),
                    _ => None,
                };
                let _ = from;
                for w in &t.writes {
                    let k = w.kind();
                    if !ks.contains(&k) {
                        ks.push(k);
                    }
                }
            }
            ks.sort();
            ks.join("+")
        };
        let view_before = model.view(s).clone();
        let committed_before = model.committed.clone();
        let in_txn_before = model.in_txn(s);

        // crash capture for this step?
        let capture_here = match &ctx.crash {
            Some(c) => c.step.map_or(true, |k| k == step_idx),
            None => false,
        };
        let first_ordinal = simdisk::with(|sd| {
            sd.points_in_op = 0;
            if capture_here {
                let pin = ctx.crash.as_ref().and_then(|c| c.point.clone());
                let model_filter = pin.as_ref().and_then(|p| CrashModel::parse(&p.model));
                sd.capture = Some(CapturePolicy {
                    kill: model_filter.map_or(true, |m| m == CrashModel::Kill),
                    power_strict: model_filter.map_or(true, |m| m == CrashModel::PowerStrict),
                    power_random: 0,
                    kinds: vec![],
                    only_ordinal: pin.as_ref().map(|p| sd.ordinal + p.nth),
                    max_points: 4000,
                });
            } else {
                sd.capture = None;
            }
            sd.ordinal
        });

        ctx.out.count(&format!("op/{}", op.kind()), 1);
        let wal_bytes_before = simdisk::with(|sd| sd.counters.get("bytes/wal").copied().unwrap_or(0));
        let actual = live.exec(&step);
        if matches!(op, Op::Commit) {
            let wrote = simdisk::with(|sd| sd.counters.get("bytes/wal").copied().unwrap_or(0)) - wal_bytes_before;
            if wrote > 16 * 16_416 {
                ctx.out.count("probe/commit_more_than_16_pages", 1);
            }
            if wrote > 0 {
                ctx.out.count("probe/commit_logged", 1);
            }
        }
        simdisk::boundary_point();
        let fault_fired = if ctx.fault_armed {
            let f = simdisk::with(|sd| {
                let fired = sd.faults.iter().any(|f| f.fired);
                sd.faults.clear();
                fired
            });
            ctx.fault_armed = false;
            f
        } else {
            false
        };
        let images = if capture_here { simdisk::take_images() } else { vec![] };
        simdisk::with(|sd| sd.capture = None);
        ctx.logev(&actual.brief());

        let tname = op.table().map(|t| t.to_string());
        let feat = table_features(tname.as_ref().and_then(|t| view_before.tables.get(t)));
        let sig_base: Vec<(&str, String)> = vec![
            ("stmt", op.kind().to_string()),
            ("in_txn", in_txn_before.to_string()),
            ("features", feat.clone()),
            ("shape", stmt_shape(op, &pred)),
            ("api", match op { Op::Bulk { api, .. } => format!("{:?}", api), Op::Insert { api, .. } => format!("{:?}", api), _ => "-".into() }),
            ("long_value", op_has_long(op).to_string()),
            ("db_has_toast", ever_long.to_string()),
            (
                "has_empty_var",
                tname
                    .as_ref()
                    .and_then(|t| view_before.tables.get(t))
                    .map_or(false, |t| t.rows.iter().any(|r| r.iter().any(|v| matches!(v, Val::Blob(b) if b.is_empty()) || matches!(v, Val::Text(x) if x.is_empty()))))
                    .to_string(),
            ),
            (
                "composite_index",
                tname
                    .as_ref()
                    .and_then(|t| view_before.tables.get(t))
                    .map_or(false, |t| t.indexes.iter().any(|i| i.cols.len() > 1) || matches!(op, Op::CreateIndex { index, .. } if index.cols.len() > 1))
                    .to_string(),
            ),
            (
                // a composite index over a table holding a row with NULL in a later indexed column
                // (the condition of KF-C10-03 / KF-C21-04), before or after this statement
                "composite_null_row",
                {
                    let has = |t: &MTable, extra: Option<&IndexDef>| {
                        t.indexes.iter().chain(extra).filter(|i| i.cols.len() > 1).any(|i| {
                            i.cols[1..].iter().filter_map(|c| t.def.col_index(c)).any(|ci| t.rows.iter().any(|r| r[ci].is_null()))
                        })
                    };
                    let extra = match op {
                        Op::CreateIndex { index, .. } => Some(index),
                        _ => None,
                    };
                    let before = tname.as_ref().and_then(|t| view_before.tables.get(t)).map_or(false, |t| has(t, extra));
                    let after = tname.as_ref().and_then(|t| pred.new_view.as_ref().and_then(|v| v.tables.get(t))).map_or(false, |t| has(t, extra));
                    (before || after).to_string()
                },
            ),
            ("rolled_back", rolled_back.to_string()),
            ("aborted_by_reopen", aborted_by_reopen.to_string()),
            ("truncated_under_wal", truncated_under_wal.to_string()),
            (
                "table_widened",
                (tname.as_ref().map_or(false, |t| widened_tables.contains(t))
                    || matches!(op, Op::AddColumn { table, .. } if view_before.tables.get(table).map_or(false, |t| !t.rows.is_empty())))
                .to_string(),
            ),
            ("pred_on_toast_col", pred_on_toast_col(op, tname.as_ref().and_then(|t| view_before.tables.get(t))).to_string()),
        ];
        let desc = format!("step {} [s{}] {}", step_idx, s, op.short());

        // ---- panic
        if let Actual::Panic(site) = &actual {
            let mut sig = sig_base.clone();
            sig.push(("site", site.clone()));
            let prop = ctx.property.clone();
            ctx.violate(&prop, "panic", &sig, format!("{} panicked at {}", desc, site), None);
            records.push(StepRecord { step: step.clone(), actual, q: None });
            ctx.stop = true;
            break;
        }

        // ---- C08 lost update: this COMMIT succeeds although a row this transaction wrote was
        // changed and committed by another session after this transaction began
        if ctx.profile == "iso" && matches!(op, Op::Commit) && actual.is_ok() {
            if let Some(t) = model.sessions[s].txn.as_ref() {
                if t.base_version != model.version {
                    for (tn, cur) in &t.cur.tables {
                        let (begin, now) = match (t.begin.tables.get(tn), model.committed.tables.get(tn)) {
                            (Some(b), Some(n)) => (b, n),
                            _ => continue,
                        };
                        let key = match cur.def.cols.iter().position(|c| c.pk) {
                            Some(k) => k,
                            None => continue,
                        };
                        for br in &begin.rows {
                            let mine = cur.rows.iter().find(|r| r[key] == br[key]);
                            let theirs = now.rows.iter().find(|r| r[key] == br[key]);
                            let i_changed = mine.map_or(true, |r| r != br);
                            let they_changed = theirs.map_or(true, |r| r != br);
                            if i_changed && they_changed {
                                let sig = sig_base.clone();
                                ctx.violate(
                                    "C08",
                                    "lost-update",
                                    &sig,
                                    format!("{}: row with key {} of {} was modified by this transaction and, after its BEGIN, by another session that already committed; both commits succeeded", desc, br[key].short(), tn),
                                    None,
                                );
                            }
                        }
                    }
                }
            }
        }

        // ---- outcome vs model
        let mut effect_applied = false;
        let mut diverged = false;
        let mut returning_only = false;
        let _ = &returning_only;
        let mut new_view = pred.new_view.clone();
        match (&pred.expected, &actual) {
            (Ok(exp), Actual::Ok(act)) => {
                // adopt generated ids (C12 monitors them)
                if let (Some((tn, pos, ac)), ARes::Affected { returning: Some(ret), .. }) = (&pred.generated, act) {
                    if let Some(nv) = new_view.as_mut() {
                        let bad = adopt_generated(ctx, &view_before, nv, tn, pos, *ac, ret, &desc, &sig_base, committed_auto_max.get(tn).copied().unwrap_or(0));
                        if bad {
                            diverged = true;
                        }
                    }
                }
                let exp2 = match (&pred.generated, exp, &new_view) {
                    (Some((tn, pos, _)), Res::Affected { n, returning: Some(_) }, Some(nv)) => {
                        // expected RETURNING rows after adoption
                        let t = &nv.tables[tn];
                        let base = t.rows.len() - n;
                        let _ = pos;
                        Res::Affected { n: *n, returning: Some(t.rows[base..].to_vec()) }
                    }
                    _ => exp.clone(),
                };
                if !diverged {
                    if let Some((mkind, m)) = compare_ok(&exp2, act) {
                        let is_read = matches!(op, Op::Select { .. } | Op::Count(_));
                        if is_read && ctx.profile == "iso" {
                            let (verdict, detail) = match (op, &exp2, act) {
                                (Op::Select { table, .. }, Res::Rows(er), ARes::Rows { rows, .. }) => {
                                    let o: Vec<Row> = rows.iter().map(norm_row).collect();
                                    classify_isolation(&model, s, table, er, &o)
                                }
                                _ => ("read-mismatch", m.clone()),
                            };
                            let mut sig = sig_base.clone();
                            sig.push(("reader_in_txn", in_txn_before.to_string()));
                            let others_open = model.sessions.iter().enumerate().any(|(i, x)| i != s && x.txn.is_some());
                            if verdict != "read-mismatch" {
                                ctx.violate("C08", verdict, &sig, format!("{}: {}", desc, detail), None);
                            } else if matches!(op, Op::Count(_)) && others_open {
                                ctx.violate("C08", "dirty-count", &sig, format!("{}: {}", desc, detail), None);
                            } else {
                                // not an isolation anomaly: owned by the property of single-session semantics
                                let prop = if matches!(op, Op::Count(_)) { "C05" } else { "C10" };
                                ctx.violate(prop, "read-mismatch", &sig, format!("{}: {}", desc, detail), None);
                            }
                            diverged = true;
                        } else if is_read {
                            // is the table content right? then the filtered read is wrong
                            let only = tname.clone().map(|t| vec![t]);
                            let plan = plan_q(&[model.view(s)], only.as_deref(), 0);
                            let exp_o = model_obs(model.view(s), &plan);
                            let obs = live_obs(&live, s, &plan);
                            let content_ok = match diff_obs(&exp_o, &obs, &plan) {
                                None => true,
                                Some(d) => d.what != "scan",
                            };
                            let indexed = match (op, tname.as_ref().and_then(|t| view_before.tables.get(t))) {
                                (Op::Select { pred: p, .. }, Some(t)) => {
                                    let mut cs = vec![];
                                    p.columns(&mut cs);
                                    let ix = t.indexed_cols();
                                    cs.iter().any(|c| t.def.col_index(c).map_or(false, |i| ix.contains(&i)))
                                }
                                _ => false,
                            };
                            let mut sig = sig_base.clone();
                            sig.push(("indexed", indexed.to_string()));
                            if let Op::Select { pred: Pred::And(a, b), .. } = op {
                                let (mut ca, mut cb) = (vec![], vec![]);
                                a.columns(&mut ca);
                                b.columns(&mut cb);
                                if indexed && ca.iter().any(|c| cb.contains(c)) {
                                    sig.push(("pred_shape", "and-same-indexed-column".to_string()));
                                }
                            }
                            if matches!(op, Op::Count(_)) {
                                ctx.violate("C05", "count-mismatch", &sig, format!("{}: {}", desc, m), None);
                            } else if content_ok && indexed {
                                ctx.violate("C10", "index-result-mismatch", &sig, format!("{}: {} (full scan agrees with the model)", desc, m), None);
                            } else if content_ok {
                                ctx.violate("C14", "predicate-mismatch", &sig, format!("{}: {}", desc, m), None);
                            } else {
                                ctx.violate("C05", "table-content-mismatch", &sig, format!("{}: {}", desc, m), None);
                                diverged = true;
                            }
                        } else {
                            let prop = prop_for_step(op);
                            let mut sig = sig_base.clone();
                            sig.push(("what", mkind.to_string()));
                            if ctx.profile == "iso" && mkind == "affected-count" && model.sessions.iter().enumerate().any(|(i, x)| i != s && x.txn.is_some()) {
                                // a write that matches rows only another session's open transaction can see
                                sig.push(("via", "write".to_string()));
                                ctx.violate("C08", "dirty-read", &sig, format!("{}: the statement acted on another session's uncommitted changes: {}", desc, m), None);
                                diverged = true;
                                records.push(StepRecord { step: step.clone(), actual, q: None });
                                ctx.stop = true;
                                break;
                            }
                            ctx.violate(prop, "wrong-result", &sig, format!("{}: {}", desc, m), None);
                            // a RETURNING-only discrepancy does not mean the states diverged
                            if !mkind.starts_with("returning-") {
                                diverged = true;
                            } else {
                                returning_only = true;
                            }
                        }
                    }
                }
                if !diverged {
                    model.commit_effect(s, op, new_view.clone());
                    effect_applied = true;
                }
            }
            (Err(_), Actual::Err(_)) => {
                ctx.out.count("stmts_failed_as_predicted", 1);
            }
            (Err(cls), Actual::Ok(_)) => {
                let mut sig = sig_base.clone();
                sig.push(("class", cls.as_str().to_string()));
                if cls.is_constraint() {
                    ctx.violate(
                        "C09",
                        "constraint-not-enforced",
                        &sig,
                        format!("{}: model rejects it ({}), engine accepted: {}", desc, cls.as_str(), actual.brief()),
                        None,
                    );
                } else {
                    ctx.violate("dialect", "expected-error-missing", &sig, format!("{}: model predicts {} error, engine: {}", desc, cls.as_str(), actual.brief()), None);
                }
                diverged = true;
            }
            (Ok(_), Actual::Err(e)) => {
                if fault_fired {
                    ctx.out.count("stmts_failed_by_injected_fault", 1);
                    // not acknowledged: no effect may be visible (checked by Q below)
                } else {
                    let mut sig = sig_base.clone();
                    let constrained = tname
                        .as_ref()
                        .and_then(|t| view_before.tables.get(t))
                        .map_or(false, |t| feat != "none" && (t.def.cols.iter().any(|c| c.pk || c.unique || c.not_null || c.check.is_some() || c.fk.is_some()) || t.indexes.iter().any(|i| i.unique)));
                    let mentions_constraint = e.contains("constraint") || e.contains("already exists") || e.contains("violat");
                    sig.push(("err", err_class(e)));
                    // an INSERT that leaves the AUTO_INCREMENT column to the engine and is refused for a
                    // key collision although every other value is acceptable: the generated id itself
                    // collided with a stored row (C12: generated values are distinct from every value
                    // the column holds)
                    let generated_insert = match (op, tname.as_ref().and_then(|t| view_before.tables.get(t))) {
                        (Op::Insert { cols: Some(cs), .. }, Some(t)) => {
                            t.auto_col().map_or(false, |ac| !cs.contains(&t.def.cols[ac].name) && e.contains(&format!("column '{}'", t.def.cols[ac].name)))
                        }
                        _ => false,
                    };
                    if generated_insert && mentions_constraint {
                        ctx.violate("C12", "generated-id-rejected", &sig, format!("{}: model accepts it, engine: {}", desc, actual.brief()), None);
                    }
                    if op.is_write() && !op.is_ddl() && constrained && mentions_constraint {
                        ctx.violate("C09", "valid-write-rejected", &sig, format!("{}: model accepts it, engine: {}", desc, actual.brief()), None);
                    } else {
                        let prop = prop_for_step(op);
                        ctx.violate(prop, "unexpected-error", &sig, format!("{}: model predicts success, engine: {}", desc, actual.brief()), None);
                    }
                    diverged = true;
                }
            }
            (_, Actual::Panic(_)) => unreachable!(),
        }

        if !model.any_txn() {
            for (tn, t) in &model.committed.tables {
                if let Some(ac) = t.auto_col() {
                    let m = t.rows.iter().filter_map(|r| if let Some(Val::Int(i)) = r.get(ac) { Some(*i) } else { None }).max().unwrap_or(0);
                    let e = committed_auto_max.entry(tn.clone()).or_insert(0);
                    if m > *e {
                        *e = m;
                    }
                }
            }
        }
        if matches!(op, Op::Rollback | Op::RollbackTo(_)) && actual.is_ok() {
            rolled_back = true;
        }
        // a reopen after work that did not commit (transaction still open, or rolled back since
        // the last open): whatever that work advanced only in memory is gone
        if matches!(op, Op::Rollback | Op::RollbackTo(_)) && actual.is_ok() {
            rolled_back_since_open = true;
        }
        if matches!(op, Op::CloseReopen | Op::DropReopen) {
            if in_txn_before || rolled_back_since_open {
                aborted_by_reopen = true;
            }
            rolled_back_since_open = false;
        }
        if matches!(op, Op::Truncate(_)) && actual.is_ok() && ctx.swarm.cfg.wal {
            truncated_under_wal = true;
        }
        if let Op::AddColumn { table, .. } = op {
            if actual.is_ok() && view_before.tables.get(table).map_or(false, |t| !t.rows.is_empty()) && !widened_tables.contains(table) {
                widened_tables.push(table.clone());
            }
        }
        if matches!(op, Op::Checkpoint | Op::PragmaCheckpoint | Op::CloseReopen) {
            after_checkpoint = true;
        }
        if op.is_write() && actual.is_ok() && !since_open.contains(&op.kind()) {
            since_open.push(op.kind());
            since_open.sort();
        }
        if op.is_ddl() && actual.is_ok() && !ddl_since_reopen.contains(&op.kind()) {
            ddl_since_reopen.push(op.kind());
            ddl_since_reopen.sort();
        }
        // ---- lifecycle bookkeeping
        if matches!(op, Op::CloseReopen | Op::DropReopen) && !effect_applied {
            // reopen failed: nothing more to do in this run
            ctx.stop = true;
        }

        // ---- C40(a): persisted catalog vs model after every successful DDL statement
        if op.is_ddl() && effect_applied && !model.any_txn() && (ctx.profile == "crash" || ctx.profile == "ddl") {
            let errs = {
                let _g = simdisk::HarnessGuard::enter();
                guarded(|| super::catcheck::check_catalog(&dbpath, &model.committed, &simcore::pool::child_scratch()))
            };
            ctx.out.count("catalog_roundtrips_checked", 1);
            match errs {
                Err(site) => {
                    let mut sig = sig_base.clone();
                    sig.push(("site", site.clone()));
                    ctx.violate("C40", "catalog-load-panic", &sig, format!("after {}: loading the persisted catalog panicked at {}", desc, site), None);
                }
                Ok(errs) if !errs.is_empty() => {
                    let mut sig = sig_base.clone();
                    let kind = if errs[0].contains("round trip") { "roundtrip" } else if errs[0].contains("missing") { "missing" } else { "field" };
                    sig.push(("what", kind.to_string()));
                    ctx.violate("C40", "catalog-mismatch", &sig, format!("after {}: {}", desc, errs.join("; ")), None);
                }
                _ => {}
            }
        }

        // ---- crash images of this step
        // (when the statement's own live result already disagrees with the model the expected crash
        // states are meaningless: that disagreement is reported by itself, the images are not judged)
        if !images.is_empty() && !diverged {
            let mut accept: Vec<DbState> = vec![];
            // in-flight unit: the open transaction as far as submitted, and this statement
            if in_txn_before {
                accept.push(view_before.clone());
            }
            if let (Ok(_), Some(nv)) = (&pred.expected, &pred.new_view) {
                accept.push(nv.clone());
            } else if matches!(op, Op::Commit) && in_txn_before {
                accept.push(view_before.clone());
            }
            let acked = committed_before.clone();
            let ckpt = after_checkpoint || matches!(op, Op::Checkpoint | Op::PragmaCheckpoint | Op::CloseReopen);
            let so = since_open.join("+");
            // The image taken when the call has returned (kind B): if the statement succeeded and no
            // transaction is open afterwards, its effect is acknowledged, so only the state after it
            // is acceptable there. All other images: acknowledged-before, or that plus the unit.
            let strict_boundary = effect_applied && actual.is_ok() && !model.in_txn(s);
            if strict_boundary {
                let (bimgs, rest): (Vec<Image>, Vec<Image>) = images.into_iter().partition(|i| i.point.kind == 'B');
                verify_images(ctx, rest, step_idx, op, &acked, &accept, in_txn_before, first_ordinal, ckpt, &so);
                let post = model.committed.clone();
                verify_images(ctx, bimgs, step_idx, op, &post, &[], false, first_ordinal, ckpt, &so);
            } else {
                verify_images(ctx, images, step_idx, op, &acked, &accept, in_txn_before, first_ordinal, ckpt, &so);
            }
        }
        let _ = crash_profile;

        if diverged {
            records.push(StepRecord { step: step.clone(), actual, q: None });
            ctx.stop = true;
            break;
        }

        // ---- observation after the step
        let observe = op.is_write()
            || matches!(
                op,
                Op::Rollback | Op::RollbackTo(_) | Op::Commit | Op::Checkpoint | Op::PragmaCheckpoint | Op::CloseReopen | Op::DropReopen | Op::Observe
            );
        let mut qrec = None;
        if observe && !ctx.stop {
            let lifecycle = matches!(op, Op::Checkpoint | Op::PragmaCheckpoint | Op::CloseReopen | Op::DropReopen | Op::Observe | Op::Rollback | Op::RollbackTo(_) | Op::Commit);
            let only: Option<Vec<String>> = if lifecycle || model.view(s).tables.len() <= 3 {
                None
            } else {
                tname.clone().map(|t| {
                    let mut v = vec![t.clone()];
                    for (cn, ct) in &model.view(s).tables {
                        if ct.def.cols.iter().any(|c| c.fk.as_ref().map_or(false, |f| f.table == t)) {
                            v.push(cn.clone());
                        }
                    }
                    v
                })
            };
            let plan = plan_q(&[model.view(s)], only.as_deref(), 8);
            let exp_o = model_obs(model.view(s), &plan);
            let obs = live_obs(&live, s, &plan);
            ctx.out.states.push(obs_hash(&exp_o));
            if let Some(d) = diff_obs(&exp_o, &obs, &plan) {
                let failed_stmt = pred.expected.is_err() || (fault_fired && !actual.is_ok());
                let mut sig = sig_base.clone();
                sig.push(("what", d.what.clone()));
                if let Some(site) = panic_site_in(&d.detail) {
                    sig.push(("site", site));
                }
                let iso_class: Option<(&'static str, String)> = if ctx.profile == "iso" && (d.what == "scan" || d.what == "lookup" || d.what == "count") {
                    match (exp_o.get(&d.table), obs.get(&d.table)) {
                        (Some(TableObs::Data { scan: es, .. }), Some(TableObs::Data { scan: os, .. })) if es != os => Some(classify_isolation(&model, s, &d.table, es, os)),
                        _ => Some(("read-mismatch", d.detail.clone())),
                    }
                } else {
                    None
                };
                let iso_class = iso_class.filter(|(v, _)| *v != "read-mismatch");
                let (prop, verdict): (&str, &str) = if let Some((v, _)) = &iso_class {
                    sig.push(("reader_in_txn", model.in_txn(s).to_string()));
                    ("C08", *v)
                } else if failed_stmt {
                    ("C06", if fault_fired { "effect-after-io-error" } else { "effect-after-error" })
                } else {
                    match op {
                        Op::Rollback | Op::RollbackTo(_) => {
                            sig.push(("undone", undone_kinds.clone()));
                            ("C07", "rollback-state-mismatch")
                        }
                        Op::CloseReopen | Op::DropReopen if in_txn_before => {
                            // dropping the handle with an open transaction must equal ROLLBACK (C07)
                            sig.push(("undone", undone_kinds.clone()));
                            ("C07", "rollback-state-mismatch")
                        }
                        Op::Checkpoint | Op::PragmaCheckpoint | Op::CloseReopen | Op::DropReopen => {
                            sig.push(("since_open", since_open.join("+")));
                            sig.push(("wal", ctx.swarm.cfg.wal.to_string()));
                            ("C04", "lifecycle-state-mismatch")
                        }
                        Op::Bulk { .. } => ("C43", "bulk-state-mismatch"),
                        o if o.is_ddl() => ("C21", "ddl-state-mismatch"),
                        _ => match d.what.as_str() {
                            "lookup" => ("C10", "index-lookup-mismatch"),
                            "count" => ("C05", "count-mismatch"),
                            _ => ("C05", "table-content-mismatch"),
                        },
                    }
                };
                if let Some(cls) = pred.expected.as_ref().err() {
                    sig.push(("class", cls.as_str().to_string()));
                }
                let d_detail = iso_class.as_ref().map(|(_, x)| x.clone()).unwrap_or_else(|| d.detail.clone());
                ctx.violate(prop, verdict, &sig, format!("after {} -> {}: {}", desc, actual.brief(), d_detail), None);
                if prop == "C04" && matches!(op, Op::CloseReopen | Op::DropReopen) && !ddl_since_reopen.is_empty() {
                    // schema changes must survive reopening (C21)
                    let mut sig2 = sig.clone();
                    sig2.push(("ddl", ddl_since_reopen.join("+")));
                    ctx.violate("C21", "ddl-not-persisted", &sig2, format!("after {} (DDL since the previous open: {}): {}", desc, ddl_since_reopen.join(", "), d.detail), None);
                }
                // a COUNT(*) that disagrees while every row agrees (the count is kept in the table
                // header) does not invalidate the model: the history goes on, which lets the other
                // things kept in the header (AUTO_INCREMENT counter, root page) show as well
                if d.what != "count" || ctx.profile != "autoinc" {
                    ctx.stop = true;
                }
            }
            qrec = Some((plan, obs));
        }
        if matches!(op, Op::CloseReopen | Op::DropReopen) {
            ddl_since_reopen.clear();
            since_open.clear();
        }
        records.push(StepRecord { step: step.clone(), actual, q: qrec });
        step_idx += 1;
    }
    ctx.out.sim_time_us = simdisk::sim_time_us();
    Some(History { live, model, records })
}

/// C08: classify a read that deviates from snapshot isolation. `observed` are the rows the
/// reader got from `table`, `expected` what its snapshot (+ own writes) holds.
fn classify_isolation(model: &Model, reader: usize, table: &str, expected: &[Row], observed: &[Row]) -> (&'static str, String) {
    let (missing, unexpected) = bag_diff(expected, observed);
    // rows visible only in another session's open transaction
    for (si, sess) in model.sessions.iter().enumerate() {
        if si == reader {
            continue;
        }
        if let Some(t) = &sess.txn {
            if let (Some(cur), base) = (t.cur.tables.get(table), model.committed.tables.get(table)) {
                let cur_rows: Vec<Row> = cur.rows.iter().map(norm_row).collect();
                let base_rows: Vec<Row> = base.map(|b| b.rows.iter().map(norm_row).collect()).unwrap_or_default();
                if unexpected.iter().any(|u| cur_rows.contains(u) && !base_rows.contains(u)) {
                    return ("dirty-read", format!("session {} sees rows written by session {}'s uncommitted transaction: {}", reader, si, fmt_bag(&unexpected)));
                }
                if missing.iter().any(|m| base_rows.contains(m) && !cur_rows.contains(m)) {
                    return ("dirty-read", format!("session {} no longer sees committed rows that session {}'s uncommitted transaction deleted or changed: {}", reader, si, fmt_bag(&missing)));
                }
            }
        }
    }
    // the reader is in a transaction and sees something committed after its BEGIN
    if let Some(t) = &model.sessions[reader].txn {
        if let Some(now) = model.committed.tables.get(table) {
            let now_rows: Vec<Row> = now.rows.iter().map(norm_row).collect();
            let begin_rows: Vec<Row> = t.begin.tables.get(table).map(|b| b.rows.iter().map(norm_row).collect()).unwrap_or_default();
            if unexpected.iter().any(|u| now_rows.contains(u) && !begin_rows.contains(u)) || missing.iter().any(|m| begin_rows.contains(m) && !now_rows.contains(m)) {
                return ("non-repeatable-read", format!("session {}'s transaction sees changes committed by others after its BEGIN: missing {} unexpected {}", reader, fmt_bag(&missing), fmt_bag(&unexpected)));
            }
        }
    }
    ("read-mismatch", format!("missing {} unexpected {}", fmt_bag(&missing), fmt_bag(&unexpected)))
}

fn err_class(e: &str) -> String {
    let l = e.to_lowercase();
    for k in ["primary key", "unique", "not null", "check", "foreign key", "already exists", "not found", "transaction", "toast", "page", "overflow", "parse", "key already exists"] {
        if l.contains(k) {
            return k.replace(' ', "-");
        }
    }
    "other".into()
}

/// Patch the model's predicted generated ids with the engine's, checking C12's invariants.
#[allow(clippy::too_many_arguments)]
fn adopt_generated(
    ctx: &mut Ctx,
    before: &DbState,
    nv: &mut DbState,
    table: &str,
    pos: &[usize],
    ac: usize,
    ret: &[Row],
    desc: &str,
    sig_base: &[(&str, String)],
    committed_max: i64,
) -> bool {
    let t = match nv.tables.get_mut(table) {
        Some(t) => t,
        None => return false,
    };
    let n_inserted = ret.len();
    if t.rows.len() < n_inserted {
        return false;
    }
    let base = t.rows.len() - n_inserted;
    let bt = before.tables.get(table);
    let mut last = bt.map_or(0, |b| b.auto_max);
    let ever = bt.map(|b| b.auto_ever.clone()).unwrap_or_default();
    let mut bad = false;
    for (k, r) in ret.iter().enumerate() {
        let ri = base + k;
        if !pos.contains(&ri) {
            // explicit id row: keeps track of last
            if let Some(Val::Int(i)) = t.rows[ri].get(ac) {
                if *i > last {
                    last = *i;
                }
            }
            continue;
        }
        match r.get(ac) {
            Some(Val::Int(id)) => {
                let mut sig = sig_base.to_vec();
                // does the id collide with / fall below one that was once committed, or only with
                // ids used by work that never committed?
                sig.push(("below_committed", (*id <= committed_max).to_string()));
                if ever.contains(id) {
                    sig.push(("how", "reused".into()));
                    ctx.violate("C12", "autoinc-reused", &sig, format!("{}: generated id {} was already held/generated for {}", desc, id, table), None);
                    bad = true;
                } else if *id <= last {
                    sig.push(("how", "not-increasing".into()));
                    ctx.violate("C12", "autoinc-not-increasing", &sig, format!("{}: generated id {} is not greater than previous {}", desc, id, last), None);
                    bad = true;
                }
                if *id > last {
                    last = *id;
                }
                t.rows[ri][ac] = Val::Int(*id);
                t.auto_ever.insert(*id);
                if *id > t.auto_max {
                    t.auto_max = *id;
                }
            }
            other => {
                let sig = sig_base.to_vec();
                ctx.violate("C12", "autoinc-missing", &sig, format!("{}: no generated id returned ({:?})", desc, other), None);
                bad = true;
            }
        }
    }
    bad
}

pub fn fingerprint(ctx: &Ctx) -> u64 {
    let mut h = fnv1a(ctx.profile.as_bytes());
    for k in &ctx.kinds {
        h = mix(h, fnv1a(k.as_bytes()));
    }
    h
}

pub fn sample_of(ctx: &Ctx, records: &[StepRecord]) -> Value {
    let ops: Vec<String> = records
        .iter()
        .take(60)
        .map(|r| format!("[s{}] {} -> {}", r.step.s, r.step.op.short(), {
            let b = r.actual.brief();
            if b.len() > 160 { format!("{}…", trunc(&b, 160)) } else { b }
        }))
        .collect();
    json!({
        "profile": ctx.profile,
        "config": ctx.swarm.cfg,
        "ops": ops,
        "violations": ctx.out.violations.iter().map(|v| v.sig_string()).collect::<Vec<_>>(),
    })
}
