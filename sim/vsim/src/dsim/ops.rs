//! Operation language of the whole-database simulator: structured, serialisable, renderable to
//! SQL, interpretable by the relational reference model.

use serde::{Deserialize, Serialize};

#[derive(Clone, Copy, Debug, PartialEq, Eq, Serialize, Deserialize, Hash)]
pub enum Ty {
    Int,
    BigInt,
    Text,
    Double,
    Bool,
    Blob,
}

impl Ty {
    pub fn sql(&self) -> &'static str {
        match self {
            Ty::Int => "INT",
            Ty::BigInt => "BIGINT",
            Ty::Text => "TEXT",
            Ty::Double => "DOUBLE",
            Ty::Bool => "BOOLEAN",
            Ty::Blob => "BLOB",
        }
    }
}

#[derive(Clone, Debug, PartialEq, Serialize, Deserialize)]
pub enum Val {
    Null,
    Int(i64),
    Text(String),
    /// f64 carried as bits so NaN and -0.0 survive JSON
    F(u64),
    Bool(bool),
    Blob(Vec<u8>),
    /// compact long value: deterministic expansion, `blob` selects Text/Blob
    Long { tag: u32, len: u32, blob: bool },
}

impl Val {
    pub fn f(x: f64) -> Val {
        Val::F(x.to_bits())
    }
    pub fn is_null(&self) -> bool {
        matches!(self, Val::Null)
    }
    /// Expand `Long` into the concrete Text/Blob.
    pub fn norm(&self) -> Val {
        match self {
            Val::Long { tag, len, blob } => {
                let mut out = Vec::with_capacity(*len as usize);
                let head = format!("L{}:", tag);
                let mut i = 0u32;
                while out.len() < *len as usize {
                    if out.len() < head.len() {
                        out.push(head.as_bytes()[out.len()]);
                    } else {
                        out.push(b'a' + ((i.wrapping_mul(7).wrapping_add(*tag)) % 26) as u8);
                        i += 1;
                    }
                }
                if *blob {
                    Val::Blob(out)
                } else {
                    Val::Text(String::from_utf8(out).unwrap_or_default())
                }
            }
            other => other.clone(),
        }
    }
    pub fn sql(&self) -> String {
        match self.norm() {
            Val::Null => "NULL".into(),
            Val::Int(i) => i.to_string(),
            Val::Text(s) => format!("'{}'", s.replace('\'', "''")),
            Val::F(b) => {
                let f = f64::from_bits(b);
                // always with a decimal point / exponent so it lexes as a float
                let s = format!("{:?}", f);
                s
            }
            Val::Bool(b) => if b { "TRUE".into() } else { "FALSE".into() },
            Val::Blob(b) => {
                let mut s = String::from("x'");
                for x in b {
                    s.push_str(&format!("{:02x}", x));
                }
                s.push('\'');
                s
            }
            Val::Long { .. } => unreachable!(),
        }
    }
    pub fn short(&self) -> String {
        match self {
            Val::Long { tag, len, blob } => format!("<{}{}:{}>", if *blob { "blob" } else { "text" }, tag, len),
            Val::Text(s) if s.starts_with("ERR:") => s.clone(),
            Val::Text(s) if s.len() > 24 => format!("'{}..'[{}]", trunc(s, 16), s.len()),
            Val::Blob(b) if b.len() > 12 => format!("x[{}]", b.len()),
            v => v.sql(),
        }
    }
    pub fn to_owned_value(&self) -> turdb::OwnedValue {
        use turdb::OwnedValue as V;
        match self.norm() {
            Val::Null => V::Null,
            Val::Int(i) => V::Int(i),
            Val::Text(s) => V::Text(s),
            Val::F(b) => V::Float(f64::from_bits(b)),
            Val::Bool(b) => V::Bool(b),
            Val::Blob(b) => V::Blob(b),
            Val::Long { .. } => unreachable!(),
        }
    }
    pub fn from_owned(v: &turdb::OwnedValue) -> Val {
        use turdb::OwnedValue as V;
        match v {
            V::Null => Val::Null,
            V::Int(i) => Val::Int(*i),
            V::Text(s) => Val::Text(s.clone()),
            V::Float(f) => Val::F(f.to_bits()),
            V::Bool(b) => Val::Bool(*b),
            V::Blob(b) => Val::Blob(b.clone()),
            other => Val::Text(format!("?{:?}", other)),
        }
    }
    /// Total order used only to sort bags for comparison and printing.
    pub fn sort_key(&self) -> String {
        match self.norm() {
            Val::Null => "0".into(),
            Val::Int(i) => format!("1{:020}", (i as i128) + (1i128 << 63)),
            Val::Text(s) => format!("2{}", s),
            Val::F(b) => format!("3{:016x}", b),
            Val::Bool(b) => format!("4{}", b),
            Val::Blob(b) => format!("5{:?}", b),
            Val::Long { .. } => unreachable!(),
        }
    }
}

/// Truncate at a char boundary.
pub fn trunc(s: &str, n: usize) -> &str {
    if s.len() <= n {
        return s;
    }
    let mut k = n;
    while k > 0 && !s.is_char_boundary(k) {
        k -= 1;
    }
    &s[..k]
}

pub type Row = Vec<Val>;

pub fn norm_row(r: &Row) -> Row {
    r.iter().map(|v| v.norm()).collect()
}

pub fn sort_bag(rows: &mut Vec<Row>) {
    rows.sort_by_cached_key(|r| r.iter().map(|v| v.sort_key()).collect::<Vec<_>>().join("\u{1}"));
}

pub fn fmt_row(r: &Row) -> String {
    format!("({})", r.iter().map(|v| v.short()).collect::<Vec<_>>().join(", "))
}

pub fn fmt_bag(rows: &[Row]) -> String {
    let mut s = String::from("{");
    for (i, r) in rows.iter().enumerate() {
        if i >= 12 {
            s.push_str(&format!(" …+{}", rows.len() - i));
            break;
        }
        if i > 0 {
            s.push(' ');
        }
        s.push_str(&fmt_row(r));
    }
    s.push('}');
    s
}

#[derive(Clone, Copy, Debug, PartialEq, Eq, Serialize, Deserialize)]
pub enum CmpOp {
    Eq,
    Ne,
    Lt,
    Le,
    Gt,
    Ge,
}

impl CmpOp {
    pub fn sql(&self) -> &'static str {
        match self {
            CmpOp::Eq => "=",
            CmpOp::Ne => "<>",
            CmpOp::Lt => "<",
            CmpOp::Le => "<=",
            CmpOp::Gt => ">",
            CmpOp::Ge => ">=",
        }
    }
}

#[derive(Clone, Debug, PartialEq, Serialize, Deserialize)]
pub enum Pred {
    True,
    Cmp(String, CmpOp, Val),
    Between(String, Val, Val),
    IsNull(String, bool),
    In(String, Vec<Val>),
    And(Box<Pred>, Box<Pred>),
    Or(Box<Pred>, Box<Pred>),
}

impl Pred {
    pub fn sql(&self) -> String {
        match self {
            Pred::True => "1 = 1".into(),
            Pred::Cmp(c, op, v) => format!("{} {} {}", c, op.sql(), v.sql()),
            Pred::Between(c, a, b) => format!("{} BETWEEN {} AND {}", c, a.sql(), b.sql()),
            Pred::IsNull(c, yes) => format!("{} IS {}NULL", c, if *yes { "" } else { "NOT " }),
            Pred::In(c, vs) => format!("{} IN ({})", c, vs.iter().map(|v| v.sql()).collect::<Vec<_>>().join(", ")),
            Pred::And(a, b) => format!("({}) AND ({})", a.sql(), b.sql()),
            Pred::Or(a, b) => format!("({}) OR ({})", a.sql(), b.sql()),
        }
    }
    pub fn where_sql(&self) -> String {
        match self {
            Pred::True => String::new(),
            p => format!(" WHERE {}", p.sql()),
        }
    }
    pub fn columns(&self, out: &mut Vec<String>) {
        match self {
            Pred::True => {}
            Pred::Cmp(c, _, _) | Pred::Between(c, _, _) | Pred::IsNull(c, _) | Pred::In(c, _) => out.push(c.clone()),
            Pred::And(a, b) | Pred::Or(a, b) => {
                a.columns(out);
                b.columns(out);
            }
        }
    }
}

#[derive(Clone, Copy, Debug, PartialEq, Eq, Serialize, Deserialize)]
pub enum OnDelete {
    Restrict,
    Cascade,
}

#[derive(Clone, Debug, PartialEq, Serialize, Deserialize)]
pub struct Fk {
    pub table: String,
    pub col: String,
    pub on_delete: OnDelete,
}

#[derive(Clone, Debug, PartialEq, Serialize, Deserialize)]
pub struct ColDef {
    pub name: String,
    pub ty: Ty,
    #[serde(default)]
    pub pk: bool,
    #[serde(default)]
    pub unique: bool,
    #[serde(default)]
    pub not_null: bool,
    #[serde(default)]
    pub auto_inc: bool,
    #[serde(default)]
    pub default: Option<Val>,
    /// CHECK over this column only (and constants)
    #[serde(default)]
    pub check: Option<Pred>,
    #[serde(default)]
    pub fk: Option<Fk>,
}

impl ColDef {
    pub fn plain(name: &str, ty: Ty) -> ColDef {
        ColDef {
            name: name.into(),
            ty,
            pk: false,
            unique: false,
            not_null: false,
            auto_inc: false,
            default: None,
            check: None,
            fk: None,
        }
    }
    pub fn sql(&self) -> String {
        let mut s = format!("{} {}", self.name, self.ty.sql());
        if self.pk {
            s.push_str(" PRIMARY KEY");
        }
        if self.auto_inc {
            s.push_str(" AUTO_INCREMENT");
        }
        if self.unique {
            s.push_str(" UNIQUE");
        }
        if self.not_null {
            s.push_str(" NOT NULL");
        }
        if let Some(d) = &self.default {
            s.push_str(&format!(" DEFAULT {}", d.sql()));
        }
        if let Some(c) = &self.check {
            s.push_str(&format!(" CHECK ({})", c.sql()));
        }
        if let Some(fk) = &self.fk {
            s.push_str(&format!(" REFERENCES {}({})", fk.table, fk.col));
            if fk.on_delete == OnDelete::Cascade {
                s.push_str(" ON DELETE CASCADE");
            }
        }
        s
    }
}

#[derive(Clone, Debug, PartialEq, Serialize, Deserialize)]
pub struct IndexDef {
    pub name: String,
    pub cols: Vec<String>,
    pub unique: bool,
}

#[derive(Clone, Debug, PartialEq, Serialize, Deserialize)]
pub struct TableDef {
    pub name: String,
    pub cols: Vec<ColDef>,
}

impl TableDef {
    pub fn sql(&self) -> String {
        format!(
            "CREATE TABLE {} ({})",
            self.name,
            self.cols.iter().map(|c| c.sql()).collect::<Vec<_>>().join(", ")
        )
    }
    pub fn col_index(&self, name: &str) -> Option<usize> {
        self.cols.iter().position(|c| c.name == name)
    }
}

#[derive(Clone, Debug, PartialEq, Serialize, Deserialize)]
pub enum SetExpr {
    Const(Val),
    /// col = col + k
    Add(i64),
}

#[derive(Clone, Copy, Debug, PartialEq, Eq, Serialize, Deserialize)]
pub enum Api {
    /// literal SQL through `execute`
    Literal,
    /// `execute_with_params`
    Params,
    /// `prepare` + `bind` + `execute`
    Prepared,
}

#[derive(Clone, Copy, Debug, PartialEq, Eq, Serialize, Deserialize)]
pub enum BulkApi {
    InsertBatch,
    InsertCached,
    BulkInsert,
}

#[derive(Clone, Debug, PartialEq, Serialize, Deserialize)]
pub enum Op {
    CreateTable(TableDef),
    DropTable(String),
    CreateIndex { table: String, index: IndexDef },
    DropIndex(String),
    AddColumn { table: String, col: ColDef },
    DropColumn { table: String, col: String },
    RenameColumn { table: String, from: String, to: String },
    Truncate(String),
    Insert { table: String, cols: Option<Vec<String>>, rows: Vec<Row>, returning: bool, api: Api },
    Bulk { api: BulkApi, table: String, rows: Vec<Row> },
    Update { table: String, sets: Vec<(String, SetExpr)>, pred: Pred, returning: bool },
    Delete { table: String, pred: Pred, returning: bool },
    Select { table: String, cols: Option<Vec<String>>, pred: Pred },
    Count(String),
    Begin,
    Commit,
    Rollback,
    Savepoint(String),
    RollbackTo(String),
    Release(String),
    /// `Database::checkpoint()`
    Checkpoint,
    /// `PRAGMA wal_checkpoint`
    PragmaCheckpoint,
    /// `close()` then drop all handles and `Database::open`
    CloseReopen,
    /// drop all handles without close(), then `Database::open`
    DropReopen,
    Pragma { name: String, value: String },
    /// arm one I/O fault for the next statement (C06b)
    ArmFault { call: String, role: String, countdown: u32, errno: i32, short: bool },
    /// full observation of every table
    Observe,
}

impl Op {
    pub fn kind(&self) -> &'static str {
        match self {
            Op::CreateTable(_) => "CREATE_TABLE",
            Op::DropTable(_) => "DROP_TABLE",
            Op::CreateIndex { .. } => "CREATE_INDEX",
            Op::DropIndex(_) => "DROP_INDEX",
            Op::AddColumn { .. } => "ADD_COLUMN",
            Op::DropColumn { .. } => "DROP_COLUMN",
            Op::RenameColumn { .. } => "RENAME_COLUMN",
            Op::Truncate(_) => "TRUNCATE",
            Op::Insert { .. } => "INSERT",
            Op::Bulk { .. } => "BULK",
            Op::Update { .. } => "UPDATE",
            Op::Delete { .. } => "DELETE",
            Op::Select { .. } => "SELECT",
            Op::Count(_) => "COUNT",
            Op::Begin => "BEGIN",
            Op::Commit => "COMMIT",
            Op::Rollback => "ROLLBACK",
            Op::Savepoint(_) => "SAVEPOINT",
            Op::RollbackTo(_) => "ROLLBACK_TO",
            Op::Release(_) => "RELEASE",
            Op::Checkpoint => "CHECKPOINT",
            Op::PragmaCheckpoint => "PRAGMA_CHECKPOINT",
            Op::CloseReopen => "CLOSE_REOPEN",
            Op::DropReopen => "DROP_REOPEN",
            Op::Pragma { .. } => "PRAGMA",
            Op::ArmFault { .. } => "ARM_FAULT",
            Op::Observe => "OBSERVE",
        }
    }

    pub fn is_ddl(&self) -> bool {
        matches!(
            self,
            Op::CreateTable(_)
                | Op::DropTable(_)
                | Op::CreateIndex { .. }
                | Op::DropIndex(_)
                | Op::AddColumn { .. }
                | Op::DropColumn { .. }
                | Op::RenameColumn { .. }
        )
    }

    pub fn is_write(&self) -> bool {
        self.is_ddl() || matches!(self, Op::Truncate(_) | Op::Insert { .. } | Op::Bulk { .. } | Op::Update { .. } | Op::Delete { .. })
    }

    pub fn table(&self) -> Option<&str> {
        match self {
            Op::CreateTable(t) => Some(&t.name),
            Op::DropTable(t) | Op::Truncate(t) | Op::Count(t) => Some(t),
            Op::CreateIndex { table, .. }
            | Op::AddColumn { table, .. }
            | Op::DropColumn { table, .. }
            | Op::RenameColumn { table, .. }
            | Op::Insert { table, .. }
            | Op::Bulk { table, .. }
            | Op::Update { table, .. }
            | Op::Delete { table, .. }
            | Op::Select { table, .. } => Some(table),
            _ => None,
        }
    }

    /// SQL text (literal form). For Params/Prepared inserts the placeholders form is produced by
    /// `insert_placeholder_sql`.
    pub fn sql(&self) -> String {
        match self {
            Op::CreateTable(t) => t.sql(),
            Op::DropTable(t) => format!("DROP TABLE {}", t),
            Op::CreateIndex { table, index } => format!(
                "CREATE {}INDEX {} ON {} ({})",
                if index.unique { "UNIQUE " } else { "" },
                index.name,
                table,
                index.cols.join(", ")
            ),
            Op::DropIndex(n) => format!("DROP INDEX {}", n),
            Op::AddColumn { table, col } => format!("ALTER TABLE {} ADD COLUMN {}", table, col.sql()),
            Op::DropColumn { table, col } => format!("ALTER TABLE {} DROP COLUMN {}", table, col),
            Op::RenameColumn { table, from, to } => format!("ALTER TABLE {} RENAME COLUMN {} TO {}", table, from, to),
            Op::Truncate(t) => format!("TRUNCATE TABLE {}", t),
            Op::Insert { table, cols, rows, returning, .. } => {
                let mut s = format!("INSERT INTO {}", table);
                if let Some(cs) = cols {
                    s.push_str(&format!(" ({})", cs.join(", ")));
                }
                s.push_str(" VALUES ");
                s.push_str(
                    &rows
                        .iter()
                        .map(|r| format!("({})", r.iter().map(|v| v.sql()).collect::<Vec<_>>().join(", ")))
                        .collect::<Vec<_>>()
                        .join(", "),
                );
                if *returning {
                    s.push_str(" RETURNING *");
                }
                s
            }
            Op::Bulk { api, table, rows } => format!("-- {:?} into {} ({} rows)", api, table, rows.len()),
            Op::Update { table, sets, pred, returning } => {
                let sets_sql = sets
                    .iter()
                    .map(|(c, e)| match e {
                        SetExpr::Const(v) => format!("{} = {}", c, v.sql()),
                        SetExpr::Add(k) => {
                            if *k >= 0 {
                                format!("{} = {} + {}", c, c, k)
                            } else {
                                format!("{} = {} - {}", c, c, -k)
                            }
                        }
                    })
                    .collect::<Vec<_>>()
                    .join(", ");
                format!(
                    "UPDATE {} SET {}{}{}",
                    table,
                    sets_sql,
                    pred.where_sql(),
                    if *returning { " RETURNING *" } else { "" }
                )
            }
            Op::Delete { table, pred, returning } => format!(
                "DELETE FROM {}{}{}",
                table,
                pred.where_sql(),
                if *returning { " RETURNING *" } else { "" }
            ),
            Op::Select { table, cols, pred } => format!(
                "SELECT {} FROM {}{}",
                cols.as_ref().map(|c| c.join(", ")).unwrap_or_else(|| "*".into()),
                table,
                pred.where_sql()
            ),
            Op::Count(t) => format!("SELECT COUNT(*) FROM {}", t),
            Op::Begin => "BEGIN".into(),
            Op::Commit => "COMMIT".into(),
            Op::Rollback => "ROLLBACK".into(),
            Op::Savepoint(n) => format!("SAVEPOINT {}", n),
            Op::RollbackTo(n) => format!("ROLLBACK TO {}", n),
            Op::Release(n) => format!("RELEASE {}", n),
            Op::Checkpoint => "-- checkpoint()".into(),
            Op::PragmaCheckpoint => "PRAGMA wal_checkpoint".into(),
            Op::CloseReopen => "-- close(); open()".into(),
            Op::DropReopen => "-- drop; open()".into(),
            Op::Pragma { name, value } => format!("PRAGMA {} = {}", name, value),
            Op::ArmFault { call, role, countdown, errno, short } => {
                format!("-- arm fault {}/{} nth={} errno={} short={}", call, role, countdown, errno, short)
            }
            Op::Observe => "-- observe".into(),
        }
    }

    pub fn short(&self) -> String {
        let s = match self {
            Op::Insert { table, cols, rows, returning, api } => {
                let mut s = format!("INSERT INTO {}", table);
                if let Some(cs) = cols {
                    s.push_str(&format!(" ({})", cs.join(", ")));
                }
                s.push_str(" VALUES ");
                s.push_str(&rows.iter().take(6).map(fmt_row).collect::<Vec<_>>().join(", "));
                if rows.len() > 6 {
                    s.push_str(&format!(" …+{}", rows.len() - 6));
                }
                if *returning {
                    s.push_str(" RETURNING *");
                }
                if *api != Api::Literal {
                    s.push_str(&format!(" [{:?}]", api));
                }
                s
            }
            Op::Bulk { api, table, rows } => format!(
                "{:?}({}, {} rows: {}{})",
                api,
                table,
                rows.len(),
                rows.iter().take(4).map(fmt_row).collect::<Vec<_>>().join(", "),
                if rows.len() > 4 { " …" } else { "" }
            ),
            other => {
                let s = other.sql();
                if s.len() > 300 {
                    format!("{}…[{}]", trunc(&s, 300), s.len())
                } else {
                    s
                }
            }
        };
        s
    }
}

#[derive(Clone, Debug, PartialEq, Serialize, Deserialize)]
pub struct Step {
    /// session (handle) index
    pub s: usize,
    pub op: Op,
}
