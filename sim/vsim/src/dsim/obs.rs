//! Observation set Q(state): for every table a full scan, COUNT(*), and every indexed lookup over
//! the value domain — the unit in which "the database is unchanged" and "index agrees with table"
//! are measured. The same plan is evaluated on the engine and on the model.

use super::exec::{ARes, Actual, Live};
use super::model::*;
use super::ops::*;
use std::collections::BTreeMap;

#[derive(Clone, Debug, PartialEq)]
pub enum TableObs {
    Missing,
    Error(String),
    Data {
        scan: Vec<Row>,
        count: Option<i64>,
        lookups: Vec<Vec<Row>>,
    },
}

pub type QObs = BTreeMap<String, TableObs>;

#[derive(Clone, Debug, Default)]
pub struct QPlan {
    pub tables: Vec<(String, Vec<Pred>)>,
}

fn short_val(v: &Val) -> bool {
    match v {
        Val::Text(s) => s.len() <= 64,
        Val::Blob(_) | Val::Long { .. } | Val::F(_) | Val::Bool(_) => false,
        _ => true,
    }
}

/// Build the plan from one or more model states (union of tables and of column values).
pub fn plan_q(states: &[&DbState], only: Option<&[String]>, max_lookups_per_col: usize) -> QPlan {
    let mut names: Vec<String> = vec![];
    for st in states {
        for n in st.tables.keys() {
            if !names.contains(n) && only.map_or(true, |o| o.contains(n)) {
                names.push(n.clone());
            }
        }
    }
    names.sort();
    let mut plan = QPlan::default();
    for n in names {
        let mut preds: Vec<Pred> = vec![];
        // lookups only over columns that exist with an index in every state that has the table
        let tabs: Vec<&MTable> = states.iter().filter_map(|s| s.tables.get(&n)).collect();
        if let Some(t0) = tabs.first() {
            for ci in t0.indexed_cols() {
                let c = &t0.def.cols[ci];
                if !matches!(c.ty, Ty::Int | Ty::BigInt | Ty::Text) {
                    continue;
                }
                if !tabs.iter().all(|t| t.def.col_index(&c.name).is_some()) {
                    continue;
                }
                let mut vals: Vec<Val> = vec![];
                for t in &tabs {
                    if let Some(i) = t.def.col_index(&c.name) {
                        for r in &t.rows {
                            if !r[i].is_null() && short_val(&r[i]) && !vals.contains(&r[i]) {
                                vals.push(r[i].clone());
                            }
                        }
                    }
                }
                vals.sort_by_key(|v| v.sort_key());
                // sample evenly if too many
                let step = vals.len().div_ceil(max_lookups_per_col.max(1)).max(1);
                let sampled: Vec<Val> = vals.iter().step_by(step).cloned().collect();
                for v in &sampled {
                    preds.push(Pred::Cmp(c.name.clone(), CmpOp::Eq, v.clone()));
                }
                // one absent value and two range probes
                match c.ty {
                    Ty::Text => preds.push(Pred::Cmp(c.name.clone(), CmpOp::Eq, Val::Text("absent!".into()))),
                    _ => preds.push(Pred::Cmp(c.name.clone(), CmpOp::Eq, Val::Int(-77))),
                }
                // the whole index in one range scan: every entry that should not be there (rows
                // deleted long ago, stale keys) and every missing one shows up
                // (not over columns holding TOAST-sized values: predicates on those are KF-C10-02)
                let all_short = tabs.iter().all(|t| t.def.col_index(&c.name).map_or(true, |i| t.rows.iter().all(|r| r[i].is_null() || short_val(&r[i]))));
                if all_short {
                    match c.ty {
                        Ty::Text => preds.push(Pred::Cmp(c.name.clone(), CmpOp::Ge, Val::Text(String::new()))),
                        _ => preds.push(Pred::Cmp(c.name.clone(), CmpOp::Ge, Val::Int(-2_000_000_000))),
                    }
                }
                if let (Some(lo), Some(hi)) = (sampled.first(), sampled.last()) {
                    preds.push(Pred::Cmp(c.name.clone(), CmpOp::Ge, sampled[sampled.len() / 2].clone()));
                    preds.push(Pred::Between(c.name.clone(), lo.clone(), hi.clone()));
                }
            }
        }
        plan.tables.push((n, preds));
    }
    plan
}

pub fn model_obs(st: &DbState, plan: &QPlan) -> QObs {
    let mut out = QObs::new();
    for (n, preds) in &plan.tables {
        match st.tables.get(n) {
            None => {
                out.insert(n.clone(), TableObs::Missing);
            }
            Some(t) => {
                let mut scan: Vec<Row> = t.rows.iter().map(norm_row).collect();
                sort_bag(&mut scan);
                let lookups = preds
                    .iter()
                    .map(|p| {
                        let mut rows: Vec<Row> = t
                            .rows
                            .iter()
                            .filter(|r| eval_pred(p, &t.def, r) == Some(true))
                            .map(norm_row)
                            .collect();
                        sort_bag(&mut rows);
                        rows
                    })
                    .collect();
                out.insert(
                    n.clone(),
                    TableObs::Data {
                        count: Some(scan.len() as i64),
                        scan,
                        lookups,
                    },
                );
            }
        }
    }
    out
}

fn rows_of(a: Actual) -> Result<Vec<Row>, String> {
    match a {
        Actual::Ok(ARes::Rows { rows, .. }) => {
            let mut r: Vec<Row> = rows.iter().map(norm_row).collect();
            sort_bag(&mut r);
            Ok(r)
        }
        Actual::Ok(other) => Err(format!("unexpected result {:?}", other)),
        Actual::Err(e) => Err(e),
        Actual::Panic(s) => Err(format!("PANIC at {}", s)),
    }
}

pub fn is_missing_table_error(e: &str) -> bool {
    (e.contains("table '") && e.contains("not found")) || e.contains("failed to create query plan") || e.contains("does not exist")
}

pub fn live_obs(live: &Live, s: usize, plan: &QPlan) -> QObs {
    let mut out = QObs::new();
    for (n, preds) in &plan.tables {
        let scan = match rows_of(live.query(s, &format!("SELECT * FROM {}", n))) {
            Ok(r) => r,
            Err(e) => {
                if is_missing_table_error(&e) {
                    out.insert(n.clone(), TableObs::Missing);
                } else {
                    out.insert(n.clone(), TableObs::Error(e));
                }
                continue;
            }
        };
        let count = match rows_of(live.query(s, &format!("SELECT COUNT(*) FROM {}", n))) {
            Ok(r) => match r.first().and_then(|r| r.first()) {
                Some(Val::Int(i)) => Some(*i),
                _ => None,
            },
            Err(_) => None,
        };
        let mut lookups = vec![];
        for p in preds {
            match rows_of(live.query(s, &format!("SELECT * FROM {} WHERE {}", n, p.sql()))) {
                Ok(r) => lookups.push(r),
                Err(e) => lookups.push(vec![vec![Val::Text(format!("ERR:{}", crate::dsim::ops::trunc(&e, 60)))]]),
            }
        }
        out.insert(n.clone(), TableObs::Data { scan, count, lookups });
    }
    out
}

#[derive(Clone, Debug)]
pub struct ObsDiff {
    pub table: String,
    /// scan | count | lookup | missing | unreadable | unexpected-table
    pub what: String,
    pub detail: String,
}

/// First difference between expected and observed, most fundamental first (scan before count
/// before lookups).
pub fn diff_obs(expected: &QObs, observed: &QObs, plan: &QPlan) -> Option<ObsDiff> {
    let mut count_diff = None;
    let mut lookup_diff = None;
    for (n, preds) in &plan.tables {
        let e = expected.get(n);
        let o = observed.get(n);
        match (e, o) {
            (Some(TableObs::Missing), Some(TableObs::Missing)) => {}
            (Some(TableObs::Missing), Some(TableObs::Data { scan, .. })) => {
                return Some(ObsDiff {
                    table: n.clone(),
                    what: "unexpected-table".into(),
                    detail: format!("table {} should not exist, has {} rows", n, scan.len()),
                })
            }
            (Some(TableObs::Data { .. }), Some(TableObs::Missing)) => {
                return Some(ObsDiff {
                    table: n.clone(),
                    what: "missing".into(),
                    detail: format!("table {} missing", n),
                })
            }
            (_, Some(TableObs::Error(err))) => {
                return Some(ObsDiff {
                    table: n.clone(),
                    what: "unreadable".into(),
                    detail: format!("table {} unreadable: {}", n, err),
                })
            }
            (
                Some(TableObs::Data { scan: es, count: ec, lookups: el }),
                Some(TableObs::Data { scan: os, count: oc, lookups: ol }),
            ) => {
                if es != os {
                    let (missing, extra) = bag_diff(es, os);
                    return Some(ObsDiff {
                        table: n.clone(),
                        what: "scan".into(),
                        detail: format!(
                            "SELECT * FROM {}: missing {} unexpected {} (expected {} rows, got {})",
                            n,
                            fmt_bag(&missing),
                            fmt_bag(&extra),
                            es.len(),
                            os.len()
                        ),
                    });
                }
                if ec != oc && count_diff.is_none() {
                    count_diff = Some(ObsDiff {
                        table: n.clone(),
                        what: "count".into(),
                        detail: format!("SELECT COUNT(*) FROM {} = {:?}, table has {} rows", n, oc, es.len()),
                    });
                }
                if lookup_diff.is_none() {
                    for (i, p) in preds.iter().enumerate() {
                        if el.get(i) != ol.get(i) {
                            let empty = vec![];
                            let (missing, extra) = bag_diff(el.get(i).unwrap_or(&empty), ol.get(i).unwrap_or(&empty));
                            lookup_diff = Some(ObsDiff {
                                table: n.clone(),
                                what: "lookup".into(),
                                detail: format!(
                                    "SELECT * FROM {} WHERE {}: missing {} unexpected {} (full scan agrees with expectation)",
                                    n,
                                    p.sql(),
                                    fmt_bag(&missing),
                                    fmt_bag(&extra)
                                ),
                            });
                            break;
                        }
                    }
                }
            }
            _ => {}
        }
    }
    count_diff.or(lookup_diff)
}

/// `file:line` of a panic mentioned in a diff detail ("PANIC at src/x.rs:12 ...").
pub fn panic_site_in(detail: &str) -> Option<String> {
    let i = detail.find("PANIC at ")?;
    let rest = &detail[i + 9..];
    let end = rest.find(|c: char| c == ' ' || c == '\'' || c == ')' || c == '.' && false).unwrap_or(rest.len());
    let site = rest[..end].trim_end_matches(|c: char| c == '.' || c == ',' || c == '\'');
    if site.is_empty() {
        None
    } else {
        Some(site.to_string())
    }
}

pub fn obs_hash(o: &QObs) -> u64 {
    simcore::rng::fnv1a(format!("{:?}", o).as_bytes())
}
