//! Executes operations against the real TurDB `Database` (real code, no stub).

use super::ops::*;
use std::panic::{catch_unwind, AssertUnwindSafe};
use std::path::{Path, PathBuf};
use std::sync::Mutex;

#[derive(Clone, Debug, PartialEq)]
pub enum ARes {
    Unit,
    Affected { n: usize, returning: Option<Vec<Row>> },
    Rows { cols: Vec<String>, rows: Vec<Row> },
    Text(String),
}

#[derive(Clone, Debug, PartialEq)]
pub enum Actual {
    Ok(ARes),
    Err(String),
    /// panic site `file:line`
    Panic(String),
}

impl Actual {
    pub fn is_ok(&self) -> bool {
        matches!(self, Actual::Ok(_))
    }
    pub fn brief(&self) -> String {
        match self {
            Actual::Ok(ARes::Unit) => "Ok".into(),
            Actual::Ok(ARes::Affected { n, returning }) => match returning {
                Some(r) => format!("Ok(affected={}, returning={})", n, fmt_bag(r)),
                None => format!("Ok(affected={})", n),
            },
            Actual::Ok(ARes::Rows { rows, .. }) => format!("Ok(rows={})", fmt_bag(rows)),
            Actual::Ok(ARes::Text(t)) => format!("Ok({})", t),
            Actual::Err(e) => format!("Err({})", e.replace('\n', " | ")),
            Actual::Panic(s) => format!("PANIC at {}", s),
        }
    }
}

static LAST_PANIC: Mutex<Option<String>> = Mutex::new(None);

/// Install a panic hook that records `file:line` of the panic (quietly).
pub fn install_panic_hook() {
    std::panic::set_hook(Box::new(|info| {
        let site = info
            .location()
            .map(|l| {
                let f = l.file();
                let f = f.strip_prefix("/repo/").unwrap_or(f);
                format!("{}:{}", f, l.line())
            })
            .unwrap_or_else(|| "unknown".into());
        let msg = if let Some(s) = info.payload().downcast_ref::<&str>() {
            s.to_string()
        } else if let Some(s) = info.payload().downcast_ref::<String>() {
            s.clone()
        } else {
            String::new()
        };
        eprintln!("panicked at {}: {}", site, msg);
        if let Ok(mut g) = LAST_PANIC.lock() {
            *g = Some(site);
        }
    }));
}

pub fn guarded<T>(f: impl FnOnce() -> T) -> Result<T, String> {
    match catch_unwind(AssertUnwindSafe(f)) {
        Ok(v) => Ok(v),
        Err(_) => Err(LAST_PANIC
            .lock()
            .ok()
            .and_then(|mut g| g.take())
            .unwrap_or_else(|| "unknown".into())),
    }
}

fn conv_rows(rows: &[turdb::Row]) -> Vec<Row> {
    rows.iter().map(|r| r.values.iter().map(Val::from_owned).collect()).collect()
}

pub fn conv_result(r: eyre::Result<turdb::ExecuteResult>) -> Actual {
    use turdb::ExecuteResult as R;
    match r {
        Err(e) => Actual::Err(format!("{:#}", e)),
        Ok(R::Select { columns, rows }) => Actual::Ok(ARes::Rows {
            cols: columns,
            rows: conv_rows(&rows),
        }),
        Ok(R::Insert { rows_affected, returned })
        | Ok(R::Update { rows_affected, returned })
        | Ok(R::Delete { rows_affected, returned }) => Actual::Ok(ARes::Affected {
            n: rows_affected,
            returning: returned.map(|r| conv_rows(&r)),
        }),
        Ok(R::Truncate { rows_affected }) => Actual::Ok(ARes::Affected {
            n: rows_affected,
            returning: None,
        }),
        Ok(R::Pragma { name, value }) => Actual::Ok(ARes::Text(format!("{}={:?}", name, value))),
        Ok(R::Explain { plan }) => Actual::Ok(ARes::Text(plan)),
        Ok(_) => Actual::Ok(ARes::Unit),
    }
}

#[derive(Clone, Debug, PartialEq, serde::Serialize, serde::Deserialize)]
pub struct DbConfig {
    pub wal: bool,
    /// OFF | NORMAL | FULL
    pub synchronous: String,
    pub autoflush: bool,
    /// None = default
    pub checkpoint_threshold: Option<u32>,
    #[serde(default)]
    pub join_budget: Option<u64>,
}

impl DbConfig {
    pub fn durable() -> DbConfig {
        DbConfig {
            wal: true,
            synchronous: "FULL".into(),
            autoflush: true,
            checkpoint_threshold: None,
            join_budget: None,
        }
    }
    pub fn plain() -> DbConfig {
        DbConfig {
            wal: false,
            synchronous: "NORMAL".into(),
            autoflush: true,
            checkpoint_threshold: None,
            join_budget: None,
        }
    }
    pub fn pragmas(&self) -> Vec<String> {
        let mut v = vec![];
        v.push(format!("PRAGMA wal = {}", if self.wal { "ON" } else { "OFF" }));
        v.push(format!("PRAGMA synchronous = {}", self.synchronous));
        if !self.autoflush {
            v.push("PRAGMA wal_autoflush = OFF".into());
        }
        if let Some(t) = self.checkpoint_threshold {
            v.push(format!("PRAGMA wal_checkpoint_threshold = {}", t));
        }
        if let Some(b) = self.join_budget {
            v.push(format!("PRAGMA join_memory_budget = {}", b));
        }
        v
    }
}

pub struct Live {
    pub path: PathBuf,
    pub cfg: DbConfig,
    pub sessions: Vec<Option<turdb::Database>>,
}

impl Live {
    pub fn create(path: &Path, cfg: &DbConfig, nsessions: usize) -> Result<Live, String> {
        let db = guarded(|| turdb::Database::create(path)).map_err(|s| format!("panic in create at {}", s))?;
        let db = db.map_err(|e| format!("create failed: {:#}", e))?;
        let mut live = Live {
            path: path.to_path_buf(),
            cfg: cfg.clone(),
            sessions: vec![],
        };
        live.apply_pragmas(&db)?;
        live.sessions.push(Some(db));
        live.fill_sessions(nsessions);
        Ok(live)
    }

    fn fill_sessions(&mut self, n: usize) {
        while self.sessions.len() < n {
            let c = self.sessions[0].as_ref().map(|d| d.clone());
            self.sessions.push(c);
        }
    }

    fn apply_pragmas(&self, db: &turdb::Database) -> Result<(), String> {
        for p in self.cfg.pragmas() {
            let r = guarded(|| db.execute(&p)).map_err(|s| format!("panic in {} at {}", p, s))?;
            r.map_err(|e| format!("{} failed: {:#}", p, e))?;
        }
        Ok(())
    }

    pub fn db(&self, s: usize) -> &turdb::Database {
        self.sessions[s].as_ref().or(self.sessions[0].as_ref()).expect("no live handle")
    }

    /// drop every handle (optionally after `close()`), then open again and re-apply the pragmas
    pub fn reopen(&mut self, close_first: bool) -> Actual {
        let n = self.sessions.len();
        if close_first {
            if let Some(db) = self.sessions[0].as_ref() {
                match guarded(|| db.close()) {
                    Err(site) => return Actual::Panic(site),
                    Ok(Err(e)) => return Actual::Err(format!("close: {:#}", e)),
                    Ok(Ok(_)) => {}
                }
            }
        }
        if let Err(site) = guarded(|| self.sessions.clear()) {
            return Actual::Panic(site);
        }
        let path = self.path.clone();
        match guarded(|| turdb::Database::open(&path)) {
            Err(site) => Actual::Panic(site),
            Ok(Err(e)) => Actual::Err(format!("open: {:#}", e)),
            Ok(Ok(db)) => {
                if let Err(e) = self.apply_pragmas(&db) {
                    return Actual::Err(e);
                }
                self.sessions.push(Some(db));
                self.fill_sessions(n);
                Actual::Ok(ARes::Unit)
            }
        }
    }

    pub fn exec(&mut self, step: &Step) -> Actual {
        let s = step.s.min(self.sessions.len().saturating_sub(1));
        match &step.op {
            Op::CloseReopen => return self.reopen(true),
            Op::DropReopen => return self.reopen(false),
            _ => {}
        }
        let db = self.db(s);
        let r = guarded(|| exec_on(db, &step.op));
        match r {
            Ok(a) => a,
            Err(site) => Actual::Panic(site),
        }
    }

    pub fn query(&self, s: usize, sql: &str) -> Actual {
        let db = self.db(s);
        match guarded(|| db.execute(sql)) {
            Ok(r) => conv_result(r),
            Err(site) => Actual::Panic(site),
        }
    }
}

fn placeholders(n: usize) -> String {
    vec!["?"; n].join(", ")
}

pub fn exec_on(db: &turdb::Database, op: &Op) -> Actual {
    match op {
        Op::Insert { table, cols, rows, returning, api } if *api != Api::Literal => {
            // one statement per op: multi-row inserts through the parameter paths bind all rows
            let width = rows.first().map_or(0, |r| r.len());
            let mut sql = format!("INSERT INTO {}", table);
            if let Some(cs) = cols {
                sql.push_str(&format!(" ({})", cs.join(", ")));
            }
            sql.push_str(" VALUES ");
            sql.push_str(&rows.iter().map(|_| format!("({})", placeholders(width))).collect::<Vec<_>>().join(", "));
            if *returning {
                sql.push_str(" RETURNING *");
            }
            let params: Vec<turdb::OwnedValue> = rows.iter().flat_map(|r| r.iter().map(|v| v.to_owned_value())).collect();
            match api {
                Api::Params => conv_result(db.execute_with_params(&sql, &params)),
                _ => match db.prepare(&sql) {
                    Err(e) => Actual::Err(format!("prepare: {:#}", e)),
                    Ok(stmt) => {
                        if params.is_empty() {
                            return conv_result(db.execute(&sql));
                        }
                        let mut it = params.into_iter();
                        let mut b = stmt.bind(it.next().unwrap());
                        for p in it {
                            b = b.bind(p);
                        }
                        conv_result(b.execute(db))
                    }
                },
            }
        }
        Op::Bulk { api, table, rows } => {
            let data: Vec<Vec<turdb::OwnedValue>> = rows.iter().map(|r| r.iter().map(|v| v.to_owned_value()).collect()).collect();
            match api {
                BulkApi::InsertBatch => match db.insert_batch(table, &data) {
                    Ok(n) => Actual::Ok(ARes::Affected { n, returning: None }),
                    Err(e) => Actual::Err(format!("{:#}", e)),
                },
                BulkApi::BulkInsert => match db.bulk_insert(table, data) {
                    Ok(n) => Actual::Ok(ARes::Affected { n: n as usize, returning: None }),
                    Err(e) => Actual::Err(format!("{:#}", e)),
                },
                BulkApi::InsertCached => {
                    let width = rows.first().map_or(0, |r| r.len());
                    if width == 0 {
                        return Actual::Ok(ARes::Affected { n: 0, returning: None });
                    }
                    let sql = format!("INSERT INTO {} VALUES ({})", table, placeholders(width));
                    let stmt = match db.prepare(&sql) {
                        Ok(s) => s,
                        Err(e) => return Actual::Err(format!("prepare: {:#}", e)),
                    };
                    let mut n = 0usize;
                    for r in data {
                        let mut it = r.into_iter();
                        let mut b = stmt.bind(it.next().unwrap());
                        for p in it {
                            b = b.bind(p);
                        }
                        match b.execute(db) {
                            Ok(_) => n += 1,
                            Err(e) => return Actual::Err(format!("row {}: {:#}", n, e)),
                        }
                    }
                    Actual::Ok(ARes::Affected { n, returning: None })
                }
            }
        }
        Op::Checkpoint => match db.checkpoint() {
            Ok(_) => Actual::Ok(ARes::Unit),
            Err(e) => Actual::Err(format!("{:#}", e)),
        },
        Op::ArmFault { .. } | Op::Observe => Actual::Ok(ARes::Unit),
        other => conv_result(db.execute(&other.sql())),
    }
}
