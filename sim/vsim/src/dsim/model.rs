//! Relational reference model: schemas -> tables -> typed columns with declared constraints -> a
//! bag of rows; per-session transaction overlays with a savepoint stack. It deliberately does
//! not model indexes' structure, pages, WAL, row ids or plans.

use super::ops::*;
use std::collections::{BTreeMap, BTreeSet};

#[derive(Clone, Debug, PartialEq)]
pub struct MTable {
    pub def: TableDef,
    pub indexes: Vec<IndexDef>,
    pub rows: Vec<Row>,
    /// every value the AUTO_INCREMENT column has ever held or been given (C12)
    pub auto_ever: BTreeSet<i64>,
    /// largest id ever generated or held
    pub auto_max: i64,
}

#[derive(Clone, Debug, PartialEq, Default)]
pub struct DbState {
    pub tables: BTreeMap<String, MTable>,
}

#[derive(Clone, Debug, PartialEq, Eq)]
pub enum ErrClass {
    Pk,
    Unique,
    NotNull,
    Check,
    Fk,
    FkRestrict,
    Missing,
    Exists,
    TxnState,
    Type,
    Arity,
}

impl ErrClass {
    pub fn is_constraint(&self) -> bool {
        matches!(
            self,
            ErrClass::Pk | ErrClass::Unique | ErrClass::NotNull | ErrClass::Check | ErrClass::Fk | ErrClass::FkRestrict
        )
    }
    pub fn as_str(&self) -> &'static str {
        match self {
            ErrClass::Pk => "pk",
            ErrClass::Unique => "unique",
            ErrClass::NotNull => "notnull",
            ErrClass::Check => "check",
            ErrClass::Fk => "fk",
            ErrClass::FkRestrict => "fk-restrict",
            ErrClass::Missing => "missing-object",
            ErrClass::Exists => "already-exists",
            ErrClass::TxnState => "txn-state",
            ErrClass::Type => "type",
            ErrClass::Arity => "arity",
        }
    }
}

#[derive(Clone, Debug, PartialEq)]
pub enum Res {
    Unit,
    Affected { n: usize, returning: Option<Vec<Row>> },
    Rows(Vec<Row>),
    Count(i64),
}

/// What the model predicts for one statement.
#[derive(Clone, Debug)]
pub struct Prediction {
    pub expected: Result<Res, ErrClass>,
    /// new state of the session's view if the statement succeeds
    pub new_view: Option<DbState>,
    /// for INSERTs with generated ids: (table, positions in new_view.rows of the inserted rows, auto col)
    pub generated: Option<(String, Vec<usize>, usize)>,
    /// which row of a multi-row statement the model blames (for signatures)
    pub failing_row: Option<usize>,
}

#[derive(Clone, Debug, Default)]
pub struct Txn {
    pub begin: DbState,
    pub cur: DbState,
    pub saves: Vec<(String, DbState)>,
    pub writes: Vec<Op>,
    pub base_version: u64,
}

#[derive(Clone, Debug, Default)]
pub struct Sess {
    pub txn: Option<Txn>,
}

#[derive(Clone, Debug, Default)]
pub struct Model {
    pub committed: DbState,
    pub version: u64,
    pub sessions: Vec<Sess>,
}

pub fn tv(b: bool) -> Option<bool> {
    Some(b)
}

fn cmp_vals(a: &Val, b: &Val) -> Option<std::cmp::Ordering> {
    match (a, b) {
        (Val::Int(x), Val::Int(y)) => Some(x.cmp(y)),
        (Val::Text(x), Val::Text(y)) => Some(x.as_bytes().cmp(y.as_bytes())),
        (Val::F(x), Val::F(y)) => f64::from_bits(*x).partial_cmp(&f64::from_bits(*y)),
        (Val::Int(x), Val::F(y)) => (*x as f64).partial_cmp(&f64::from_bits(*y)),
        (Val::F(x), Val::Int(y)) => f64::from_bits(*x).partial_cmp(&(*y as f64)),
        (Val::Bool(x), Val::Bool(y)) => Some(x.cmp(y)),
        (Val::Blob(x), Val::Blob(y)) => Some(x.cmp(y)),
        _ => None,
    }
}

/// SQL three-valued evaluation: Some(true) / Some(false) / None (= NULL / unknown).
pub fn eval_pred(p: &Pred, def: &TableDef, row: &Row) -> Option<bool> {
    let get = |c: &str| -> Option<&Val> { def.col_index(c).and_then(|i| row.get(i)) };
    match p {
        Pred::True => Some(true),
        Pred::Cmp(c, op, v) => {
            let x = get(c)?;
            if x.is_null() || v.is_null() {
                return None;
            }
            let o = cmp_vals(x, &v.norm())?;
            use std::cmp::Ordering::*;
            Some(match op {
                CmpOp::Eq => o == Equal,
                CmpOp::Ne => o != Equal,
                CmpOp::Lt => o == Less,
                CmpOp::Le => o != Greater,
                CmpOp::Gt => o == Greater,
                CmpOp::Ge => o != Less,
            })
        }
        Pred::Between(c, a, b) => {
            let x = get(c)?;
            if x.is_null() {
                return None;
            }
            let lo = cmp_vals(x, &a.norm())?;
            let hi = cmp_vals(x, &b.norm())?;
            Some(lo != std::cmp::Ordering::Less && hi != std::cmp::Ordering::Greater)
        }
        Pred::IsNull(c, yes) => {
            let x = get(c)?;
            Some(x.is_null() == *yes)
        }
        Pred::In(c, vs) => {
            let x = get(c)?;
            if x.is_null() {
                return None;
            }
            Some(vs.iter().any(|v| cmp_vals(x, &v.norm()) == Some(std::cmp::Ordering::Equal)))
        }
        Pred::And(a, b) => match (eval_pred(a, def, row), eval_pred(b, def, row)) {
            (Some(false), _) | (_, Some(false)) => Some(false),
            (Some(true), Some(true)) => Some(true),
            _ => None,
        },
        Pred::Or(a, b) => match (eval_pred(a, def, row), eval_pred(b, def, row)) {
            (Some(true), _) | (_, Some(true)) => Some(true),
            (Some(false), Some(false)) => Some(false),
            _ => None,
        },
    }
}

fn pred_cols_exist(p: &Pred, def: &TableDef) -> bool {
    let mut cs = vec![];
    p.columns(&mut cs);
    cs.iter().all(|c| def.col_index(c).is_some())
}

fn type_ok(ty: Ty, v: &Val) -> bool {
    match (ty, v) {
        (_, Val::Null) => true,
        (Ty::Int, Val::Int(i)) => *i >= i32::MIN as i64 && *i <= i32::MAX as i64,
        (Ty::BigInt, Val::Int(_)) => true,
        (Ty::Text, Val::Text(_)) => true,
        (Ty::Double, Val::F(_)) => true,
        (Ty::Bool, Val::Bool(_)) => true,
        (Ty::Blob, Val::Blob(_)) => true,
        _ => false,
    }
}

fn rename_in_pred(p: &mut Pred, from: &str, to: &str) {
    match p {
        Pred::True => {}
        Pred::Cmp(c, _, _) | Pred::Between(c, _, _) | Pred::IsNull(c, _) | Pred::In(c, _) => {
            if c == from {
                *c = to.to_string();
            }
        }
        Pred::And(a, b) | Pred::Or(a, b) => {
            rename_in_pred(a, from, to);
            rename_in_pred(b, from, to);
        }
    }
}

impl MTable {
    pub fn new(def: TableDef) -> MTable {
        MTable {
            def,
            indexes: vec![],
            rows: vec![],
            auto_ever: BTreeSet::new(),
            auto_max: 0,
        }
    }

    pub fn auto_col(&self) -> Option<usize> {
        self.def.cols.iter().position(|c| c.auto_inc)
    }

    /// Column sets that must be unique (NULLs exempt): pk, unique columns, unique indexes.
    pub fn unique_sets(&self) -> Vec<(Vec<usize>, ErrClass)> {
        let mut out = vec![];
        for (i, c) in self.def.cols.iter().enumerate() {
            if c.pk {
                out.push((vec![i], ErrClass::Pk));
            } else if c.unique {
                out.push((vec![i], ErrClass::Unique));
            }
        }
        for ix in &self.indexes {
            if ix.unique {
                let cols: Vec<usize> = ix.cols.iter().filter_map(|c| self.def.col_index(c)).collect();
                if cols.len() == ix.cols.len() {
                    out.push((cols, ErrClass::Unique));
                }
            }
        }
        out
    }

    /// Columns with some index on them (pk, unique, first column of secondary indexes).
    pub fn indexed_cols(&self) -> Vec<usize> {
        let mut s = BTreeSet::new();
        for (i, c) in self.def.cols.iter().enumerate() {
            if c.pk || c.unique {
                s.insert(i);
            }
        }
        for ix in &self.indexes {
            if let Some(i) = ix.cols.first().and_then(|c| self.def.col_index(c)) {
                s.insert(i);
            }
        }
        s.into_iter().collect()
    }

    fn note_auto(&mut self, row: &Row) {
        if let Some(ac) = self.auto_col() {
            if let Some(Val::Int(i)) = row.get(ac) {
                self.auto_ever.insert(*i);
                if *i > self.auto_max {
                    self.auto_max = *i;
                }
            }
        }
    }
}

impl DbState {
    /// Row-level constraint check of `row` as a member of table `t` (excluding row index `skip`).
    fn check_row(&self, t: &MTable, row: &Row, skip: Option<usize>) -> Result<(), ErrClass> {
        for (i, c) in t.def.cols.iter().enumerate() {
            let v = &row[i];
            if !type_ok(c.ty, v) {
                return Err(ErrClass::Type);
            }
            if (c.not_null || c.pk) && v.is_null() {
                return Err(ErrClass::NotNull);
            }
            if let Some(chk) = &c.check {
                if eval_pred(chk, &t.def, row) == Some(false) {
                    return Err(ErrClass::Check);
                }
            }
        }
        for (cols, cls) in t.unique_sets() {
            if cols.iter().any(|i| row[*i].is_null()) {
                continue;
            }
            for (ri, r) in t.rows.iter().enumerate() {
                if Some(ri) == skip {
                    continue;
                }
                if cols.iter().all(|i| r[*i] == row[*i]) {
                    return Err(cls);
                }
            }
        }
        for (i, c) in t.def.cols.iter().enumerate() {
            if let Some(fk) = &c.fk {
                let v = &row[i];
                if v.is_null() {
                    continue;
                }
                let parent = match self.tables.get(&fk.table) {
                    Some(p) => p,
                    None => return Err(ErrClass::Fk),
                };
                let pc = match parent.def.col_index(&fk.col) {
                    Some(pc) => pc,
                    None => return Err(ErrClass::Fk),
                };
                // a self-reference may point at the row itself
                let self_ok = fk.table == t.def.name && row[pc] == *v;
                if !self_ok && !parent.rows.iter().any(|r| r[pc] == *v) {
                    return Err(ErrClass::Fk);
                }
            }
        }
        Ok(())
    }

    /// Children referencing (table, col).
    fn referrers(&self, table: &str) -> Vec<(String, usize, usize, OnDelete)> {
        let mut out = vec![];
        for (tn, t) in &self.tables {
            for (ci, c) in t.def.cols.iter().enumerate() {
                if let Some(fk) = &c.fk {
                    if fk.table == table {
                        if let Some(pc) = self.tables.get(table).and_then(|p| p.def.col_index(&fk.col)) {
                            out.push((tn.clone(), ci, pc, fk.on_delete));
                        }
                    }
                }
            }
        }
        out
    }

    pub fn is_referenced(&self, table: &str) -> bool {
        self.tables
            .iter()
            .any(|(tn, t)| tn != table && t.def.cols.iter().any(|c| c.fk.as_ref().map_or(false, |f| f.table == table)))
    }

    /// Delete rows `idx` of `table` honouring RESTRICT / CASCADE. Returns Err(FkRestrict) if refused.
    fn delete_rows(&mut self, table: &str, idx: &[usize]) -> Result<(), ErrClass> {
        let refs = self.referrers(table);
        let doomed: Vec<Row> = {
            let t = &self.tables[table];
            idx.iter().map(|i| t.rows[*i].clone()).collect()
        };
        // restrict first
        for (child, cc, pc, od) in &refs {
            if *od == OnDelete::Restrict {
                let ct = &self.tables[child];
                for d in &doomed {
                    if d[*pc].is_null() {
                        continue;
                    }
                    let referenced = ct.rows.iter().enumerate().any(|(ri, r)| {
                        r[*cc] == d[*pc] && !(child == table && idx.contains(&ri))
                    });
                    if referenced {
                        return Err(ErrClass::FkRestrict);
                    }
                }
            }
        }
        {
            let t = self.tables.get_mut(table).unwrap();
            let mut keep = Vec::with_capacity(t.rows.len());
            for (i, r) in t.rows.drain(..).enumerate() {
                if !idx.contains(&i) {
                    keep.push(r);
                }
            }
            t.rows = keep;
        }
        for (child, cc, pc, od) in &refs {
            if *od == OnDelete::Cascade {
                let victims: Vec<usize> = {
                    let ct = &self.tables[child];
                    ct.rows
                        .iter()
                        .enumerate()
                        .filter(|(_, r)| doomed.iter().any(|d| !d[*pc].is_null() && r[*cc] == d[*pc]))
                        .map(|(i, _)| i)
                        .collect()
                };
                if !victims.is_empty() {
                    self.delete_rows(child, &victims)?;
                }
            }
        }
        Ok(())
    }
}

impl Model {
    pub fn new(nsessions: usize) -> Model {
        Model {
            committed: DbState::default(),
            version: 0,
            sessions: vec![Sess::default(); nsessions],
        }
    }

    pub fn in_txn(&self, s: usize) -> bool {
        self.sessions.get(s).map_or(false, |x| x.txn.is_some())
    }

    pub fn any_txn(&self) -> bool {
        self.sessions.iter().any(|x| x.txn.is_some())
    }

    pub fn view(&self, s: usize) -> &DbState {
        match self.sessions.get(s).and_then(|x| x.txn.as_ref()) {
            Some(t) => &t.cur,
            None => &self.committed,
        }
    }

    /// Predict the outcome of `op` issued by session `s`. Does not change the model.
    pub fn predict(&self, s: usize, op: &Op) -> Prediction {
        let view = self.view(s);
        let mut p = Prediction {
            expected: Ok(Res::Unit),
            new_view: None,
            generated: None,
            failing_row: None,
        };
        macro_rules! fail {
            ($e:expr) => {{
                p.expected = Err($e);
                return p;
            }};
        }
        match op {
            Op::CreateTable(def) => {
                if view.tables.contains_key(&def.name) {
                    fail!(ErrClass::Exists);
                }
                for c in &def.cols {
                    if let Some(fk) = &c.fk {
                        if fk.table != def.name && !view.tables.contains_key(&fk.table) {
                            fail!(ErrClass::Missing);
                        }
                    }
                }
                let mut nv = view.clone();
                nv.tables.insert(def.name.clone(), MTable::new(def.clone()));
                p.new_view = Some(nv);
            }
            Op::DropTable(name) => {
                if !view.tables.contains_key(name) {
                    fail!(ErrClass::Missing);
                }
                let mut nv = view.clone();
                nv.tables.remove(name);
                p.new_view = Some(nv);
            }
            Op::CreateIndex { table, index } => {
                let t = match view.tables.get(table) {
                    Some(t) => t,
                    None => fail!(ErrClass::Missing),
                };
                if view.tables.values().any(|t| t.indexes.iter().any(|i| i.name == index.name)) {
                    fail!(ErrClass::Exists);
                }
                let cols: Vec<usize> = index.cols.iter().filter_map(|c| t.def.col_index(c)).collect();
                if cols.len() != index.cols.len() {
                    fail!(ErrClass::Missing);
                }
                if index.unique {
                    for (i, a) in t.rows.iter().enumerate() {
                        if cols.iter().any(|c| a[*c].is_null()) {
                            continue;
                        }
                        for b in t.rows.iter().skip(i + 1) {
                            if cols.iter().all(|c| a[*c] == b[*c]) {
                                fail!(ErrClass::Unique);
                            }
                        }
                    }
                }
                let mut nv = view.clone();
                nv.tables.get_mut(table).unwrap().indexes.push(index.clone());
                p.new_view = Some(nv);
            }
            Op::DropIndex(name) => {
                let owner = view
                    .tables
                    .iter()
                    .find(|(_, t)| t.indexes.iter().any(|i| &i.name == name))
                    .map(|(n, _)| n.clone());
                match owner {
                    None => fail!(ErrClass::Missing),
                    Some(tn) => {
                        let mut nv = view.clone();
                        nv.tables.get_mut(&tn).unwrap().indexes.retain(|i| &i.name != name);
                        p.new_view = Some(nv);
                    }
                }
            }
            Op::AddColumn { table, col } => {
                let t = match view.tables.get(table) {
                    Some(t) => t,
                    None => fail!(ErrClass::Missing),
                };
                if t.def.col_index(&col.name).is_some() {
                    fail!(ErrClass::Exists);
                }
                let mut nv = view.clone();
                let nt = nv.tables.get_mut(table).unwrap();
                nt.def.cols.push(col.clone());
                // existing rows: NULL here; the run loop adopts "default" if the engine shows the
                // default consistently (C21 allows either)
                for r in nt.rows.iter_mut() {
                    r.push(Val::Null);
                }
                p.new_view = Some(nv);
            }
            Op::DropColumn { table, col } => {
                let t = match view.tables.get(table) {
                    Some(t) => t,
                    None => fail!(ErrClass::Missing),
                };
                let ci = match t.def.col_index(col) {
                    Some(ci) => ci,
                    None => fail!(ErrClass::Missing),
                };
                let mut nv = view.clone();
                let nt = nv.tables.get_mut(table).unwrap();
                nt.def.cols.remove(ci);
                for r in nt.rows.iter_mut() {
                    r.remove(ci);
                }
                nt.indexes.retain(|i| !i.cols.contains(col));
                p.new_view = Some(nv);
            }
            Op::RenameColumn { table, from, to } => {
                let t = match view.tables.get(table) {
                    Some(t) => t,
                    None => fail!(ErrClass::Missing),
                };
                if t.def.col_index(from).is_none() {
                    fail!(ErrClass::Missing);
                }
                if t.def.col_index(to).is_some() {
                    fail!(ErrClass::Exists);
                }
                let mut nv = view.clone();
                let nt = nv.tables.get_mut(table).unwrap();
                for c in nt.def.cols.iter_mut() {
                    if &c.name == from {
                        c.name = to.clone();
                    }
                    if let Some(chk) = c.check.as_mut() {
                        rename_in_pred(chk, from, to);
                    }
                }
                for i in nt.indexes.iter_mut() {
                    for c in i.cols.iter_mut() {
                        if c == from {
                            *c = to.clone();
                        }
                    }
                }
                p.new_view = Some(nv);
            }
            Op::Truncate(table) => {
                let t = match view.tables.get(table) {
                    Some(t) => t,
                    None => fail!(ErrClass::Missing),
                };
                let n = t.rows.len();
                let mut nv = view.clone();
                nv.tables.get_mut(table).unwrap().rows.clear();
                p.new_view = Some(nv);
                p.expected = Ok(Res::Affected { n, returning: None });
            }
            Op::Insert { table, cols, rows, returning, .. } => {
                let (exp, nv, gen, fr) = self.predict_insert(view, table, cols.as_deref(), rows, *returning);
                p.expected = exp;
                p.new_view = nv;
                p.generated = gen;
                p.failing_row = fr;
            }
            Op::Bulk { table, rows, .. } => {
                let (exp, nv, gen, fr) = self.predict_insert(view, table, None, rows, false);
                p.expected = exp;
                p.new_view = nv;
                p.generated = gen;
                p.failing_row = fr;
            }
            Op::Update { table, sets, pred, returning } => {
                let t = match view.tables.get(table) {
                    Some(t) => t,
                    None => fail!(ErrClass::Missing),
                };
                if !pred_cols_exist(pred, &t.def) {
                    fail!(ErrClass::Missing);
                }
                let mut set_idx = vec![];
                for (c, _) in sets {
                    match t.def.col_index(c) {
                        Some(i) => set_idx.push(i),
                        None => fail!(ErrClass::Missing),
                    }
                }
                let targets: Vec<usize> = t
                    .rows
                    .iter()
                    .enumerate()
                    .filter(|(_, r)| eval_pred(pred, &t.def, r) == Some(true))
                    .map(|(i, _)| i)
                    .collect();
                let mut nv = view.clone();
                let mut ret = vec![];
                for (k, ri) in targets.iter().enumerate() {
                    let mut nr = nv.tables[table].rows[*ri].clone();
                    for ((_, e), ci) in sets.iter().zip(set_idx.iter()) {
                        nr[*ci] = match e {
                            SetExpr::Const(v) => v.norm(),
                            SetExpr::Add(kk) => match &nr[*ci] {
                                Val::Int(x) => match x.checked_add(*kk) {
                                    Some(y) => Val::Int(y),
                                    None => fail!(ErrClass::Type),
                                },
                                Val::Null => Val::Null,
                                _ => fail!(ErrClass::Type),
                            },
                        };
                    }
                    let chk = {
                        let nt = &nv.tables[table];
                        nv.check_row(nt, &nr, Some(*ri))
                    };
                    if let Err(e) = chk {
                        p.failing_row = Some(k);
                        p.expected = Err(e);
                        return p;
                    }
                    let nt = nv.tables.get_mut(table).unwrap();
                    nt.note_auto(&nr);
                    nt.rows[*ri] = nr.clone();
                    ret.push(nr);
                }
                p.new_view = Some(nv);
                p.expected = Ok(Res::Affected {
                    n: targets.len(),
                    returning: if *returning { Some(ret) } else { None },
                });
            }
            Op::Delete { table, pred, returning } => {
                let t = match view.tables.get(table) {
                    Some(t) => t,
                    None => fail!(ErrClass::Missing),
                };
                if !pred_cols_exist(pred, &t.def) {
                    fail!(ErrClass::Missing);
                }
                let targets: Vec<usize> = t
                    .rows
                    .iter()
                    .enumerate()
                    .filter(|(_, r)| eval_pred(pred, &t.def, r) == Some(true))
                    .map(|(i, _)| i)
                    .collect();
                let ret: Vec<Row> = targets.iter().map(|i| t.rows[*i].clone()).collect();
                let mut nv = view.clone();
                if let Err(e) = nv.delete_rows(table, &targets) {
                    fail!(e);
                }
                p.new_view = Some(nv);
                p.expected = Ok(Res::Affected {
                    n: targets.len(),
                    returning: if *returning { Some(ret) } else { None },
                });
            }
            Op::Select { table, cols, pred } => {
                let t = match view.tables.get(table) {
                    Some(t) => t,
                    None => fail!(ErrClass::Missing),
                };
                if !pred_cols_exist(pred, &t.def) {
                    fail!(ErrClass::Missing);
                }
                let proj: Option<Vec<usize>> = match cols {
                    None => None,
                    Some(cs) => {
                        let mut v = vec![];
                        for c in cs {
                            match t.def.col_index(c) {
                                Some(i) => v.push(i),
                                None => fail!(ErrClass::Missing),
                            }
                        }
                        Some(v)
                    }
                };
                let rows: Vec<Row> = t
                    .rows
                    .iter()
                    .filter(|r| eval_pred(pred, &t.def, r) == Some(true))
                    .map(|r| match &proj {
                        None => r.clone(),
                        Some(ix) => ix.iter().map(|i| r[*i].clone()).collect(),
                    })
                    .collect();
                p.expected = Ok(Res::Rows(rows));
            }
            Op::Count(table) => match view.tables.get(table) {
                Some(t) => p.expected = Ok(Res::Count(t.rows.len() as i64)),
                None => fail!(ErrClass::Missing),
            },
            Op::Begin => {
                if self.in_txn(s) {
                    fail!(ErrClass::TxnState);
                }
            }
            Op::Commit | Op::Rollback => {
                if !self.in_txn(s) {
                    fail!(ErrClass::TxnState);
                }
            }
            Op::Savepoint(_) => {
                if !self.in_txn(s) {
                    fail!(ErrClass::TxnState);
                }
            }
            Op::RollbackTo(n) | Op::Release(n) => match self.sessions[s].txn.as_ref() {
                None => fail!(ErrClass::TxnState),
                Some(t) => {
                    if !t.saves.iter().any(|(x, _)| x == n) {
                        fail!(ErrClass::Missing);
                    }
                }
            },
            Op::Checkpoint
            | Op::PragmaCheckpoint
            | Op::CloseReopen
            | Op::DropReopen
            | Op::Pragma { .. }
            | Op::ArmFault { .. }
            | Op::Observe => {}
        }
        p
    }

    #[allow(clippy::type_complexity)]
    fn predict_insert(
        &self,
        view: &DbState,
        table: &str,
        cols: Option<&[String]>,
        rows: &[Row],
        returning: bool,
    ) -> (Result<Res, ErrClass>, Option<DbState>, Option<(String, Vec<usize>, usize)>, Option<usize>) {
        let t = match view.tables.get(table) {
            Some(t) => t,
            None => return (Err(ErrClass::Missing), None, None, None),
        };
        let ncols = t.def.cols.len();
        let map: Vec<usize> = match cols {
            None => (0..ncols).collect(),
            Some(cs) => {
                let mut v = vec![];
                for c in cs {
                    match t.def.col_index(c) {
                        Some(i) => v.push(i),
                        None => return (Err(ErrClass::Missing), None, None, None),
                    }
                }
                v
            }
        };
        let auto = t.auto_col();
        let mut nv = view.clone();
        let mut gen_pos = vec![];
        let mut ret = vec![];
        let mut any_generated = false;
        for (k, r) in rows.iter().enumerate() {
            if r.len() != map.len() {
                // fewer values than columns (no column list): trailing columns default
                if cols.is_some() || r.len() > ncols {
                    return (Err(ErrClass::Arity), None, None, Some(k));
                }
            }
            let mut full: Row = t
                .def
                .cols
                .iter()
                .map(|c| c.default.as_ref().map(|d| d.norm()).unwrap_or(Val::Null))
                .collect();
            let mut given = vec![false; ncols];
            for (j, v) in r.iter().enumerate() {
                full[map[j]] = v.norm();
                given[map[j]] = true;
            }
            let mut generated_here = false;
            if let Some(ac) = auto {
                if !given[ac] || full[ac].is_null() {
                    let nt = &nv.tables[table];
                    full[ac] = Val::Int(nt.auto_max.saturating_add(1));
                    generated_here = true;
                    any_generated = true;
                }
            }
            let chk = {
                let nt = &nv.tables[table];
                nv.check_row(nt, &full, None)
            };
            if let Err(e) = chk {
                return (Err(e), None, None, Some(k));
            }
            let nt = nv.tables.get_mut(table).unwrap();
            nt.note_auto(&full);
            nt.rows.push(full.clone());
            if generated_here {
                gen_pos.push(nt.rows.len() - 1);
            }
            ret.push(full);
        }
        let gen = if any_generated { Some((table.to_string(), gen_pos, auto.unwrap())) } else { None };
        (
            Ok(Res::Affected {
                n: rows.len(),
                returning: if returning { Some(ret) } else { None },
            }),
            Some(nv),
            gen,
            None,
        )
    }

    /// Apply a successful statement's effect (after the engine agreed, or after ids were adopted).
    pub fn commit_effect(&mut self, s: usize, op: &Op, new_view: Option<DbState>) {
        match op {
            Op::Begin => {
                let snap = self.committed.clone();
                self.sessions[s].txn = Some(Txn {
                    begin: snap.clone(),
                    cur: snap,
                    saves: vec![],
                    writes: vec![],
                    base_version: self.version,
                });
            }
            Op::Commit => {
                if let Some(t) = self.sessions[s].txn.take() {
                    if t.base_version == self.version {
                        self.committed = t.cur;
                    } else {
                        // someone else committed meanwhile: replay this transaction's writes
                        let mut tmp = Model {
                            committed: self.committed.clone(),
                            version: 0,
                            sessions: vec![Sess::default()],
                        };
                        for w in &t.writes {
                            let p = tmp.predict(0, w);
                            if p.expected.is_ok() {
                                tmp.commit_effect(0, w, p.new_view);
                            }
                        }
                        self.committed = tmp.committed;
                    }
                    self.version += 1;
                }
            }
            Op::Rollback => {
                if let Some(t) = self.sessions[s].txn.take() {
                    // ids generated inside the rolled-back transaction still count as used (C12)
                    for (tn, mt) in &t.cur.tables {
                        let ids: Vec<i64> = mt.auto_ever.iter().copied().collect();
                        self.remember_auto(tn, &ids);
                    }
                }
            }
            Op::Savepoint(n) => {
                if let Some(t) = self.sessions[s].txn.as_mut() {
                    let snap = t.cur.clone();
                    t.saves.push((n.clone(), snap));
                }
            }
            Op::RollbackTo(n) => {
                if let Some(t) = self.sessions[s].txn.as_mut() {
                    if let Some(pos) = t.saves.iter().rposition(|(x, _)| x == n) {
                        let used: Vec<(String, Vec<i64>)> =
                            t.cur.tables.iter().map(|(k, v)| (k.clone(), v.auto_ever.iter().copied().collect())).collect();
                        t.cur = t.saves[pos].1.clone();
                        t.saves.truncate(pos + 1);
                        for (tn, ids) in used {
                            if let Some(mt) = t.cur.tables.get_mut(&tn) {
                                for i in ids {
                                    mt.auto_ever.insert(i);
                                    if i > mt.auto_max {
                                        mt.auto_max = i;
                                    }
                                }
                            }
                        }
                    }
                }
            }
            Op::Release(n) => {
                if let Some(t) = self.sessions[s].txn.as_mut() {
                    if let Some(pos) = t.saves.iter().rposition(|(x, _)| x == n) {
                        t.saves.truncate(pos);
                    }
                }
            }
            Op::CloseReopen | Op::DropReopen => {
                let mut used: Vec<(String, Vec<i64>)> = vec![];
                for x in self.sessions.iter_mut() {
                    if let Some(t) = x.txn.take() {
                        for (tn, mt) in &t.cur.tables {
                            used.push((tn.clone(), mt.auto_ever.iter().copied().collect()));
                        }
                    }
                }
                for (tn, ids) in used {
                    self.remember_auto(&tn, &ids);
                }
            }
            _ => {
                if let Some(nv) = new_view {
                    match self.sessions[s].txn.as_mut() {
                        Some(t) => {
                            t.cur = nv;
                            t.writes.push(op.clone());
                        }
                        None => {
                            self.committed = nv;
                            self.version += 1;
                        }
                    }
                }
            }
        }
    }

    /// Keep the AUTO_INCREMENT history monotone across rollbacks: ids generated inside a rolled
    /// back transaction still count as "ever generated".
    pub fn remember_auto(&mut self, table: &str, ids: &[i64]) {
        let note = |st: &mut DbState| {
            if let Some(t) = st.tables.get_mut(table) {
                for i in ids {
                    t.auto_ever.insert(*i);
                    if *i > t.auto_max {
                        t.auto_max = *i;
                    }
                }
            }
        };
        note(&mut self.committed);
        for s in self.sessions.iter_mut() {
            if let Some(t) = s.txn.as_mut() {
                note(&mut t.cur);
                note(&mut t.begin);
                for (_, sv) in t.saves.iter_mut() {
                    note(sv);
                }
            }
        }
    }
}

/// Compare two bags of rows.
pub fn bags_equal(a: &[Row], b: &[Row]) -> bool {
    if a.len() != b.len() {
        return false;
    }
    let mut x: Vec<Row> = a.iter().map(norm_row).collect();
    let mut y: Vec<Row> = b.iter().map(norm_row).collect();
    sort_bag(&mut x);
    sort_bag(&mut y);
    x == y
}

/// (missing from observed, unexpected in observed)
pub fn bag_diff(expected: &[Row], observed: &[Row]) -> (Vec<Row>, Vec<Row>) {
    let mut exp: Vec<Row> = expected.iter().map(norm_row).collect();
    let mut missing = vec![];
    let mut obs: Vec<Row> = observed.iter().map(norm_row).collect();
    for e in exp.drain(..) {
        if let Some(pos) = obs.iter().position(|o| *o == e) {
            obs.swap_remove(pos);
        } else {
            missing.push(e);
        }
    }
    (missing, obs)
}
