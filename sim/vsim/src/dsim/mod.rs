//! dsim — whole-database simulation against a relational reference model.

pub mod catcheck;
pub mod exec;
pub mod gen;
pub mod model;
pub mod obs;
pub mod ops;
pub mod run;

use self::exec::*;
use self::gen::*;
use self::obs::*;
use self::ops::*;
use self::run::*;
use simdisk;
use serde_json::{json, Value};
use simcore::driver::{ddmin_keepsets, Engine};
use simcore::rng::mix;
use simcore::{Rng, RunOutcome, Tier};

pub struct Dsim;

/// profile string: "<name>@<property>"
fn split_profile(p: &str) -> (String, String) {
    match p.split_once('@') {
        Some((a, b)) => (a.to_string(), b.to_string()),
        None => (p.to_string(), "C05".to_string()),
    }
}

fn new_ctx(profile: &str, property: &str, swarm: Swarm, tier: Tier, crash: Option<CrashSpec>) -> Ctx {
    Ctx {
        profile: profile.to_string(),
        property: property.to_string(),
        swarm,
        tier,
        out: RunOutcome::default(),
        log: 0,
        steps_done: vec![],
        crash,
        img_seq: 0,
        images_verified: 0,
        max_images_per_step: if tier == Tier::Thorough { 120 } else { 48 },
        max_images_per_run: if tier == Tier::Thorough { 2500 } else { 700 },
        image_cost: 0,
        max_image_cost_per_run: if tier == Tier::Thorough { 12_000 } else { 3_500 },
        stop: false,
        fault_armed: false,
        kinds: vec![],
        seen_sigs: Default::default(),
    }
}

fn finish(mut ctx: Ctx, hist: Option<History>) -> RunOutcome {
    let records = hist.as_ref().map(|h| h.records.clone()).unwrap_or_default();
    // drop the live database before reading the final counters
    if let Some(h) = hist {
        let _ = guarded(|| drop(h));
    }
    simdisk::with(|sd| {
        ctx.log = mix(ctx.log, sd.log_hash);
        for (k, v) in &sd.counters {
            *ctx.out.counters.entry(k.clone()).or_insert(0) += v;
        }
    });
    for (k, v) in simdisk::probes() {
        *ctx.out.counters.entry(format!("probe/{}", k)).or_insert(0) += v;
    }
    let writes_ok = records.iter().filter(|r| r.step.op.is_write() && r.actual.is_ok()).count();
    ctx.out.count("steps", records.len() as u64);
    ctx.out.count("writes_acknowledged", writes_ok as u64);
    ctx.out.nontrivial = writes_ok >= 2 && records.len() >= 4;
    ctx.out.fingerprint = fingerprint(&ctx);
    ctx.out.events_hash = ctx.log;
    ctx.out.sample = sample_of(&ctx, &records);
    ctx.out
}

/// Execute an explicit step list on a fresh database under `cfg`, no model, transcript only.
fn run_plain(steps: &[Step], cfg: &DbConfig, nsess: usize, seed: u64, plans: &[Option<QPlan>]) -> Result<Vec<(Actual, Option<QObs>)>, String> {
    let root = simcore::pool::child_scratch().join("twin");
    let _ = std::fs::remove_dir_all(&root);
    let _ = std::fs::create_dir_all(&root);
    simdisk::reset_hash_counter();
    simdisk::install(root.to_str().unwrap_or("/dev/shm/vsim-x"), seed);
    let mut live = Live::create(&root.join("db"), cfg, nsess)?;
    let mut out = vec![];
    for (i, st) in steps.iter().enumerate() {
        if matches!(st.op, Op::ArmFault { .. }) {
            out.push((Actual::Ok(ARes::Unit), None));
            continue;
        }
        let a = live.exec(st);
        let stop = matches!(a, Actual::Panic(_));
        let q = match plans.get(i).and_then(|p| p.as_ref()) {
            Some(plan) if !stop => Some(live_obs(&live, st.s.min(nsess - 1), plan)),
            _ => None,
        };
        out.push((a, q));
        if stop {
            break;
        }
    }
    let _ = guarded(|| drop(live));
    Ok(out)
}

fn norm_actual(a: &Actual) -> String {
    match a {
        Actual::Ok(ARes::Rows { rows, .. }) => {
            let mut r: Vec<Row> = rows.iter().map(norm_row).collect();
            sort_bag(&mut r);
            format!("rows{}", fmt_bag(&r))
        }
        Actual::Ok(ARes::Affected { n, returning }) => {
            let r = returning.as_ref().map(|r| {
                let mut r: Vec<Row> = r.iter().map(norm_row).collect();
                sort_bag(&mut r);
                fmt_bag(&r)
            });
            format!("affected={} returning={:?}", n, r)
        }
        Actual::Ok(_) => "ok".into(),
        Actual::Err(_) => "err".into(),
        Actual::Panic(s) => format!("panic@{}", s),
    }
}

fn random_cfg(rng: &mut Rng) -> DbConfig {
    DbConfig {
        wal: rng.chance(2, 3),
        synchronous: rng.pick(&["OFF", "NORMAL", "FULL"]).to_string(),
        autoflush: rng.chance(2, 3),
        checkpoint_threshold: *rng.pick(&[None, Some(2), Some(50)]),
        join_budget: None,
    }
}

/// Twin differential: run a transformed history and compare transcripts.
fn run_twins(ctx: &mut Ctx, hist_records: &[StepRecord], seed: u64) {
    let (which, prop): (&str, &str) = match ctx.profile.as_str() {
        "life" => ("nolife", "C04"),
        "config" => ("config", "C42"),
        "index" => ("noindex", "C10"),
        _ => return,
    };
    let steps: Vec<Step> = hist_records.iter().map(|r| r.step.clone()).collect();
    let nsess = ctx.swarm.sessions.max(1);
    let mut rng = Rng::new(mix(seed, 0x7717));
    let ntwins = if which == "config" { 3 } else { 1 };
    for tw in 0..ntwins {
        let cfg = if which == "config" { random_cfg(&mut rng) } else { ctx.swarm.cfg.clone() };
        let keep: Vec<usize> = steps
            .iter()
            .enumerate()
            .filter(|(_, s)| match which {
                "nolife" => !matches!(s.op, Op::Checkpoint | Op::PragmaCheckpoint | Op::CloseReopen | Op::DropReopen),
                "noindex" => !matches!(s.op, Op::CreateIndex { .. } | Op::DropIndex(_)),
                _ => true,
            })
            .map(|(i, _)| i)
            .collect();
        let tsteps: Vec<Step> = keep.iter().map(|i| steps[*i].clone()).collect();
        let plans: Vec<Option<QPlan>> = keep.iter().map(|i| hist_records[*i].q.as_ref().map(|(p, _)| p.clone())).collect();
        let res = match run_plain(&tsteps, &cfg, nsess, mix(seed, tw as u64 + 1), &plans) {
            Ok(r) => r,
            Err(e) => {
                ctx.out.harness_error = Some(format!("twin: {}", e));
                return;
            }
        };
        ctx.out.count(&format!("twin/{}", which), 1);
        for (k, (ta, tq)) in res.iter().enumerate() {
            let i = keep[k];
            let pr = &hist_records[i];
            let a = norm_actual(&pr.actual);
            let b = norm_actual(ta);
            let sig = vec![
                ("twin", which.to_string()),
                ("stmt", pr.step.op.kind().to_string()),
                ("cfg_a", format!("wal={} sync={} af={} thr={:?}", ctx.swarm.cfg.wal, ctx.swarm.cfg.synchronous, ctx.swarm.cfg.autoflush, ctx.swarm.cfg.checkpoint_threshold)),
                ("cfg_b", format!("wal={} sync={} af={} thr={:?}", cfg.wal, cfg.synchronous, cfg.autoflush, cfg.checkpoint_threshold)),
            ];
            if a != b {
                let mut c: Case = serde_json::from_value(ctx.case_json(None)).unwrap();
                c.twin = Some(which.to_string());
                c.twin_cfg = Some(cfg.clone());
                let sigm: std::collections::BTreeMap<String, String> = sig.iter().map(|(k, v)| (k.to_string(), v.clone())).collect();
                let mut sigm2 = sigm.clone();
                if which == "config" {
                    sigm2.remove("cfg_a");
                    sigm2.remove("cfg_b");
                    sigm2.insert("wal_differs".into(), (ctx.swarm.cfg.wal != cfg.wal).to_string());
                }
                ctx.out.violations.push(simcore::Violation {
                    property: prop.to_string(),
                    verdict: "twin-result-differs".into(),
                    sig: sigm2,
                    detail: format!(
                        "step {} {}: primary -> {} ; twin({}; {:?}) -> {}",
                        i,
                        pr.step.op.short(),
                        a,
                        which,
                        cfg,
                        b
                    ),
                    case: serde_json::to_value(&c).unwrap_or(Value::Null),
                });
                return;
            }
            if let (Some((plan, pq)), Some(tq)) = (&pr.q, tq) {
                if let Some(d) = diff_obs(pq, tq, plan) {
                    let mut c: Case = serde_json::from_value(ctx.case_json(None)).unwrap();
                    c.twin = Some(which.to_string());
                    c.twin_cfg = Some(cfg.clone());
                    let mut sigm: std::collections::BTreeMap<String, String> = std::collections::BTreeMap::new();
                    sigm.insert("twin".into(), which.to_string());
                    sigm.insert("stmt".into(), pr.step.op.kind().to_string());
                    sigm.insert("what".into(), d.what.clone());
                    // unlogged statement kinds executed so far (KF-C04-01 / KF-C21-03 conditions)
                    let mut hist: Vec<&str> = hist_records[..=i].iter().map(|r| r.step.op.kind()).filter(|k| *k == "TRUNCATE" || *k == "DROP_COLUMN").collect();
                    hist.sort();
                    hist.dedup();
                    sigm.insert("unlogged_before".into(), if hist.is_empty() { "none".to_string() } else { hist.join("+") });
                    sigm.insert("wal".into(), ctx.swarm.cfg.wal.to_string());
                    ctx.out.violations.push(simcore::Violation {
                        property: prop.to_string(),
                        verdict: "twin-state-differs".into(),
                        sig: sigm,
                        detail: format!("after step {} {}: twin({}; {:?}) observes differently: {}", i, pr.step.op.short(), which, cfg, d.detail),
                        case: serde_json::to_value(&c).unwrap_or(Value::Null),
                    });
                    return;
                }
            }
        }
    }
}

impl Dsim {
    fn run(&self, profile: &str, property: &str, swarm: Swarm, tier: Tier, mut src: Source, crash: Option<CrashSpec>, seed: u64, twins: bool) -> RunOutcome {
        let mut ctx = new_ctx(profile, property, swarm, tier, crash);
        let hist = run_history(&mut ctx, &mut src, seed);
        let mut out_hist = hist;
        if twins && ctx.out.violations.is_empty() && ctx.out.harness_error.is_none() {
            if let Some(h) = out_hist.take() {
                let records = h.records.clone();
                let _ = guarded(|| drop(h.live));
                // fold the primary's simdisk counters before the twin re-installs simdisk
                simdisk::with(|sd| {
                    ctx.log = mix(ctx.log, sd.log_hash);
                    for (k, v) in &sd.counters {
                        *ctx.out.counters.entry(k.clone()).or_insert(0) += v;
                    }
                });
                run_twins(&mut ctx, &records, seed);
                let writes_ok = records.iter().filter(|r| r.step.op.is_write() && r.actual.is_ok()).count();
                ctx.out.count("steps", records.len() as u64);
                ctx.out.count("writes_acknowledged", writes_ok as u64);
                ctx.out.nontrivial = writes_ok >= 2 && records.len() >= 4;
                ctx.out.fingerprint = fingerprint(&ctx);
                ctx.out.events_hash = ctx.log;
                ctx.out.sample = sample_of(&ctx, &records);
                return ctx.out;
            }
        }
        finish(ctx, out_hist)
    }
}

impl Engine for Dsim {
    fn name(&self) -> &'static str {
        "dsim"
    }

    fn run_seeded(&self, profile: &str, seed: u64, run: u64, tier: Tier) -> RunOutcome {
        let (pname, property) = split_profile(profile);
        let rseed = mix(seed, run);
        let mut rng = Rng::new(rseed);
        let mut swarm_rng = rng.fork("swarm");
        let swarm = swarm_for(&pname, &mut swarm_rng, tier == Tier::Thorough);
        let crash = if pname == "crash" { Some(CrashSpec { step: None, point: None }) } else { None };
        let src = Source::Seeded { rng: rng.fork("workload"), gen: Gen::new() };
        let _ = rng.next_u64();
        self.run(&pname, &property, swarm, tier, src, crash, rseed, true)
    }

    fn run_case(&self, case: &Value) -> RunOutcome {
        let c: Case = match serde_json::from_value(case.clone()) {
            Ok(c) => c,
            Err(e) => {
                return RunOutcome {
                    harness_error: Some(format!("bad dsim case: {}", e)),
                    ..Default::default()
                }
            }
        };
        let src = Source::Explicit { steps: c.steps.clone(), pos: 0 };
        let seed = 0xC0FFEE;
        let twins = c.twin.is_some();
        self.run(&c.profile, &c.property, c.swarm.clone(), Tier::Quick, src, c.crash.clone(), seed, twins)
    }

    fn shrink(&self, case: &Value) -> Vec<Value> {
        let c: Case = match serde_json::from_value(case.clone()) {
            Ok(c) => c,
            Err(_) => return vec![],
        };
        let mut out = vec![];
        let n = c.steps.len();
        let crash_step = c.crash.as_ref().and_then(|x| x.step);
        // 0. cut everything after the crash step
        if let Some(k) = crash_step {
            if k + 1 < n {
                let mut d = c.clone();
                d.steps.truncate(k + 1);
                out.push(serde_json::to_value(&d).unwrap());
            }
        }
        // 1. drop chunks of steps
        for keep in ddmin_keepsets(n) {
            if let Some(k) = crash_step {
                if !keep.contains(&k) {
                    continue;
                }
            }
            let mut d = c.clone();
            d.steps = keep.iter().map(|i| c.steps[*i].clone()).collect();
            if let (Some(k), Some(cr)) = (crash_step, d.crash.as_mut()) {
                cr.step = keep.iter().position(|i| *i == k);
                cr.point = None;
            }
            out.push(serde_json::to_value(&d).unwrap());
        }
        // 2. simplify single steps
        for (i, st) in c.steps.iter().enumerate() {
            let mut alts: Vec<Op> = vec![];
            match &st.op {
                Op::Insert { table, cols, rows, returning, api } => {
                    if rows.len() > 1 {
                        for k in 0..rows.len().min(6) {
                            let mut r = rows.clone();
                            r.remove(k);
                            alts.push(Op::Insert { table: table.clone(), cols: cols.clone(), rows: r, returning: *returning, api: *api });
                        }
                        alts.push(Op::Insert { table: table.clone(), cols: cols.clone(), rows: rows[..rows.len() / 2].to_vec(), returning: *returning, api: *api });
                    }
                    if *api != Api::Literal {
                        alts.push(Op::Insert { table: table.clone(), cols: cols.clone(), rows: rows.clone(), returning: *returning, api: Api::Literal });
                    }
                    if *returning {
                        alts.push(Op::Insert { table: table.clone(), cols: cols.clone(), rows: rows.clone(), returning: false, api: *api });
                    }
                }
                Op::Bulk { api, table, rows } if rows.len() > 1 => {
                    alts.push(Op::Bulk { api: *api, table: table.clone(), rows: rows[..rows.len() / 2].to_vec() });
                    alts.push(Op::Bulk { api: *api, table: table.clone(), rows: rows[rows.len() / 2..].to_vec() });
                }
                Op::Update { table, sets, pred, returning } => {
                    if sets.len() > 1 {
                        alts.push(Op::Update { table: table.clone(), sets: sets[..1].to_vec(), pred: pred.clone(), returning: *returning });
                    }
                    if *returning {
                        alts.push(Op::Update { table: table.clone(), sets: sets.clone(), pred: pred.clone(), returning: false });
                    }
                }
                Op::CreateTable(def) if def.cols.len() > 1 => {
                    // drop a column nobody mentions later
                    for (ci, col) in def.cols.iter().enumerate() {
                        if col.pk {
                            continue;
                        }
                        let mentioned = c.steps.iter().skip(i + 1).any(|s| format!("{:?}", s.op).contains(&format!("\"{}\"", col.name)));
                        let positional = c.steps.iter().skip(i + 1).any(|s| match &s.op {
                            Op::Insert { table, cols: None, .. } | Op::Bulk { table, .. } => table == &def.name,
                            _ => false,
                        });
                        if !mentioned && !positional {
                            let mut d2 = def.clone();
                            d2.cols.remove(ci);
                            alts.push(Op::CreateTable(d2));
                        }
                    }
                }
                _ => {}
            }
            for a in alts {
                let mut d = c.clone();
                d.steps[i].op = a;
                if let Some(cr) = d.crash.as_mut() {
                    cr.point = None;
                }
                out.push(serde_json::to_value(&d).unwrap());
            }
        }
        // 3. simpler configuration
        if c.swarm.cfg.checkpoint_threshold.is_some() {
            let mut d = c.clone();
            d.swarm.cfg.checkpoint_threshold = None;
            if let Some(cr) = d.crash.as_mut() {
                cr.point = None;
            }
            out.push(serde_json::to_value(&d).unwrap());
        }
        out
    }

    fn rule(&self, profile: &str) -> String {
        let (p, _) = split_profile(profile);
        format!(
            "evaluation = one seeded simulated history (profile '{}': swarm-configured DDL/DML/transaction/lifecycle operations generated from the reference model's state) executed against the real Database on simdisk, every statement checked against the model and the observation set Q (scan, COUNT(*), indexed lookups) checked after every write/lifecycle step{}; non-trivial = at least 2 acknowledged writes and at least 4 steps; distinct = fingerprint of the operation-kind sequence",
            p,
            if p == "crash" { ", and every crash point of every step imaged under kill and power-strict and verified by Database::open + Q" } else { "" }
        )
    }

    fn real_vs_stub(&self) -> Value {
        json!({
            "real": ["turdb (all modules, built from /repo working tree)", "std", "memmap2", "kernel page cache / tmpfs as volatile store"],
            "simulated": ["durability (durable image per file)", "crash (kill / power-loss images)", "I/O errors", "clock", "entropy / hash order"]
        })
    }

    fn assumptions(&self, profile: &str) -> Vec<String> {
        let (p, _) = split_profile(profile);
        let mut v = vec![
            "reference model covers the SQL subset listed in DESIGN.md §2.4 / sim/DIALECT.md; semantics outside it are not exercised".to_string(),
            "bounds: histories <= 80 operations, <= 6 tables (24 in the many-files configuration), small value domains".to_string(),
        ];
        if p == "crash" {
            v.push("disk model: fsync/fdatasync make the file's current content durable; msync makes the range durable; create/truncate/ftruncate/unlink/rename are durable immediately and in order; power-strict keeps only durable bytes; kill keeps every byte written or stored".to_string());
            v.push("crash points between two stores into one mapped page are not imaged (granularity = page_mut grant)".to_string());
        }
        v
    }
}
