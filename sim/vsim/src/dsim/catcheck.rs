//! C40(a): the persisted catalog, reloaded through `CatalogPersistence::load`, must describe the
//! same schemas / tables / columns / constraints / defaults / indexes as the reference model, and
//! saving + reloading it again must give the same description (round trip).

use super::model::DbState;
use super::ops::*;
use std::path::Path;
use turdb::schema::persistence::CatalogPersistence;
use turdb::schema::table::Constraint;
use turdb::schema::Catalog;

fn ty_name(t: Ty) -> &'static [&'static str] {
    match t {
        Ty::Int => &["Int4", "Int"],
        Ty::BigInt => &["Int8", "BigInt"],
        Ty::Text => &["Text"],
        Ty::Double => &["Float8", "Double"],
        Ty::Bool => &["Bool", "Boolean"],
        Ty::Blob => &["Blob"],
    }
}

/// Canonical, order-independent description of a loaded catalog (user tables of schema `root`).
pub fn describe(cat: &Catalog) -> Vec<String> {
    let mut out = vec![];
    let mut schema_names: Vec<&String> = cat.schemas().keys().collect();
    schema_names.sort();
    for sn in schema_names {
        let schema = &cat.schemas()[sn];
        let mut tnames: Vec<&String> = schema.tables().keys().collect();
        tnames.sort();
        for tn in tnames {
            let t = &schema.tables()[tn];
            let mut line = format!("{}.{} id={}", sn, tn, t.id());
            for c in t.columns() {
                let mut cons: Vec<String> = c
                    .constraints()
                    .iter()
                    .map(|k| match k {
                        Constraint::NotNull => "NOTNULL".to_string(),
                        Constraint::PrimaryKey => "PK".to_string(),
                        Constraint::Unique => "UNIQUE".to_string(),
                        Constraint::AutoIncrement => "AUTOINC".to_string(),
                        Constraint::ForeignKey { table, column, on_delete, .. } => format!("FK({}.{}:{:?})", table, column, on_delete),
                        Constraint::Check(e) => format!("CHECK({})", e),
                    })
                    .collect();
                cons.sort();
                line.push_str(&format!(" | {}:{:?}:[{}]:default={:?}", c.name(), c.data_type(), cons.join(","), c.default_value()));
            }
            let mut ix: Vec<String> = t
                .indexes()
                .iter()
                .map(|i| format!("{}({}){}", i.name(), i.columns().collect::<Vec<_>>().join(","), if i.is_unique() { "U" } else { "" }))
                .collect();
            ix.sort();
            line.push_str(&format!(" || idx: {}", ix.join(" ")));
            out.push(line);
        }
    }
    out
}

/// Returns a list of discrepancies (empty = the persisted catalog agrees with the model).
pub fn check_catalog(db_dir: &Path, model: &DbState, scratch: &Path) -> Vec<String> {
    let mut errs = vec![];
    let path = db_dir.join("turdb.catalog");
    let mut cat = Catalog::new();
    if let Err(e) = CatalogPersistence::load(&path, &mut cat) {
        return vec![format!("CatalogPersistence::load failed: {:#}", e)];
    }
    let root = match cat.get_schema("root") {
        Some(s) => s,
        None => return vec!["schema 'root' missing from the persisted catalog".into()],
    };
    for (tn, mt) in &model.tables {
        let t = match root.get_table(tn) {
            Some(t) => t,
            None => {
                errs.push(format!("table {} missing from the persisted catalog", tn));
                continue;
            }
        };
        let cols = t.columns();
        if cols.len() != mt.def.cols.len() {
            errs.push(format!("table {}: {} columns persisted, model has {}", tn, cols.len(), mt.def.cols.len()));
            continue;
        }
        for (pc, mc) in cols.iter().zip(mt.def.cols.iter()) {
            if pc.name() != mc.name {
                errs.push(format!("table {}: column '{}' persisted where model has '{}'", tn, pc.name(), mc.name));
            }
            let tys = format!("{:?}", pc.data_type());
            if !ty_name(mc.ty).iter().any(|n| tys == *n) {
                errs.push(format!("table {}.{}: persisted type {} for model type {:?}", tn, mc.name, tys, mc.ty));
            }
            let has = |k: &Constraint| pc.has_constraint(k);
            if has(&Constraint::PrimaryKey) != mc.pk {
                errs.push(format!("table {}.{}: PRIMARY KEY persisted={} model={}", tn, mc.name, has(&Constraint::PrimaryKey), mc.pk));
            }
            if has(&Constraint::Unique) != mc.unique {
                errs.push(format!("table {}.{}: UNIQUE persisted={} model={}", tn, mc.name, has(&Constraint::Unique), mc.unique));
            }
            // PRIMARY KEY implies NOT NULL in the persisted catalog
            if has(&Constraint::NotNull) != (mc.not_null || mc.pk) {
                errs.push(format!("table {}.{}: NOT NULL persisted={} model={}", tn, mc.name, has(&Constraint::NotNull), mc.not_null));
            }
            if has(&Constraint::AutoIncrement) != mc.auto_inc {
                errs.push(format!("table {}.{}: AUTO_INCREMENT persisted={} model={}", tn, mc.name, has(&Constraint::AutoIncrement), mc.auto_inc));
            }
            if pc.default_value().is_some() != mc.default.is_some() {
                errs.push(format!("table {}.{}: DEFAULT persisted={:?} model={:?}", tn, mc.name, pc.default_value(), mc.default.as_ref().map(|d| d.sql())));
            }
            let pchk = pc.constraints().iter().any(|k| matches!(k, Constraint::Check(_)));
            if pchk != mc.check.is_some() {
                errs.push(format!("table {}.{}: CHECK persisted={} model={}", tn, mc.name, pchk, mc.check.is_some()));
            }
            let pfk = pc.constraints().iter().find_map(|k| match k {
                Constraint::ForeignKey { table, column, .. } => Some((table.clone(), column.clone())),
                _ => None,
            });
            let mfk = mc.fk.as_ref().map(|f| (f.table.clone(), f.col.clone()));
            if pfk != mfk {
                errs.push(format!("table {}.{}: FOREIGN KEY persisted={:?} model={:?}", tn, mc.name, pfk, mfk));
            }
            // referential actions: the dialect declares ON DELETE CASCADE or nothing, never ON UPDATE
            if let Some(f) = &mc.fk {
                let pact = pc.constraints().iter().find_map(|k| match k {
                    Constraint::ForeignKey { on_delete, on_update, .. } => Some((format!("{:?}", on_delete), format!("{:?}", on_update))),
                    _ => None,
                });
                if let Some((pd, pu)) = pact {
                    let cascade_declared = f.on_delete == super::ops::OnDelete::Cascade;
                    let pd_cascade = pd.contains("Cascade");
                    let pu_set = pu.contains("Cascade") || pu.contains("SetNull") || pu.contains("SetDefault");
                    if pd_cascade != cascade_declared || pu_set {
                        errs.push(format!(
                            "table {}.{}: FOREIGN KEY actions persisted ON DELETE {} / ON UPDATE {}, declared ON DELETE {}",
                            tn,
                            mc.name,
                            pd,
                            pu,
                            if cascade_declared { "CASCADE" } else { "(none)" }
                        ));
                    }
                }
            }
        }
        for mi in &mt.indexes {
            match t.indexes().iter().find(|i| i.name() == mi.name) {
                None => errs.push(format!("table {}: index {} missing from the persisted catalog", tn, mi.name)),
                Some(pi) => {
                    let pcols: Vec<&str> = pi.columns().collect();
                    if pcols != mi.cols.iter().map(|s| s.as_str()).collect::<Vec<_>>() || pi.is_unique() != mi.unique {
                        errs.push(format!("table {}: index {} persisted as ({:?}, unique={}) model ({:?}, unique={})", tn, mi.name, pcols, pi.is_unique(), mi.cols, mi.unique));
                    }
                }
            }
        }
    }
    for tn in root.tables().keys() {
        if !model.tables.contains_key(tn) && !tn.ends_with("_toast") {
            errs.push(format!("table {} is in the persisted catalog but not in the model", tn));
        }
    }
    // round trip: save what was loaded, load again, descriptions must be equal
    let tmp = scratch.join("catalog-roundtrip");
    match CatalogPersistence::save(&cat, &tmp) {
        Err(e) => errs.push(format!("re-saving the loaded catalog failed: {:#}", e)),
        Ok(()) => {
            let mut cat2 = Catalog::new();
            match CatalogPersistence::load(&tmp, &mut cat2) {
                Err(e) => errs.push(format!("reloading the re-saved catalog failed: {:#}", e)),
                Ok(()) => {
                    let (a, b) = (describe(&cat), describe(&cat2));
                    if a != b {
                        let diff: Vec<String> = a.iter().filter(|l| !b.contains(l)).chain(b.iter().filter(|l| !a.contains(l))).cloned().collect();
                        errs.push(format!("save+load round trip changed the catalog: {}", diff.join(" ;; ")));
                    }
                }
            }
        }
    }
    let _ = std::fs::remove_file(&tmp);
    errs
}
