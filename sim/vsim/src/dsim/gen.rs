//! Model-driven workload generator with swarm configuration: every run draws which features are
//! on and with what weight, so operations are meaningful (existing keys, colliding unique values,
//! referenced parents) and runs are diverse.

use super::exec::DbConfig;
use super::model::*;
use super::ops::*;
use serde::{Deserialize, Serialize};
use simcore::Rng;

#[derive(Clone, Debug, Serialize, Deserialize, Default)]
pub struct Weights {
    pub create_table: u32,
    pub drop_table: u32,
    pub create_index: u32,
    pub drop_index: u32,
    pub add_col: u32,
    pub drop_col: u32,
    pub rename_col: u32,
    pub truncate: u32,
    pub insert: u32,
    pub update: u32,
    pub delete: u32,
    pub select: u32,
    pub count: u32,
    pub begin: u32,
    pub commit: u32,
    pub rollback: u32,
    pub savepoint: u32,
    pub rollback_to: u32,
    pub release: u32,
    pub checkpoint: u32,
    pub pragma_checkpoint: u32,
    pub close_reopen: u32,
    pub drop_reopen: u32,
    pub bulk: u32,
    pub fault: u32,
    /// close/drop + reopen while a transaction is open (must behave as ROLLBACK: C07)
    #[serde(default)]
    pub reopen_in_txn: u32,
}

#[derive(Clone, Debug, Serialize, Deserialize)]
pub struct Swarm {
    pub profile: String,
    pub n_ops: usize,
    pub sessions: usize,
    pub max_tables: usize,
    pub w: Weights,
    /// percent of write statements deliberately aimed at failing
    pub aim_fail: u32,
    /// false: statements the model predicts to fail are regenerated
    pub allow_fail: bool,
    pub types: Vec<Ty>,
    pub p_pk: u32,
    pub p_unique: u32,
    pub p_notnull: u32,
    pub p_default: u32,
    pub p_check: u32,
    pub p_autoinc: u32,
    pub p_fk: u32,
    pub p_index: u32,
    /// percent of text/blob values that are long (TOAST-sized)
    pub p_long: u32,
    /// percent of non-key text values of medium length (500..=900 bytes: below the TOAST threshold,
    /// large enough that a transaction of a few multi-row INSERTs dirties tens of pages)
    #[serde(default)]
    pub p_medium: u32,
    pub long_max: u32,
    pub p_null: u32,
    pub p_multi_insert: u32,
    pub max_rows_per_insert: usize,
    #[serde(default)]
    pub min_rows_per_insert: usize,
    pub apis: Vec<Api>,
    pub bulk_apis: Vec<BulkApi>,
    pub key_domain: i64,
    pub p_returning: u32,
    pub extremes: bool,
    #[serde(default)]
    pub long_blobs: bool,
    /// aim-to-fail multi-row INSERTs only ever spoil row 0 (keeps clear of the partial multi-row INSERT finding KF-C06-01)
    #[serde(default)]
    pub avoid_partial_multirow: bool,
    /// percent of CHECK constraints using forms the engine's evaluator mishandles (BETWEEN, <>): KF-C09-01
    #[serde(default)]
    pub p_check_odd: u32,
    /// single-column projections in SELECT (off by default: projection semantics are C14/C15 territory)
    #[serde(default)]
    pub projections: bool,
    pub bulk_max: usize,
    pub cfg: DbConfig,
}

pub struct Gen {
    pub next_table: usize,
    pub next_index: usize,
    /// names of indexes dropped by DROP INDEX (candidates for re-use by a later CREATE INDEX)
    pub dropped_ix: Vec<String>,
    pub next_save: usize,
    pub next_long: u32,
    pub next_col: usize,
}

const TEXTS: &[&str] = &["a", "b", "c", "ab", "abc", "b0", "zz", "m", "q7", "hello"];
const FLOATS: &[f64] = &[0.0, 1.5, -2.25, 3.0, 1e10, 0.125, -7.0];

impl Gen {
    pub fn new() -> Gen {
        Gen {
            next_table: 0,
            next_index: 0,
            dropped_ix: vec![],
            next_save: 0,
            next_long: 0,
            next_col: 0,
        }
    }

    fn gen_val(&mut self, rng: &mut Rng, sw: &Swarm, c: &ColDef, keyish: bool) -> Val {
        match c.ty {
            Ty::Int | Ty::BigInt => {
                if sw.extremes && rng.chance(1, 12) {
                    let ext: &[i64] = if c.ty == Ty::Int {
                        &[i32::MAX as i64, i32::MIN as i64, -1, 0]
                    } else {
                        &[i64::MAX, i64::MIN + 1, i32::MAX as i64 + 1, -1]
                    };
                    return Val::Int(*rng.pick(ext));
                }
                if keyish {
                    Val::Int(rng.range(0, sw.key_domain))
                } else {
                    Val::Int(rng.range(-3, 20))
                }
            }
            Ty::Text => {
                if !keyish && sw.p_medium > 0 && rng.chance(sw.p_medium as u64, 100) {
                    self.next_long += 1;
                    Val::Long { tag: self.next_long, len: rng.range(500, 901) as u32, blob: false }
                } else if !keyish && rng.chance(sw.p_long as u64, 100) {
                    self.next_long += 1;
                    let len = if rng.chance(1, 3) {
                        rng.range(900, 1100) as u32
                    } else {
                        rng.range(1001, sw.long_max.max(1002) as i64) as u32
                    };
                    Val::Long { tag: self.next_long, len, blob: false }
                } else if keyish {
                    Val::Text(format!("k{}", rng.range(0, sw.key_domain)))
                } else {
                    Val::Text(rng.pick(TEXTS).to_string())
                }
            }
            Ty::Double => Val::f(*rng.pick(FLOATS)),
            Ty::Bool => Val::Bool(rng.chance(1, 2)),
            Ty::Blob => {
                if sw.long_blobs && rng.chance(sw.p_long as u64, 100) {
                    self.next_long += 1;
                    Val::Long { tag: self.next_long, len: rng.range(1001, sw.long_max.max(1002) as i64) as u32, blob: true }
                } else {
                    let n = rng.usize_below(5);
                    Val::Blob((0..n).map(|_| rng.below(256) as u8).collect())
                }
            }
        }
    }

    fn is_keyish(t: &MTable, ci: usize) -> bool {
        let c = &t.def.cols[ci];
        c.pk || c.unique || c.fk.is_some() || t.indexes.iter().any(|i| i.cols.contains(&c.name))
    }

    /// A value for column `ci` of a new row that should satisfy the constraints (best effort).
    fn good_val(&mut self, rng: &mut Rng, sw: &Swarm, st: &DbState, t: &MTable, ci: usize, pending: &[Row]) -> Val {
        let c = &t.def.cols[ci];
        let keyish = Self::is_keyish(t, ci);
        if let Some(fk) = &c.fk {
            if let Some(p) = st.tables.get(&fk.table) {
                if let Some(pc) = p.def.col_index(&fk.col) {
                    if !p.rows.is_empty() && !(rng.chance(sw.p_null as u64, 100) && !c.not_null) {
                        return p.rows[rng.usize_below(p.rows.len())][pc].clone();
                    }
                }
            }
            return if c.not_null { Val::Int(0) } else { Val::Null };
        }
        let must_unique = c.pk || c.unique || t.indexes.iter().any(|i| i.unique && i.cols.len() == 1 && i.cols[0] == c.name);
        for _ in 0..12 {
            let v = if !c.pk && !c.not_null && c.default.is_none() && rng.chance(sw.p_null as u64, 100) {
                Val::Null
            } else {
                self.gen_val(rng, sw, c, keyish)
            };
            if let Some(chk) = &c.check {
                let mut row: Row = vec![Val::Null; t.def.cols.len()];
                row[ci] = v.norm();
                if eval_pred(chk, &t.def, &row) == Some(false) {
                    continue;
                }
            }
            if must_unique && !v.is_null() {
                let nv = v.norm();
                if t.rows.iter().any(|r| r[ci] == nv) || pending.iter().any(|r| r.get(ci).map_or(false, |x| x.norm() == nv)) {
                    continue;
                }
            }
            return v;
        }
        // domain exhausted: go outside it
        match c.ty {
            Ty::Int | Ty::BigInt => {
                let mx = t
                    .rows
                    .iter()
                    .chain(pending.iter())
                    .filter_map(|r| if let Some(Val::Int(i)) = r.get(ci) { Some(*i) } else { None })
                    .max()
                    .unwrap_or(0);
                let cap = if c.ty == Ty::Int { i32::MAX as i64 - 64 } else { i64::MAX - 64 };
                let base = mx.max(sw.key_domain);
                if base >= cap {
                    // the column already holds an extreme: take an unused mid-range value
                    Val::Int(1_000 + self.next_long as i64 * 7 + pending.len() as i64)
                } else {
                    Val::Int(base + 1 + pending.len() as i64)
                }
            }
            Ty::Text => {
                self.next_long += 1;
                Val::Text(format!("u{}", self.next_long))
            }
            _ => self.gen_val(rng, sw, c, keyish),
        }
    }

    fn gen_table(&mut self, rng: &mut Rng, sw: &Swarm, st: &DbState) -> TableDef {
        let name = format!("t{}", self.next_table);
        self.next_table += 1;
        let ncols = rng.range(1, 5) as usize;
        let mut cols = vec![];
        let has_pk = rng.chance(sw.p_pk as u64, 100);
        if has_pk {
            let ty = if rng.chance(1, 5) && sw.types.contains(&Ty::Text) {
                Ty::Text
            } else if rng.chance(1, 2) {
                Ty::BigInt
            } else {
                Ty::Int
            };
            let mut c = ColDef::plain("id", ty);
            c.pk = true;
            if ty != Ty::Text && rng.chance(sw.p_autoinc as u64, 100) {
                c.auto_inc = true;
                c.ty = Ty::BigInt;
            }
            cols.push(c);
        }
        for _ in 0..ncols {
            let ty = *rng.pick(&sw.types);
            let mut c = ColDef::plain(&format!("c{}", self.next_col), ty);
            self.next_col += 1;
            if matches!(ty, Ty::Int | Ty::BigInt | Ty::Text) {
                if rng.chance(sw.p_unique as u64, 100) {
                    c.unique = true;
                }
                if rng.chance(sw.p_check as u64, 100) && ty != Ty::Text {
                    c.check = Some(if rng.chance(sw.p_check_odd as u64, 100) {
                        if rng.chance(1, 2) {
                            Pred::Between(c.name.clone(), Val::Int(-2), Val::Int(sw.key_domain + 4))
                        } else {
                            Pred::Cmp(c.name.clone(), CmpOp::Ne, Val::Int(3))
                        }
                    } else {
                        match rng.below(4) {
                            0 => Pred::Cmp(c.name.clone(), CmpOp::Ge, Val::Int(0)),
                            1 => Pred::Cmp(c.name.clone(), CmpOp::Gt, Val::Int(-3)),
                            2 => Pred::Cmp(c.name.clone(), CmpOp::Le, Val::Int(sw.key_domain + 6)),
                            _ => Pred::And(
                                Box::new(Pred::Cmp(c.name.clone(), CmpOp::Ge, Val::Int(-1))),
                                Box::new(Pred::Cmp(c.name.clone(), CmpOp::Lt, Val::Int(sw.key_domain + 9))),
                            ),
                        }
                    });
                }
                // a second reference from the same table to the same parent, with the other ON DELETE
                // action: one DELETE of the parent row then has to honour both
                let prev_fk: Option<Fk> = cols.iter().rev().find_map(|pc: &ColDef| pc.fk.clone());
                if let (Some(pf), true) = (&prev_fk, ty != Ty::Text && !c.unique && sw.p_fk > 0 && rng.chance(1, 2)) {
                    if let Some(pt) = st.tables.get(&pf.table).and_then(|p| p.def.cols.iter().find(|x| x.name == pf.col).map(|x| x.ty)) {
                        c.ty = pt;
                        c.check = None;
                        c.fk = Some(Fk {
                            table: pf.table.clone(),
                            col: pf.col.clone(),
                            on_delete: if pf.on_delete == OnDelete::Cascade { OnDelete::Restrict } else { OnDelete::Cascade },
                        });
                    }
                } else if ty != Ty::Text && !c.unique && rng.chance(sw.p_fk as u64, 100) {
                    // reference an existing table with an integer primary key
                    let parents: Vec<&MTable> = st
                        .tables
                        .values()
                        .filter(|p| p.def.cols.iter().any(|pc| pc.pk && matches!(pc.ty, Ty::Int | Ty::BigInt) && !pc.auto_inc))
                        .collect();
                    if !parents.is_empty() {
                        let p = parents[rng.usize_below(parents.len())];
                        let pc = p.def.cols.iter().find(|pc| pc.pk).unwrap();
                        c.ty = pc.ty;
                        c.check = None;
                        c.fk = Some(Fk {
                            table: p.def.name.clone(),
                            col: pc.name.clone(),
                            on_delete: if rng.chance(1, 2) { OnDelete::Cascade } else { OnDelete::Restrict },
                        });
                    }
                }
            }
            if rng.chance(sw.p_notnull as u64, 100) {
                c.not_null = true;
            }
            if c.fk.is_none() && rng.chance(sw.p_default as u64, 100) && matches!(ty, Ty::Int | Ty::BigInt | Ty::Text) {
                let d = match ty {
                    Ty::Text => Val::Text("dflt".into()),
                    _ => Val::Int(7),
                };
                // default must satisfy the check
                let ok = match &c.check {
                    Some(chk) => {
                        let def = TableDef { name: String::new(), cols: vec![c.clone()] };
                        eval_pred(chk, &def, &vec![d.clone()]) != Some(false)
                    }
                    None => true,
                };
                if ok && !c.unique {
                    c.default = Some(d);
                }
            }
            cols.push(c);
        }
        TableDef { name, cols }
    }

    fn pick_table<'a>(&self, rng: &mut Rng, st: &'a DbState) -> Option<&'a MTable> {
        if st.tables.is_empty() {
            return None;
        }
        let names: Vec<&String> = st.tables.keys().collect();
        Some(&st.tables[names[rng.usize_below(names.len())]])
    }

    fn gen_pred(&mut self, rng: &mut Rng, sw: &Swarm, t: &MTable, depth: u32) -> Pred {
        let cands: Vec<usize> = t
            .def
            .cols
            .iter()
            .enumerate()
            .filter(|(_, c)| matches!(c.ty, Ty::Int | Ty::BigInt | Ty::Text))
            .map(|(i, _)| i)
            .collect();
        if cands.is_empty() || rng.chance(1, 10) {
            if !t.def.cols.is_empty() && rng.chance(1, 2) {
                let c = &t.def.cols[rng.usize_below(t.def.cols.len())];
                return Pred::IsNull(c.name.clone(), rng.chance(1, 2));
            }
            return Pred::True;
        }
        if depth == 0 && rng.chance(1, 5) {
            let a = self.gen_pred(rng, sw, t, 1);
            let b = self.gen_pred(rng, sw, t, 1);
            if a == Pred::True || b == Pred::True {
                return a;
            }
            return if rng.chance(1, 2) { Pred::And(Box::new(a), Box::new(b)) } else { Pred::Or(Box::new(a), Box::new(b)) };
        }
        // prefer indexed columns
        let idxd = t.indexed_cols();
        let ci = if !idxd.is_empty() && rng.chance(3, 5) {
            let c = idxd[rng.usize_below(idxd.len())];
            if cands.contains(&c) {
                c
            } else {
                cands[rng.usize_below(cands.len())]
            }
        } else {
            cands[rng.usize_below(cands.len())]
        };
        let c = &t.def.cols[ci];
        let mut pick_const = |rng: &mut Rng, me: &mut Gen| -> Val {
            let existing: Vec<&Val> = t.rows.iter().map(|r| &r[ci]).filter(|v| !v.is_null() && !matches!(v, Val::Text(s) if s.len() > 64)).collect();
            if !existing.is_empty() && rng.chance(7, 10) {
                existing[rng.usize_below(existing.len())].clone()
            } else {
                let mut v = me.gen_val(rng, sw, c, true);
                if matches!(v, Val::Long { .. }) {
                    v = Val::Text("k0".into());
                }
                v
            }
        };
        match rng.below(10) {
            0..=4 => {
                let v = pick_const(rng, self);
                let op = *rng.pick(&[CmpOp::Eq, CmpOp::Eq, CmpOp::Eq, CmpOp::Ne, CmpOp::Lt, CmpOp::Le, CmpOp::Gt, CmpOp::Ge]);
                Pred::Cmp(c.name.clone(), op, v)
            }
            5 | 6 => {
                let a = pick_const(rng, self);
                let b = pick_const(rng, self);
                let (lo, hi) = if a.sort_key() <= b.sort_key() { (a, b) } else { (b, a) };
                Pred::Between(c.name.clone(), lo, hi)
            }
            7 => Pred::IsNull(c.name.clone(), rng.chance(1, 2)),
            _ => {
                let n = rng.range(1, 3);
                Pred::In(c.name.clone(), (0..n).map(|_| pick_const(rng, self)).collect())
            }
        }
    }

    fn gen_insert(&mut self, rng: &mut Rng, sw: &Swarm, st: &DbState, t: &MTable, aim_fail: bool) -> Op {
        let nrows = if rng.chance(sw.p_multi_insert as u64, 100) {
            rng.range(sw.min_rows_per_insert.max(2) as i64, sw.max_rows_per_insert.max(sw.min_rows_per_insert.max(2) + 1) as i64) as usize
        } else {
            1
        };
        // column list: all columns, or omit defaulted / nullable / auto-inc ones
        let ncols = t.def.cols.len();
        let mut use_cols: Vec<usize> = (0..ncols).collect();
        let mut explicit_list = false;
        if rng.chance(2, 5) {
            explicit_list = true;
            use_cols.retain(|i| {
                let c = &t.def.cols[*i];
                let optional = c.auto_inc || c.default.is_some() || (!c.not_null && !c.pk);
                !(optional && rng.chance(1, 2))
            });
            if use_cols.is_empty() {
                use_cols = (0..ncols).collect();
                explicit_list = false;
            }
        } else if let Some(ac) = t.auto_col() {
            // generated ids need the column list form
            if rng.chance(2, 3) {
                explicit_list = true;
                use_cols.retain(|i| *i != ac);
                if use_cols.is_empty() {
                    use_cols = (0..ncols).collect();
                    explicit_list = false;
                }
            }
        }
        let mut rows: Vec<Row> = vec![];
        let mut full_pending: Vec<Row> = vec![];
        for _ in 0..nrows {
            let mut full: Row = vec![Val::Null; ncols];
            let mut r = vec![];
            for ci in &use_cols {
                let v = self.good_val(rng, sw, st, t, *ci, &full_pending);
                full[*ci] = v.clone();
                r.push(v);
            }
            full_pending.push(full);
            rows.push(r);
        }
        if aim_fail {
            // spoil one row (the k-th, k chosen anywhere)
            let k = if sw.avoid_partial_multirow { 0 } else { rng.usize_below(rows.len()) };
            let mut spoiled = false;
            let mut order: Vec<usize> = (0..use_cols.len()).collect();
            rng.shuffle(&mut order);
            for j in order {
                let ci = use_cols[j];
                let c = &t.def.cols[ci];
                let uniq = c.pk || c.unique || t.indexes.iter().any(|i| i.unique && i.cols.len() == 1 && i.cols[0] == c.name);
                if uniq {
                    // duplicate an existing value, or an earlier row of this statement
                    let existing: Vec<Val> = t.rows.iter().map(|r| r[ci].clone()).filter(|v| !v.is_null()).collect();
                    if k > 0 && rng.chance(1, 3) && !rows[k - 1][j].is_null() {
                        rows[k][j] = rows[k - 1][j].clone();
                        spoiled = true;
                        break;
                    } else if !existing.is_empty() {
                        rows[k][j] = existing[rng.usize_below(existing.len())].clone();
                        spoiled = true;
                        break;
                    }
                }
                if c.not_null && !c.pk && c.default.is_none() && rng.chance(1, 2) {
                    rows[k][j] = Val::Null;
                    spoiled = true;
                    break;
                }
                if let Some(chk) = &c.check {
                    for cand in [Val::Int(-5), Val::Int(3), Val::Int(sw.key_domain + 50)] {
                        let mut row: Row = vec![Val::Null; ncols];
                        row[ci] = cand.clone();
                        if eval_pred(chk, &t.def, &row) == Some(false) {
                            rows[k][j] = cand;
                            spoiled = true;
                            break;
                        }
                    }
                    if spoiled {
                        break;
                    }
                }
                if c.fk.is_some() {
                    rows[k][j] = Val::Int(9_000 + rng.range(0, 50));
                    spoiled = true;
                    break;
                }
            }
            if !spoiled && rng.chance(1, 2) {
                // type error: text into an integer column
                if let Some(j) = use_cols.iter().position(|ci| matches!(t.def.cols[*ci].ty, Ty::Int | Ty::BigInt)) {
                    rows[k][j] = Val::Text("notint".into());
                }
            }
        }
        let api = *rng.pick(&sw.apis);
        let has_auto_omitted = t.auto_col().map_or(false, |ac| !use_cols.contains(&ac));
        Op::Insert {
            table: t.def.name.clone(),
            cols: if explicit_list { Some(use_cols.iter().map(|i| t.def.cols[*i].name.clone()).collect()) } else { None },
            rows,
            returning: has_auto_omitted || rng.chance(sw.p_returning as u64, 100),
            api,
        }
    }

    fn gen_update(&mut self, rng: &mut Rng, sw: &Swarm, st: &DbState, t: &MTable, aim_fail: bool) -> Op {
        let ncols = t.def.cols.len();
        let mut sets: Vec<(String, SetExpr)> = vec![];
        let mut pred = self.gen_pred(rng, sw, t, 0);
        let nsets = if rng.chance(1, 4) { 2 } else { 1 };
        let mut used = vec![];
        for _ in 0..nsets {
            let ci = rng.usize_below(ncols);
            if used.contains(&ci) {
                continue;
            }
            used.push(ci);
            let c = &t.def.cols[ci];
            let uniq = c.pk || c.unique || t.indexes.iter().any(|i| i.unique && i.cols.contains(&c.name));
            if c.auto_inc {
                continue;
            }
            if st.is_referenced(&t.def.name) && c.pk {
                continue;
            }
            if uniq {
                if aim_fail && !t.rows.is_empty() {
                    // collide with an existing value
                    let v = t.rows[rng.usize_below(t.rows.len())][ci].clone();
                    if !v.is_null() {
                        sets.push((c.name.clone(), SetExpr::Const(v)));
                        continue;
                    }
                }
                // single-row update to a fresh value
                if let Some(r) = (!t.rows.is_empty()).then(|| &t.rows[rng.usize_below(t.rows.len())]) {
                    let key = t.def.cols.iter().position(|c| c.pk).unwrap_or(ci);
                    if !r[key].is_null() && matches!(t.def.cols[key].ty, Ty::Int | Ty::BigInt | Ty::Text) && !matches!(&r[key], Val::Text(s) if s.len() > 64) {
                        pred = Pred::Cmp(t.def.cols[key].name.clone(), CmpOp::Eq, r[key].clone());
                        let v = self.good_val(rng, sw, st, t, ci, &[]);
                        sets.push((c.name.clone(), SetExpr::Const(v)));
                    }
                }
                continue;
            }
            if aim_fail && c.not_null && c.default.is_none() && rng.chance(1, 2) {
                sets.push((c.name.clone(), SetExpr::Const(Val::Null)));
                continue;
            }
            if aim_fail {
                if let Some(chk) = &c.check {
                    let mut done = false;
                    // an expression update whose result breaks the CHECK for some (not necessarily the
                    // first) row: constraint validation of computed values, all-or-nothing
                    if matches!(c.ty, Ty::Int | Ty::BigInt) && c.not_null && c.fk.is_none() && rng.chance(1, 2) {
                        let mut ks = [-3i64, 3, -1, 1, -(sw.key_domain + 50), sw.key_domain + 50];
                        let rot = rng.usize_below(ks.len());
                        ks.rotate_left(rot);
                        for k in ks {
                            let breaks = t.rows.iter().any(|r| match &r[ci] {
                                Val::Int(x) => {
                                    let mut row: Row = vec![Val::Null; ncols];
                                    row[ci] = Val::Int(x.saturating_add(k));
                                    eval_pred(chk, &t.def, &row) == Some(false)
                                }
                                _ => false,
                            });
                            if breaks {
                                sets.push((c.name.clone(), SetExpr::Add(k)));
                                done = true;
                                break;
                            }
                        }
                        if done {
                            if rng.chance(1, 2) {
                                pred = Pred::True;
                            }
                            continue;
                        }
                    }
                    for cand in [Val::Int(-5), Val::Int(3), Val::Int(sw.key_domain + 50)] {
                        let mut row: Row = vec![Val::Null; ncols];
                        row[ci] = cand.clone();
                        if eval_pred(chk, &t.def, &row) == Some(false) {
                            sets.push((c.name.clone(), SetExpr::Const(cand)));
                            done = true;
                            break;
                        }
                    }
                    if done {
                        continue;
                    }
                }
            }
            if matches!(c.ty, Ty::Int | Ty::BigInt) && c.not_null && c.fk.is_none() && rng.chance(1, 3) {
                sets.push((c.name.clone(), SetExpr::Add(rng.range(-2, 3))));
            } else {
                let v = self.good_val(rng, sw, st, t, ci, &[]);
                sets.push((c.name.clone(), SetExpr::Const(v)));
            }
        }
        if sets.is_empty() {
            // fall back: rewrite some non-key column with itself-typed constant
            let ci = (0..ncols).find(|i| !t.def.cols[*i].pk && !t.def.cols[*i].auto_inc).unwrap_or(0);
            let v = self.good_val(rng, sw, st, t, ci, &[]);
            sets.push((t.def.cols[ci].name.clone(), SetExpr::Const(v)));
        }
        Op::Update {
            table: t.def.name.clone(),
            sets,
            pred,
            returning: rng.chance(sw.p_returning as u64, 100),
        }
    }

    /// Next operation for session `s`.
    pub fn next_op(&mut self, rng: &mut Rng, sw: &Swarm, model: &Model, s: usize) -> Op {
        let view = model.view(s);
        let in_txn = model.in_txn(s);
        let any_txn = model.any_txn();
        let ntables = view.tables.len();
        if ntables == 0 && !in_txn {
            return Op::CreateTable(self.gen_table(rng, sw, view));
        }
        let w = &sw.w;
        let has_rows = view.tables.values().any(|t| !t.rows.is_empty());
        let has_index = view.tables.values().any(|t| !t.indexes.is_empty());
        let saves = model.sessions[s].txn.as_ref().map_or(0, |t| t.saves.len());
        let ddl_ok = !any_txn;
        let weights = [
            if ddl_ok && ntables < sw.max_tables { w.create_table } else { 0 },
            if ddl_ok && ntables > 1 { w.drop_table } else { 0 },
            if ddl_ok { w.create_index } else { 0 },
            if ddl_ok && has_index { w.drop_index } else { 0 },
            if ddl_ok { w.add_col } else { 0 },
            if ddl_ok { w.drop_col } else { 0 },
            if ddl_ok { w.rename_col } else { 0 },
            if !any_txn { w.truncate } else { 0 },
            w.insert,
            if has_rows { w.update } else { w.update / 4 },
            if has_rows { w.delete } else { w.delete / 4 },
            w.select,
            w.count,
            if !in_txn { w.begin } else { 0 },
            if in_txn { w.commit } else { 0 },
            if in_txn { w.rollback } else { 0 },
            if in_txn { w.savepoint } else { 0 },
            if saves > 0 { w.rollback_to } else { 0 },
            if saves > 0 { w.release } else { 0 },
            if !any_txn { w.checkpoint } else { 0 },
            if !any_txn { w.pragma_checkpoint } else { 0 },
            if !any_txn { w.close_reopen } else { w.reopen_in_txn },
            if !any_txn { w.drop_reopen } else { w.reopen_in_txn },
            w.bulk,
            w.fault,
        ];
        for _attempt in 0..10 {
            let choice = rng.weighted(&weights);
            let aim_fail = sw.allow_fail && rng.chance(sw.aim_fail as u64, 100);
            let op = match choice {
                0 => Op::CreateTable(self.gen_table(rng, sw, view)),
                1 => {
                    // never drop a referenced parent
                    let cands: Vec<&String> = view.tables.keys().filter(|n| !view.is_referenced(n)).collect();
                    if cands.is_empty() {
                        continue;
                    }
                    Op::DropTable(cands[rng.usize_below(cands.len())].clone())
                }
                2 => {
                    let t = match self.pick_table(rng, view) {
                        Some(t) => t,
                        None => continue,
                    };
                    let cands: Vec<&ColDef> = t.def.cols.iter().filter(|c| matches!(c.ty, Ty::Int | Ty::BigInt | Ty::Text)).collect();
                    if cands.is_empty() {
                        continue;
                    }
                    let c1 = cands[rng.usize_below(cands.len())];
                    let mut cols = vec![c1.name.clone()];
                    if cands.len() > 1 && rng.chance(1, 4) {
                        let c2 = cands[rng.usize_below(cands.len())];
                        if c2.name != c1.name {
                            cols.push(c2.name.clone());
                        }
                    }
                    // sometimes the name of an index that was dropped earlier (same name, new file)
                    let in_use: Vec<&str> = view.tables.values().flat_map(|t| t.indexes.iter().map(|i| i.name.as_str())).collect();
                    let free_old: Vec<String> = self.dropped_ix.iter().filter(|n| !in_use.contains(&n.as_str())).cloned().collect();
                    let name = if !free_old.is_empty() && rng.chance(1, 2) {
                        free_old[rng.usize_below(free_old.len())].clone()
                    } else {
                        self.next_index += 1;
                        format!("ix{}", self.next_index - 1)
                    };
                    Op::CreateIndex {
                        table: t.def.name.clone(),
                        index: IndexDef { name, cols, unique: rng.chance(1, 4) },
                    }
                }
                3 => {
                    let all: Vec<&IndexDef> = view.tables.values().flat_map(|t| t.indexes.iter()).collect();
                    if all.is_empty() {
                        continue;
                    }
                    let n = all[rng.usize_below(all.len())].name.clone();
                    if !self.dropped_ix.contains(&n) {
                        self.dropped_ix.push(n.clone());
                    }
                    Op::DropIndex(n)
                }
                4 => {
                    let t = match self.pick_table(rng, view) {
                        Some(t) => t,
                        None => continue,
                    };
                    if t.def.cols.len() >= 8 {
                        continue;
                    }
                    let ty = *rng.pick(&sw.types);
                    let mut c = ColDef::plain(&format!("c{}", self.next_col), ty);
                    self.next_col += 1;
                    if matches!(ty, Ty::Int | Ty::BigInt | Ty::Text) && rng.chance(1, 2) {
                        c.default = Some(if ty == Ty::Text { Val::Text("dflt".into()) } else { Val::Int(7) });
                    }
                    Op::AddColumn { table: t.def.name.clone(), col: c }
                }
                5 => {
                    let t = match self.pick_table(rng, view) {
                        Some(t) => t,
                        None => continue,
                    };
                    let cands: Vec<&ColDef> = t.def.cols.iter().filter(|c| !c.pk && c.fk.is_none()).collect();
                    if cands.is_empty() || t.def.cols.len() < 2 {
                        continue;
                    }
                    // a column referenced by a child is never dropped
                    Op::DropColumn { table: t.def.name.clone(), col: cands[rng.usize_below(cands.len())].name.clone() }
                }
                6 => {
                    let t = match self.pick_table(rng, view) {
                        Some(t) => t,
                        None => continue,
                    };
                    let cands: Vec<&ColDef> = t.def.cols.iter().filter(|c| !c.pk && c.check.is_none() && c.fk.is_none()).collect();
                    if cands.is_empty() {
                        continue;
                    }
                    let to = format!("c{}", self.next_col);
                    self.next_col += 1;
                    Op::RenameColumn { table: t.def.name.clone(), from: cands[rng.usize_below(cands.len())].name.clone(), to }
                }
                7 => {
                    let cands: Vec<&String> = view.tables.keys().filter(|n| !view.is_referenced(n)).collect();
                    if cands.is_empty() {
                        continue;
                    }
                    Op::Truncate(cands[rng.usize_below(cands.len())].clone())
                }
                8 => {
                    let t = match self.pick_table(rng, view) {
                        Some(t) => t,
                        None => continue,
                    };
                    self.gen_insert(rng, sw, view, t, aim_fail)
                }
                9 => {
                    let t = match self.pick_table(rng, view) {
                        Some(t) => t,
                        None => continue,
                    };
                    self.gen_update(rng, sw, view, t, aim_fail)
                }
                10 => {
                    let t = match self.pick_table(rng, view) {
                        Some(t) => t,
                        None => continue,
                    };
                    let pred = if rng.chance(1, 12) { Pred::True } else { self.gen_pred(rng, sw, t, 0) };
                    Op::Delete { table: t.def.name.clone(), pred, returning: rng.chance(sw.p_returning as u64, 100) }
                }
                11 => {
                    let t = match self.pick_table(rng, view) {
                        Some(t) => t,
                        None => continue,
                    };
                    let pred = self.gen_pred(rng, sw, t, 0);
                    let cols = if sw.projections && rng.chance(1, 4) {
                        let c = &t.def.cols[rng.usize_below(t.def.cols.len())];
                        Some(vec![c.name.clone()])
                    } else {
                        None
                    };
                    Op::Select { table: t.def.name.clone(), cols, pred }
                }
                12 => {
                    let t = match self.pick_table(rng, view) {
                        Some(t) => t,
                        None => continue,
                    };
                    Op::Count(t.def.name.clone())
                }
                13 => Op::Begin,
                14 => Op::Commit,
                15 => Op::Rollback,
                16 => {
                    self.next_save += 1;
                    Op::Savepoint(format!("sp{}", self.next_save))
                }
                17 => {
                    let t = model.sessions[s].txn.as_ref().unwrap();
                    Op::RollbackTo(t.saves[rng.usize_below(t.saves.len())].0.clone())
                }
                18 => {
                    let t = model.sessions[s].txn.as_ref().unwrap();
                    Op::Release(t.saves[rng.usize_below(t.saves.len())].0.clone())
                }
                19 => Op::Checkpoint,
                20 => Op::PragmaCheckpoint,
                21 => Op::CloseReopen,
                22 => Op::DropReopen,
                23 => {
                    let t = match self.pick_table(rng, view) {
                        Some(t) => t,
                        None => continue,
                    };
                    if in_txn {
                        continue;
                    }
                    let n = match rng.below(6) {
                        0 => 0,
                        1 => 1,
                        2..=4 => rng.range(2, 40) as usize,
                        _ => rng.range(40, sw.bulk_max.max(41) as i64) as usize,
                    };
                    let mut rows: Vec<Row> = vec![];
                    for _ in 0..n {
                        let mut r = vec![];
                        for ci in 0..t.def.cols.len() {
                            let v = self.good_val(rng, sw, view, t, ci, &rows);
                            r.push(v);
                        }
                        rows.push(r);
                    }
                    Op::Bulk { api: *rng.pick(&sw.bulk_apis), table: t.def.name.clone(), rows }
                }
                _ => {
                    let (call, role, errno): (&str, &str, i32) = *rng.pick(&[
                        ("write", "wal", libc::EIO),
                        ("write", "wal", libc::ENOSPC),
                        ("fsync", "wal", libc::EIO),
                        ("ftruncate", "table", libc::ENOSPC),
                        ("ftruncate", "index", libc::ENOSPC),
                        ("msync", "table", libc::EIO),
                        ("write", "catalog", libc::ENOSPC),
                        ("fsync", "catalog", libc::EIO),
                        ("open", "table", libc::EMFILE),
                    ]);
                    Op::ArmFault { call: call.into(), role: role.into(), countdown: rng.below(2) as u32, errno, short: false }
                }
            };
            if !sw.allow_fail && op.is_write() {
                let p = model.predict(s, &op);
                if p.expected.is_err() {
                    continue;
                }
            }
            return op;
        }
        // fallback: a harmless read
        match self.pick_table(rng, view) {
            Some(t) => Op::Count(t.def.name.clone()),
            None => Op::Observe,
        }
    }
}

fn base_weights() -> Weights {
    Weights {
        create_table: 4,
        insert: 30,
        update: 14,
        delete: 8,
        select: 10,
        count: 3,
        ..Default::default()
    }
}

/// Draw the swarm configuration of one run.
pub fn swarm_for(profile: &str, rng: &mut Rng, thorough: bool) -> Swarm {
    let mut sw = Swarm {
        profile: profile.to_string(),
        n_ops: rng.range(8, if thorough { 80 } else { 45 }) as usize,
        sessions: 1,
        max_tables: rng.range(1, 4) as usize,
        w: base_weights(),
        aim_fail: 0,
        allow_fail: false,
        types: vec![Ty::Int, Ty::BigInt, Ty::Text],
        p_pk: 75,
        p_unique: 15,
        p_notnull: 20,
        p_default: 15,
        p_check: 0,
        p_autoinc: 0,
        p_fk: 0,
        p_index: 30,
        p_long: if rng.chance(1, 2) { rng.range(0, 25) as u32 } else { 0 },
        long_max: if rng.chance(1, 4) { 20_000 } else { 5_000 },
        p_null: 12,
        p_multi_insert: 35,
        min_rows_per_insert: 0,
        p_medium: 0,
        max_rows_per_insert: rng.range(2, 8) as usize,
        apis: vec![Api::Literal],
        bulk_apis: vec![BulkApi::InsertBatch, BulkApi::InsertCached, BulkApi::BulkInsert],
        key_domain: rng.range(6, 16),
        p_returning: 20,
        extremes: false,
        long_blobs: false,
        avoid_partial_multirow: profile != "fail",
        p_check_odd: 0,
        projections: false,
        bulk_max: 300,
        cfg: if rng.chance(1, 2) { DbConfig::durable() } else { DbConfig::plain() },
    };
    // swarm: randomly switch type families and api paths
    if rng.chance(1, 2) {
        sw.types.push(Ty::Double);
    }
    if rng.chance(1, 2) {
        sw.types.push(Ty::Bool);
    }
    if rng.chance(1, 2) {
        sw.types.push(Ty::Blob);
    }
    if rng.chance(1, 3) {
        sw.apis.push(Api::Params);
    }
    if rng.chance(1, 3) {
        sw.apis.push(Api::Prepared);
    }
    if rng.chance(1, 2) {
        sw.w.create_index = 5;
        sw.w.drop_index = 1;
    }
    match profile {
        "dml" => {
            sw.w.truncate = if rng.chance(1, 2) { 2 } else { 0 };
            if rng.chance(1, 3) {
                // statements the model expects to be refused are DML results too
                sw.allow_fail = true;
                sw.aim_fail = rng.range(8, 25) as u32;
                sw.p_check = 25;
                sw.p_notnull = 30;
                sw.p_unique = 25;
            }
        }
        "fail" => {
            sw.allow_fail = true;
            sw.aim_fail = rng.range(25, 60) as u32;
            sw.p_unique = 35;
            sw.p_notnull = 35;
            sw.p_check = 25;
            sw.p_fk = 20;
            sw.p_pk = 90;
            sw.max_tables = rng.range(1, 3) as usize;
            if rng.chance(1, 2) {
                sw.w.begin = 3;
                sw.w.commit = 3;
                sw.w.rollback = 1;
            }
        }
        "iofail" => {
            sw.w.fault = 10;
            sw.cfg = DbConfig::durable();
        }
        "txn" => {
            sw.w.begin = 10;
            sw.w.commit = 4;
            sw.w.rollback = 8;
            sw.w.savepoint = 8;
            sw.w.rollback_to = 8;
            sw.w.release = 3;
            sw.w.reopen_in_txn = 2;
            sw.p_unique = 25;
            sw.w.create_index = 4;
        }
        "cons" => {
            sw.allow_fail = true;
            sw.aim_fail = rng.range(15, 45) as u32;
            sw.p_unique = 40;
            sw.p_notnull = 40;
            sw.p_check = 40;
            sw.p_check_odd = 15;
            sw.p_fk = 35;
            sw.p_pk = 90;
            sw.p_default = 25;
            sw.max_tables = rng.range(2, 4) as usize;
            sw.w.create_table = 8;
            if rng.chance(1, 2) {
                sw.w.begin = 3;
                sw.w.commit = 2;
                sw.w.rollback = 2;
            }
        }
        "index" => {
            sw.w.create_index = 8;
            sw.w.drop_index = 3;
            sw.w.select = 25;
            sw.p_unique = 30;
            sw.p_multi_insert = 50;
            sw.max_rows_per_insert = rng.range(3, 30) as usize;
            if rng.chance(1, 2) {
                sw.w.begin = 4;
                sw.w.commit = 4;
                sw.w.rollback = 1;
            }
            if rng.chance(1, 6) {
                // hundreds of rows per table: index trees with interior pages, many equal keys
                sw.p_multi_insert = 90;
                sw.min_rows_per_insert = 60;
                sw.max_rows_per_insert = 110;
                sw.w.insert *= 2;
                sw.p_long = 0;
                sw.n_ops = sw.n_ops.max(20);
            }
        }
        "values" => {
            sw.extremes = true;
            sw.long_blobs = true;
            sw.types = vec![Ty::Int, Ty::BigInt, Ty::Text, Ty::Double, Ty::Bool, Ty::Blob];
            sw.p_long = rng.range(10, 50) as u32;
            sw.long_max = 20_000;
            sw.apis = vec![Api::Literal, Api::Params, Api::Prepared];
            sw.w.close_reopen = 3;
            sw.w.drop_reopen = 2;
            sw.w.checkpoint = 2;
        }
        "autoinc" => {
            sw.p_pk = 100;
            sw.p_autoinc = 100;
            sw.w.insert = 40;
            sw.w.delete = 12;
            sw.w.begin = 5;
            sw.w.commit = 5;
            sw.w.rollback = 4;
            sw.w.savepoint = 2;
            sw.w.rollback_to = 2;
            sw.w.close_reopen = 3;
            sw.w.drop_reopen = 5;
            sw.w.checkpoint = 1;
            if rng.chance(2, 3) {
                // the counter lives in the table header: its way through the log matters
                sw.cfg = DbConfig::durable();
            }
        }
        "ddl" => {
            sw.p_fk = 20;
            sw.p_pk = 85;
            sw.w.create_table = 8;
            sw.w.drop_table = 4;
            sw.w.create_index = 6;
            sw.w.drop_index = 3;
            sw.w.add_col = 6;
            sw.w.drop_col = 4;
            sw.w.rename_col = 4;
            sw.w.truncate = 4;
            sw.w.close_reopen = 4;
            sw.w.drop_reopen = 2;
            sw.max_tables = rng.range(2, 6) as usize;
            if rng.chance(1, 6) {
                // hundreds of rows: trees of several levels under the DDL statements (CREATE INDEX
                // backfill with root splits, DROP COLUMN rewriting many pages)
                sw.p_multi_insert = 90;
                sw.min_rows_per_insert = 60;
                sw.max_rows_per_insert = 110;
                sw.w.insert *= 3;
                sw.p_long = 0;
                sw.n_ops = sw.n_ops.max(20);
            }
        }
        "life" => {
            sw.w.checkpoint = 6;
            sw.w.pragma_checkpoint = 4;
            sw.w.close_reopen = 8;
            sw.w.drop_reopen = 5;
            sw.w.create_index = 4;
            sw.w.truncate = if rng.chance(1, 3) { 2 } else { 0 };
            sw.p_autoinc = 25;
            if rng.chance(1, 2) {
                sw.cfg.checkpoint_threshold = Some(rng.range(2, 12) as u32);
            }
            if rng.chance(1, 3) {
                sw.w.begin = 3;
                sw.w.commit = 3;
                sw.w.rollback = 1;
            }
            if rng.chance(1, 6) {
                // large transactions (more than 16 dirty pages per COMMIT: the chunked commit path)
                // followed by checkpoints and reopen cycles
                sw.cfg = DbConfig::durable();
                sw.p_medium = 95;
                sw.p_long = 0;
                if !sw.types.contains(&Ty::Text) {
                    sw.types.push(Ty::Text);
                }
                sw.max_rows_per_insert = 110;
                sw.min_rows_per_insert = 60;
                sw.p_multi_insert = 90;
                sw.p_null = 3;
                sw.w.insert *= 3;
                sw.w.begin = 10;
                sw.w.commit = 10;
                sw.w.rollback = 1;
                sw.w.truncate = 0;
                sw.w.select = 2;
                sw.w.count = 1;
                sw.w.create_index = 1;
                sw.n_ops = sw.n_ops.max(24);
            }
        }
        "iso" => {
            sw.sessions = if rng.chance(1, 3) { 3 } else { 2 };
            sw.n_ops = rng.range(8, 40) as usize;
            sw.max_tables = rng.range(1, 2) as usize;
            sw.p_pk = 100;
            sw.p_unique = 0;
            sw.p_long = 0;
            sw.types = vec![Ty::Int, Ty::BigInt, Ty::Text];
            sw.key_domain = rng.range(5, 10);
            sw.w.begin = 10;
            sw.w.commit = 8;
            sw.w.rollback = 4;
            sw.w.select = 30;
            sw.w.count = 4;
            sw.w.create_index = 0;
            sw.w.drop_index = 0;
            sw.p_multi_insert = 10;
            sw.p_returning = 0;
            sw.apis = vec![Api::Literal];
        }
        "crash" => {
            sw.cfg = DbConfig::durable();
            // foreign keys with referential actions: part of what the catalog has to carry
            sw.p_fk = 12;
            sw.n_ops = rng.range(4, if thorough { 40 } else { 22 }) as usize;
            sw.w.create_table = 5;
            sw.w.drop_table = 1;
            sw.w.create_index = 4;
            sw.w.add_col = 1;
            sw.w.truncate = 1;
            sw.w.checkpoint = 3;
            sw.w.pragma_checkpoint = 1;
            sw.w.close_reopen = 1;
            if rng.chance(1, 2) {
                sw.w.begin = 6;
                sw.w.commit = 12;
                sw.w.rollback = 2;
            }
            if rng.chance(1, 3) {
                sw.cfg.checkpoint_threshold = Some(rng.range(2, 12) as u32);
            }
            sw.max_rows_per_insert = rng.range(2, 40) as usize;
            if rng.chance(1, 4) {
                // large transactions: tens of dirty pages per COMMIT (chunked commit path, WAL
                // buffer larger than one write, multi-page splits)
                sw.p_medium = 95;
                sw.p_long = 0;
                if !sw.types.contains(&Ty::Text) {
                    sw.types.push(Ty::Text);
                }
                sw.max_rows_per_insert = 110;
                sw.min_rows_per_insert = 60;
                sw.cfg.checkpoint_threshold = None;
                sw.w.checkpoint = 1;
                sw.w.pragma_checkpoint = 0;
                sw.w.close_reopen = 0;
                sw.w.create_index = 1;
                sw.w.add_col = 0;
                sw.p_null = 3;
                sw.p_multi_insert = 90;
                sw.w.insert *= 3;
                sw.w.begin = 10;
                sw.w.commit = 10;
                sw.w.rollback = 1;
                sw.w.truncate = 0;
                sw.w.select = 2;
                sw.w.count = 1;
                sw.n_ops = sw.n_ops.max(24);
            }
        }
        "config" => {
            sw.w.checkpoint = 2;
            sw.w.create_index = 5;
            sw.w.begin = 3;
            sw.w.commit = 3;
            sw.w.rollback = 1;
            if rng.chance(1, 6) {
                // more than 22 tables with their primary-key indexes: more than 64 open files
                sw.max_tables = 24;
                sw.w.create_table = 60;
                sw.n_ops = 30 + rng.range(8, 20) as usize;
                sw.p_long = 0;
                sw.max_rows_per_insert = 3;
            }
        }
        "bulk" => {
            sw.w.bulk = 25;
            sw.w.create_index = 4;
            sw.p_unique = 25;
            sw.p_autoinc = 30;
            sw.p_notnull = 25;
            sw.bulk_max = if thorough { 5000 } else { 600 };
            sw.allow_fail = true;
            sw.aim_fail = 0;
        }
        _ => {}
    }
    sw
}
