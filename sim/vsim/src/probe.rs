//! `vsim sql [dir]` — run statements from stdin against a scratch database (debugging/triage aid).
use std::io::BufRead;

pub fn fmt_val(v: &turdb::OwnedValue) -> String {
    use turdb::OwnedValue as V;
    match v {
        V::Null => "NULL".into(),
        V::Int(i) => format!("{}", i),
        V::Float(f) => format!("{:?}f", f),
        V::Text(s) => format!("'{}'", if s.len() > 40 { format!("{}..[{}]", &s[..40], s.len()) } else { s.clone() }),
        V::Blob(b) => format!("x[{}]", b.len()),
        V::Bool(b) => format!("{}", b),
        other => format!("{:?}", other),
    }
}

pub fn fmt_result(r: &eyre::Result<turdb::ExecuteResult>) -> String {
    use turdb::ExecuteResult as R;
    match r {
        Err(e) => format!("ERR {}", e.to_string().replace('\n', " | ")),
        Ok(R::Select { columns, rows }) => {
            let mut s = format!("SELECT {:?} {} rows", columns, rows.len());
            for r in rows.iter().take(40) {
                s.push_str("\n   ");
                s.push_str(&r.values.iter().map(fmt_val).collect::<Vec<_>>().join(", "));
            }
            s
        }
        Ok(R::Insert { rows_affected, returned }) | Ok(R::Update { rows_affected, returned }) | Ok(R::Delete { rows_affected, returned }) => {
            let mut s = format!("DML affected={}", rows_affected);
            if let Some(rows) = returned {
                for r in rows {
                    s.push_str("\n   RET ");
                    s.push_str(&r.values.iter().map(fmt_val).collect::<Vec<_>>().join(", "));
                }
            }
            s
        }
        Ok(other) => format!("{:?}", other),
    }
}

pub fn main(args: &[String]) -> i32 {
    let dir = args.first().cloned().unwrap_or_else(|| format!("/dev/shm/vsim-probe-{}", std::process::id()));
    let fresh = !std::path::Path::new(&dir).join("turdb.meta").exists();
    let mut db = if fresh { turdb::Database::create(&dir) } else { turdb::Database::open(&dir) }.expect("open");
    let mut handles: Vec<turdb::Database> = vec![];
    let stdin = std::io::stdin();
    for line in stdin.lock().lines() {
        let line = line.unwrap();
        let l = line.trim();
        if l.is_empty() || l.starts_with("--") {
            continue;
        }
        if l == ".reopen" {
            drop(handles.drain(..));
            drop(db);
            db = turdb::Database::open(&dir).expect("reopen");
            println!("> .reopen ok");
            continue;
        }
        if l == ".close" {
            println!("> .close {:?}", db.close().map(|c| c.frames_checkpointed));
            continue;
        }
        if l == ".checkpoint" {
            println!("> .checkpoint {:?}", db.checkpoint().map(|c| (c.frames_checkpointed, c.wal_truncated)));
            continue;
        }
        if let Some(sql) = l.strip_prefix(".kill ") {
            // process-kill image: the files as they are now (handle still open), opened as a
            // second database (recovery runs), one statement executed on it
            fn copy_dir(src: &std::path::Path, dst: &std::path::Path) {
                let _ = std::fs::create_dir_all(dst);
                for e in std::fs::read_dir(src).unwrap().flatten() {
                    let p = e.path();
                    let d = dst.join(e.file_name());
                    if p.is_dir() {
                        copy_dir(&p, &d);
                    } else {
                        let _ = std::fs::copy(&p, &d);
                    }
                }
            }
            let img = format!("{}-killimg", dir);
            let _ = std::fs::remove_dir_all(&img);
            copy_dir(std::path::Path::new(&dir), std::path::Path::new(&img));
            match turdb::Database::open(&img) {
                Ok(k) => println!("> {}\n  {}", l, fmt_result(&k.execute(sql))),
                Err(e) => println!("> {}\n  open failed: {}", l, e),
            }
            let _ = std::fs::remove_dir_all(&img);
            continue;
        }
        if l == ".wal" {
            // (file id, page) of every frame currently in the log files
            let mut segs: Vec<_> = std::fs::read_dir(format!("{}/wal", dir)).map(|r| r.flatten().map(|e| e.path()).collect()).unwrap_or_default();
            segs.sort();
            for p in segs {
                let b = std::fs::read(&p).unwrap_or_default();
                let n = b.len() / 16416;
                let frames: Vec<String> = (0..n)
                    .map(|i| {
                        let h = &b[i * 16416..i * 16416 + 32];
                        let fid = u64::from_le_bytes(h[0..8].try_into().unwrap());
                        let pg = u32::from_le_bytes(h[8..12].try_into().unwrap());
                        format!("{}:{}", fid & 0xffff, pg)
                    })
                    .collect();
                println!("> .wal {} {} bytes: {}", p.file_name().unwrap().to_string_lossy(), b.len(), frames.join(" "));
            }
            continue;
        }
        if l == ".clone" {
            handles.push(db.clone());
            println!("> .clone -> handle {}", handles.len());
            continue;
        }
        // "@n sql" runs on cloned handle n
        let (h, sql) = if let Some(rest) = l.strip_prefix('@') {
            let (n, sql) = rest.split_once(' ').unwrap();
            (n.parse::<usize>().unwrap(), sql)
        } else {
            (0, l)
        };
        let target = if h == 0 { &db } else { &handles[h - 1] };
        let r = std::panic::catch_unwind(std::panic::AssertUnwindSafe(|| target.execute(sql)));
        match r {
            Ok(r) => println!("> {}\n  {}", l, fmt_result(&r)),
            Err(_) => println!("> {}\n  PANIC", l),
        }
    }
    drop(handles);
    drop(db);
    if fresh && args.is_empty() {
        let _ = std::fs::remove_dir_all(&dir);
    }
    0
}
