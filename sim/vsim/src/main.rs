mod dsim;
mod probe;
use simdisk;

use simcore::driver::{self, CheckSpec, Engine};
use simcore::pool::{self, JobStatus, PoolCfg};
use simcore::Tier;
use std::time::Duration;

struct PropSpec {
    id: &'static str,
    engine: &'static str,
    profile: &'static str,
    level: &'static str,
    quick_runs: u64,
    thorough_runs: u64,
    /// verdicts blamed on these properties are violations of this one as well when they occur in
    /// its profile (e.g. a wrong indexed read after a DML statement is also a wrong DML result)
    also: &'static [&'static str],
}

const PROPS: &[PropSpec] = &[
    PropSpec { id: "C01", engine: "dsim", profile: "crash", level: "fault_enumeration", quick_runs: 240, thorough_runs: 4000, also: &[] },
    PropSpec { id: "C02", engine: "dsim", profile: "crash", level: "fault_enumeration", quick_runs: 240, thorough_runs: 4000, also: &[] },
    PropSpec { id: "C04", engine: "dsim", profile: "life", level: "exploration", quick_runs: 1500, thorough_runs: 30000, also: &["C05", "C09", "C10", "C21"] },
    PropSpec { id: "C05", engine: "dsim", profile: "dml", level: "exploration", quick_runs: 2000, thorough_runs: 40000, also: &["C06", "C09", "C10", "C11", "C12"] },
    PropSpec { id: "C06", engine: "dsim", profile: "fail", level: "exploration", quick_runs: 2000, thorough_runs: 40000, also: &[] },
    PropSpec { id: "C07", engine: "dsim", profile: "txn", level: "exploration", quick_runs: 2000, thorough_runs: 40000, also: &[] },
    PropSpec { id: "C08", engine: "dsim", profile: "iso", level: "exploration", quick_runs: 1500, thorough_runs: 30000, also: &["C07"] },
    PropSpec { id: "C09", engine: "dsim", profile: "cons", level: "exploration", quick_runs: 2000, thorough_runs: 40000, also: &["C06", "C07"] },
    PropSpec { id: "C10", engine: "dsim", profile: "index", level: "exploration", quick_runs: 1500, thorough_runs: 30000, also: &[] },
    PropSpec { id: "C11", engine: "dsim", profile: "values", level: "exploration", quick_runs: 1500, thorough_runs: 30000, also: &[] },
    PropSpec { id: "C12", engine: "dsim", profile: "autoinc", level: "exploration", quick_runs: 2000, thorough_runs: 40000, also: &[] },
    PropSpec { id: "C21", engine: "dsim", profile: "ddl", level: "exploration", quick_runs: 1500, thorough_runs: 30000, also: &[] },
    PropSpec { id: "C40", engine: "dsim", profile: "crash", level: "fault_enumeration", quick_runs: 240, thorough_runs: 4000, also: &[] },
    PropSpec { id: "C42", engine: "dsim", profile: "config", level: "exploration", quick_runs: 800, thorough_runs: 16000, also: &[] },
    PropSpec { id: "C43", engine: "dsim", profile: "bulk", level: "exploration", quick_runs: 1200, thorough_runs: 20000, also: &[] },
];

fn engine_by_name(name: &str) -> Option<Box<dyn Engine>> {
    match name {
        "dsim" => Some(Box::new(dsim::Dsim)),
        _ => None,
    }
}

fn arg_value(args: &[String], flag: &str) -> Option<String> {
    args.iter().position(|a| a == flag).and_then(|i| args.get(i + 1).cloned())
}

fn env_u64(k: &str) -> Option<u64> {
    std::env::var(k).ok().and_then(|v| v.parse().ok())
}

fn workers() -> usize {
    env_u64("VSIM_WORKERS").map(|v| v as usize).unwrap_or_else(|| {
        std::thread::available_parallelism().map(|n| n.get()).unwrap_or(8).min(16)
    })
}

fn cmd_check(args: &[String]) -> i32 {
    let id = match args.first() {
        Some(i) => i.clone(),
        None => {
            eprintln!("usage: vsim check <ID> [--tier quick|thorough] [--seed N] [--runs N]");
            return 2;
        }
    };
    let ps = match PROPS.iter().find(|p| p.id == id) {
        Some(p) => p,
        None => {
            eprintln!("unknown property {}", id);
            return 2;
        }
    };
    let tier = Tier::parse(&arg_value(args, "--tier").or_else(|| std::env::var("VERIF_TIER").ok()).unwrap_or_else(|| "quick".into()));
    let seed = arg_value(args, "--seed").and_then(|s| s.parse().ok()).or_else(|| env_u64("VERIF_SEED")).unwrap_or(1);
    let runs = arg_value(args, "--runs")
        .and_then(|s| s.parse().ok())
        .or_else(|| env_u64("VSIM_RUNS"))
        .unwrap_or(if tier == Tier::Thorough { ps.thorough_runs } else { ps.quick_runs });
    let engine = engine_by_name(ps.engine).expect("engine");
    let spec = CheckSpec {
        property: ps.id.to_string(),
        profile: format!("{}@{}", ps.profile, ps.id),
        tier,
        seed,
        runs,
        workers: workers(),
        run_timeout: Duration::from_millis(env_u64("VSIM_RUN_TIMEOUT_MS").unwrap_or(if tier == Tier::Thorough { 420_000 } else if ps.profile == "crash" { 240_000 } else { 120_000 })),
        batch_budget: Duration::from_secs(if tier == Tier::Thorough { 900 } else { 150 }),
        level: ps.level.to_string(),
        also_owns: ps.also.iter().map(|x| x.to_string()).collect(),
        min_budget_runs: if tier == Tier::Thorough { 600 } else { 300 },
        min_budget_wall: Duration::from_secs(if tier == Tier::Thorough { 240 } else { 60 }),
        max_minimise: if tier == Tier::Thorough { 12 } else { 6 },
    };
    if args.iter().any(|a| a == "--mkreplays") {
        return driver::make_known_replays(engine.as_ref(), &spec);
    }
    driver::run_check(engine.as_ref(), &spec)
}

fn cmd_replay(args: &[String]) -> i32 {
    let path = match args.first() {
        Some(p) => std::path::PathBuf::from(p),
        None => {
            eprintln!("usage: vsim replay <file>");
            return 2;
        }
    };
    let doc: serde_json::Value = match std::fs::read(&path).ok().and_then(|b| serde_json::from_slice(&b).ok()) {
        Some(d) => d,
        None => {
            eprintln!("cannot read {}", path.display());
            return 2;
        }
    };
    let ename = doc["engine"].as_str().unwrap_or("dsim").to_string();
    match engine_by_name(&ename) {
        Some(e) => driver::replay(e.as_ref(), &path),
        None => {
            eprintln!("unknown engine {}", ename);
            2
        }
    }
}

/// `vsim run1 <engine> <profile@prop> <seed> <run> [tier]` — one seeded run, outcome printed.
fn cmd_run1(args: &[String]) -> i32 {
    if args.len() < 4 {
        eprintln!("usage: vsim run1 <engine> <profile@prop> <seed> <run> [tier]");
        return 2;
    }
    let engine = engine_by_name(&args[0]).expect("engine");
    let profile = args[1].clone();
    let seed: u64 = args[2].parse().unwrap_or(1);
    let run: u64 = args[3].parse().unwrap_or(0);
    let tier = Tier::parse(args.get(4).map(|s| s.as_str()).unwrap_or("quick"));
    let base = pool::default_scratch_base();
    let cfg = PoolCfg { workers: 1, timeout: Duration::from_secs(300), scratch: base.join("run1"), deadline: None };
    let res = pool::run_jobs(&cfg, &[run], |j| engine.run_seeded(&profile, seed, j, tier));
    pool::cleanup(&base);
    for (_, st) in res {
        match st {
            JobStatus::Done(o) => {
                println!("{}", serde_json::to_string_pretty(&o.sample).unwrap_or_default());
                println!("counters: {:?}", o.counters);
                println!("events_hash={:016x} nontrivial={} harness_error={:?}", o.events_hash, o.nontrivial, o.harness_error);
                for v in &o.violations {
                    println!("VIOL {} :: {}", v.sig_string(), v.detail);
                }
            }
            other => println!("{:?}", other),
        }
    }
    0
}

/// `vsim selfcheck determinism <engine> <profile@prop> <n>`: every seed twice, at two worker counts.
fn cmd_selfcheck(args: &[String]) -> i32 {
    if args.len() < 4 || args[0] != "determinism" {
        eprintln!("usage: vsim selfcheck determinism <engine> <profile@prop> <n> [seed]");
        return 2;
    }
    let engine = engine_by_name(&args[1]).expect("engine");
    let profile = args[2].clone();
    let n: u64 = args[3].parse().unwrap_or(64);
    let seed: u64 = args.get(4).and_then(|s| s.parse().ok()).unwrap_or(1);
    let base = pool::default_scratch_base();
    let jobs: Vec<u64> = (0..n).collect();
    let mut hashes: Vec<Vec<(u64, String)>> = vec![];
    for (round, w) in [(0, 4usize), (1, 16usize)] {
        let cfg = PoolCfg { workers: w, timeout: Duration::from_secs(120), scratch: base.join(format!("det{}", round)), deadline: None };
        // pad the environment differently in the second round
        if round == 1 {
            std::env::set_var("VSIM_PAD", "x".repeat(777));
        }
        let res = pool::run_jobs(&cfg, &jobs, |j| engine.run_seeded(&profile, seed, j, Tier::Quick));
        hashes.push(
            res.into_iter()
                .map(|(j, st)| match st {
                    JobStatus::Done(o) => (j, format!("{:016x}/{}v/{:?}", o.events_hash, o.violations.len(), o.harness_error)),
                    other => (j, format!("{:?}", other).chars().take(60).collect()),
                })
                .collect(),
        );
    }
    pool::cleanup(&base);
    let mut bad = 0;
    let mut inconclusive = 0;
    for (a, b) in hashes[0].iter().zip(hashes[1].iter()) {
        if a.1.starts_with("TimedOut") || b.1.starts_with("TimedOut") {
            // the watchdog fired in one of the two rounds (machine load): says nothing about determinism
            inconclusive += 1;
            continue;
        }
        if a != b {
            println!("DIVERGED run {}: {} vs {}", a.0, a.1, b.1);
            bad += 1;
        }
    }
    println!("determinism: {} seed pairs, {} diverged, {} inconclusive (watchdog)", n, bad, inconclusive);
    if bad > 0 {
        1
    } else {
        0
    }
}

/// `vsim survey <engine> <profile@prop> <n> [seed] [tier]`: signature histogram over n seeded runs (triage aid).
fn cmd_survey(args: &[String]) -> i32 {
    if args.len() < 3 {
        eprintln!("usage: vsim survey <engine> <profile@prop> <n> [seed] [tier]");
        return 2;
    }
    let engine = engine_by_name(&args[0]).expect("engine");
    let profile = args[1].clone();
    let n: u64 = args[2].parse().unwrap_or(100);
    let seed: u64 = args.get(3).and_then(|s| s.parse().ok()).unwrap_or(1);
    let tier = Tier::parse(args.get(4).map(|s| s.as_str()).unwrap_or("quick"));
    let base = pool::default_scratch_base();
    let cfg = PoolCfg { workers: workers(), timeout: Duration::from_secs(120), scratch: base.join("survey"), deadline: None };
    let jobs: Vec<u64> = (0..n).collect();
    let t0 = std::time::Instant::now();
    let res = pool::run_jobs(&cfg, &jobs, |j| engine.run_seeded(&profile, seed, j, tier));
    pool::cleanup(&base);
    let mut hist: std::collections::BTreeMap<String, (u64, u64, String)> = Default::default();
    let mut clean = 0;
    let mut steps = 0u64;
    for (j, st) in res {
        match st {
            JobStatus::Done(o) => {
                steps += o.counters.get("steps").copied().unwrap_or(0);
                if let Some(e) = &o.harness_error {
                    let e2 = hist.entry(format!("HARNESS {}", e)).or_insert((0, j, String::new()));
                    e2.0 += 1;
                }
                if o.violations.is_empty() {
                    clean += 1;
                }
                let mut seen = std::collections::BTreeSet::new();
                for v in &o.violations {
                    if seen.insert(v.sig_string()) {
                        let e = hist.entry(v.sig_string()).or_insert((0, j, v.detail.clone()));
                        e.0 += 1;
                    }
                }
            }
            other => {
                let e = hist.entry(format!("{:?}", other).chars().take(300).collect()).or_insert((0, j, String::new()));
                e.0 += 1;
            }
        }
    }
    let mut v: Vec<_> = hist.into_iter().collect();
    v.sort_by_key(|(_, (c, _, _))| std::cmp::Reverse(*c));
    println!("{} runs, {} clean, {} steps, {:.1}s", n, clean, steps, t0.elapsed().as_secs_f64());
    for (sig, (c, j, d)) in v {
        let d: String = d.chars().take(700).collect();
        println!("{:5}x run{} {}\n        {}", c, j, sig, d);
    }
    0
}

fn main() {
    let args: Vec<String> = std::env::args().collect();
    if args.len() > 1 && args[1] == "sql" {
        std::process::exit(probe::main(&args[2..]));
    }
    simcore::noaslr::ensure();
    simdisk::plug_hash_order();
    let code = match args.get(1).map(|s| s.as_str()) {
        Some("check") => cmd_check(&args[2..]),
        Some("replay") => cmd_replay(&args[2..]),
        Some("run1") => cmd_run1(&args[2..]),
        Some("selfcheck") => cmd_selfcheck(&args[2..]),
        Some("survey") => cmd_survey(&args[2..]),
        Some("stabilise-json") => {
            // rewrites every "src/x.rs:LINE" string of the given JSON files into the stable site form
            fn walk(v: &mut serde_json::Value, n: &mut usize) {
                match v {
                    serde_json::Value::String(s) => {
                        let t = simcore::site::stable_from_str(s);
                        if t != *s {
                            *s = t;
                            *n += 1;
                        }
                    }
                    serde_json::Value::Array(a) => a.iter_mut().for_each(|x| walk(x, n)),
                    serde_json::Value::Object(o) => o.values_mut().for_each(|x| walk(x, n)),
                    _ => {}
                }
            }
            for f in &args[2..] {
                let mut v: serde_json::Value = match std::fs::read(f).ok().and_then(|b| serde_json::from_slice(&b).ok()) {
                    Some(v) => v,
                    None => {
                        eprintln!("cannot read {}", f);
                        continue;
                    }
                };
                let mut n = 0;
                walk(&mut v, &mut n);
                if n > 0 {
                    let _ = std::fs::write(f, serde_json::to_vec_pretty(&v).unwrap_or_default());
                }
                println!("{} {}", n, f);
            }
            0
        }
        Some("list") => {
            for p in PROPS {
                println!("{} {} {}", p.id, p.engine, p.profile);
            }
            0
        }
        _ => {
            eprintln!("usage: vsim check|replay|run1|selfcheck|sql|list ...");
            2
        }
    };
    std::process::exit(code);
}
