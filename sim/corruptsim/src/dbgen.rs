//! Build phase: a seeded, explicit list of SQL statements run through the public
//! `turdb::Database` API produces a small valid database (plus an older snapshot of its files).

use crate::guard::{guarded, mark};
use serde::{Deserialize, Serialize};
use simcore::rng::fnv1a;
use simcore::Rng;
use std::path::{Path, PathBuf};

pub const SNAPSHOT: &str = "#snapshot";

#[derive(Serialize, Deserialize, Clone, Debug, PartialEq)]
pub struct BuildSpec {
    /// SQL statements in order; the pseudo statement `#snapshot` copies all files ("older images")
    pub stmts: Vec<String>,
    /// `close` = close() then drop, `drop` = drop without close(), `kill` = the files as they are
    /// while the handle is still open (what a killed process leaves: WAL not checkpointed)
    pub end: String,
}

#[derive(Serialize, Deserialize, Clone, Debug, PartialEq)]
pub struct Step {
    /// open | scan | lookup | write | checkpoint | close | reopen
    pub phase: String,
    /// SQL text, or `@checkpoint` / `@close` / `@reopen`
    pub op: String,
}

#[derive(Clone, Copy, Debug, PartialEq)]
pub enum ColType {
    Int,
    BigInt,
    Text,
    Double,
    Bool,
    Blob,
}

impl ColType {
    pub fn sql(&self) -> &'static str {
        match self {
            ColType::Int => "INT",
            ColType::BigInt => "BIGINT",
            ColType::Text => "TEXT",
            ColType::Double => "DOUBLE",
            ColType::Bool => "BOOLEAN",
            ColType::Blob => "BLOB",
        }
    }
}

#[derive(Clone, Debug)]
pub struct TableInfo {
    pub schema: String,
    pub name: String,
    pub cols: Vec<(String, ColType)>,
    pub idx_col: Option<usize>,
    pub ids: Vec<i64>,
}

impl TableInfo {
    pub fn qname(&self) -> String {
        if self.schema == "root" {
            self.name.clone()
        } else {
            format!("{}.{}", self.schema, self.name)
        }
    }
}

fn rand_text(rng: &mut Rng, len: usize) -> String {
    const AL: &[u8] = b"abcdefghijklmnopqrstuvwxyzABCDEFGHIJKLMNOPQRSTUVWXYZ0123456789 _-";
    (0..len).map(|_| AL[rng.usize_below(AL.len())] as char).collect()
}

fn uniq_lit(ty: ColType, id: i64) -> String {
    match ty {
        ColType::Text => format!("'u{:06}'", id * 7 + 3),
        _ => format!("{}", 1000 + id * 7),
    }
}

fn value_lit(rng: &mut Rng, ty: ColType, big_ok: bool) -> String {
    if rng.chance(1, 10) {
        return "NULL".into();
    }
    match ty {
        ColType::Int => format!("{}", rng.range(-100000, 100000)),
        ColType::BigInt => format!("{}", rng.range(-4_000_000_000_000, 4_000_000_000_000)),
        ColType::Double => format!("{}.{}", rng.range(-9999, 9999), rng.below(1000)),
        ColType::Bool => if rng.chance(1, 2) { "true".into() } else { "false".into() },
        ColType::Text => {
            let len = if big_ok && rng.chance(1, 6) { rng.range(1001, 9000) as usize } else { rng.below(48) as usize };
            format!("'{}'", rand_text(rng, len))
        }
        ColType::Blob => {
            let len = if big_ok && rng.chance(1, 12) { rng.range(1001, 5000) as usize } else { rng.below(24) as usize };
            let mut v = vec![0u8; len];
            rng.fill_bytes(&mut v);
            // a 17-byte value starting with 0xFE is taken for a TOAST pointer by TurDB (in-band
            // marker; DELETE then loops over a garbage chunk count): keep the valid database valid
            if v.len() == 17 && v[0] == 0xFE {
                v[0] = 0x7E;
            }
            format!("x'{}'", crate::faults::hex(&v))
        }
    }
}

fn row_lit(rng: &mut Rng, t: &TableInfo, id: i64) -> String {
    let mut vals = vec![format!("{}", id), uniq_lit(t.cols[1].1, id)];
    for (_, ty) in t.cols.iter().skip(2) {
        vals.push(value_lit(rng, *ty, true));
    }
    format!("({})", vals.join(", "))
}

pub struct Generated {
    pub build: BuildSpec,
    pub steps: Vec<Step>,
    pub tables: Vec<TableInfo>,
}

/// `scale`: 0 = tiny (shrunk builds for the decoder part), 1 = quick, 2 = thorough
pub fn generate(rng: &mut Rng, scale: u32) -> Generated {
    let mut stmts: Vec<String> = vec![];
    let wal = rng.chance(3, 5);
    stmts.push(format!("PRAGMA wal = {}", if wal { "ON" } else { "OFF" }));
    if rng.chance(1, 3) {
        stmts.push(format!("PRAGMA synchronous = {}", rng.pick(&["OFF", "NORMAL", "FULL"])));
    }
    let ntables = 1 + rng.weighted(&[5, 3, 2]);
    let second_schema = ntables > 1 && rng.chance(1, 20);
    let mut tables: Vec<TableInfo> = vec![];
    for ti in 0..ntables {
        let schema = if second_schema && ti == ntables - 1 { "s2".to_string() } else { "root".to_string() };
        if schema == "s2" {
            stmts.push("CREATE SCHEMA s2".into());
        }
        let name = format!("t{}", ti + 1);
        let pk_ty = if rng.chance(1, 2) { ColType::Int } else { ColType::BigInt };
        let u_ty = *rng.pick(&[ColType::Int, ColType::BigInt, ColType::Text]);
        let mut cols = vec![("id".to_string(), pk_ty), ("u".to_string(), u_ty)];
        let extra = 1 + rng.usize_below(5);
        let mut have_text = false;
        for ci in 0..extra {
            let ty = *rng.pick(&[ColType::Text, ColType::Text, ColType::Double, ColType::Bool, ColType::Blob, ColType::Int, ColType::BigInt]);
            if ty == ColType::Text {
                have_text = true;
            }
            cols.push((format!("c{}", ci), ty));
        }
        if !have_text && rng.chance(4, 5) {
            cols.push(("txt".to_string(), ColType::Text));
        }
        // secondary index on one extra column that is TEXT / INT / BIGINT
        let cands: Vec<usize> = (2..cols.len()).filter(|i| matches!(cols[*i].1, ColType::Text | ColType::Int | ColType::BigInt)).collect();
        let idx_col = if cands.is_empty() || rng.chance(1, 8) { None } else { Some(*rng.pick(&cands)) };
        let t = TableInfo { schema, name, cols, idx_col, ids: vec![] };
        let coldefs: Vec<String> = t
            .cols
            .iter()
            .enumerate()
            .map(|(i, (n, ty))| match i {
                0 => format!("{} {} PRIMARY KEY", n, ty.sql()),
                1 => format!("{} {} UNIQUE", n, ty.sql()),
                _ => format!("{} {}", n, ty.sql()),
            })
            .collect();
        stmts.push(format!("CREATE TABLE {} ({})", t.qname(), coldefs.join(", ")));
        let early_index = rng.chance(1, 2);
        if let (Some(ic), true) = (t.idx_col, early_index) {
            stmts.push(format!("CREATE INDEX ix_{}_{} ON {} ({})", t.name, t.cols[ic].0, t.qname(), t.cols[ic].0));
        }
        tables.push(t);
        // late index creation is emitted after the inserts (below)
        if !early_index {
            let t = tables.last().unwrap();
            if let Some(ic) = t.idx_col {
                stmts.push(format!("#late CREATE INDEX ix_{}_{} ON {} ({})", t.name, t.cols[ic].0, t.qname(), t.cols[ic].0));
            }
        }
    }
    // a side table whose only purpose is a catalog entry with every kind of column constraint
    // (FOREIGN KEY with referential actions, CHECK, DEFAULT, NOT NULL): the catalog decoder's
    // constraint paths are otherwise never fed
    if rng.chance(2, 3) {
        let p = &tables[0];
        let action = *rng.pick(&["", " ON DELETE CASCADE", " ON DELETE CASCADE ON UPDATE CASCADE", " ON UPDATE CASCADE"]);
        stmts.push(format!(
            "CREATE TABLE zc (id INT PRIMARY KEY, p {} REFERENCES {}(id){}, q INT DEFAULT 5 CHECK (q >= 0), r TEXT NOT NULL DEFAULT 'x')",
            p.cols[0].1.sql(),
            p.name,
            action
        ));
        stmts.push("INSERT INTO zc (id, q) VALUES (1, 3), (2, 9)".to_string());
    }
    // rows
    let mut dml: Vec<String> = vec![];
    for t in tables.iter_mut() {
        let nrows: i64 = match (scale, rng.weighted(&[6, 3, 1])) {
            (0, _) => rng.range(3, 12),
            (_, 0) => rng.range(4, 40),
            (1, 1) => rng.range(50, 160),
            (1, _) => rng.range(200, 420),
            (_, 1) => rng.range(60, 250),
            (_, _) => rng.range(300, 800),
        };
        let stride = 1 + rng.below(3) as i64;
        let mut id = rng.range(1, 5);
        let mut batch: Vec<String> = vec![];
        let bsz = 1 + rng.usize_below(8);
        for _ in 0..nrows {
            batch.push(row_lit(rng, t, id));
            t.ids.push(id);
            id += stride;
            if batch.len() >= bsz {
                dml.push(format!("INSERT INTO {} VALUES {}", t.qname(), batch.join(", ")));
                batch.clear();
            }
        }
        if !batch.is_empty() {
            dml.push(format!("INSERT INTO {} VALUES {}", t.qname(), batch.join(", ")));
        }
    }
    // interleave the tables' inserts a little: rotate a random split
    if tables.len() > 1 && dml.len() > 2 {
        let k = rng.usize_below(dml.len());
        dml.rotate_left(k);
    }
    // updates / deletes
    let mut tail: Vec<String> = vec![];
    for t in tables.iter_mut() {
        let nup = rng.below(7);
        for _ in 0..nup {
            if t.ids.is_empty() || t.cols.len() < 3 {
                break;
            }
            let id = *rng.pick(&t.ids);
            let ci = 2 + rng.usize_below(t.cols.len() - 2);
            let v = value_lit(rng, t.cols[ci].1, true);
            tail.push(format!("UPDATE {} SET {} = {} WHERE id = {}", t.qname(), t.cols[ci].0, v, id));
        }
        let ndel = rng.below(6);
        for _ in 0..ndel {
            if t.ids.len() < 3 {
                break;
            }
            let k = rng.usize_below(t.ids.len());
            let id = t.ids.remove(k);
            tail.push(format!("DELETE FROM {} WHERE id = {}", t.qname(), id));
        }
    }
    rng.shuffle(&mut tail);
    // late CREATE INDEX statements go after the inserts
    let late: Vec<String> = stmts.iter().filter(|s| s.starts_with("#late ")).map(|s| s["#late ".len()..].to_string()).collect();
    stmts.retain(|s| !s.starts_with("#late "));
    let ddl_len = stmts.len();
    stmts.extend(dml);
    stmts.extend(late);
    stmts.extend(tail);
    // optional checkpoint in the middle, snapshot marker somewhere after the DDL
    if wal && rng.chance(1, 4) && stmts.len() > ddl_len + 1 {
        let at = ddl_len + rng.usize_below(stmts.len() - ddl_len);
        stmts.insert(at, "PRAGMA wal_checkpoint".into());
    }
    if stmts.len() > ddl_len {
        let span = stmts.len() - ddl_len;
        let at = ddl_len + span * 3 / 10 + rng.usize_below(span * 6 / 10 + 1);
        stmts.insert(at.min(stmts.len()), SNAPSHOT.into());
    }
    let end = match rng.weighted(&[3, 3, 4]) {
        0 => "close",
        1 => "drop",
        _ => "kill",
    }
    .to_string();

    // exercise steps
    let mut steps: Vec<Step> = vec![];
    let st = |phase: &str, op: String| Step { phase: phase.into(), op };
    steps.push(st("open", format!("PRAGMA wal = {}", if wal { "ON" } else { "OFF" })));
    for t in &tables {
        steps.push(st("scan", format!("SELECT * FROM {}", t.qname())));
        steps.push(st("scan", format!("SELECT COUNT(*) FROM {}", t.qname())));
    }
    if rng.chance(1, 3) {
        steps.push(st("scan", "SELECT * FROM turdb_catalog.wal_stats".into()));
    }
    for t in &tables {
        if t.ids.is_empty() {
            continue;
        }
        let id = *rng.pick(&t.ids);
        steps.push(st("lookup", format!("SELECT * FROM {} WHERE id = {}", t.qname(), id)));
        let id2 = *rng.pick(&t.ids);
        steps.push(st("lookup", format!("SELECT * FROM {} WHERE u = {}", t.qname(), uniq_lit(t.cols[1].1, id2))));
        if let Some(ic) = t.idx_col {
            let v = loop {
                let v = value_lit(rng, t.cols[ic].1, false);
                if v != "NULL" {
                    break v;
                }
            };
            steps.push(st("lookup", format!("SELECT * FROM {} WHERE {} = {}", t.qname(), t.cols[ic].0, v)));
        }
        let id3 = *rng.pick(&t.ids);
        steps.push(st("lookup", format!("SELECT id, u FROM {} WHERE id >= {} ORDER BY id", t.qname(), id3)));
    }
    for t in &tables {
        let newid = t.ids.iter().max().copied().unwrap_or(0) + 1 + rng.below(50) as i64;
        steps.push(st("write", format!("INSERT INTO {} VALUES {}", t.qname(), row_lit(rng, t, newid))));
        if !t.ids.is_empty() && t.cols.len() > 2 {
            let id = *rng.pick(&t.ids);
            let ci = 2 + rng.usize_below(t.cols.len() - 2);
            let v = value_lit(rng, t.cols[ci].1, true);
            steps.push(st("write", format!("UPDATE {} SET {} = {} WHERE id = {}", t.qname(), t.cols[ci].0, v, id)));
            let id = *rng.pick(&t.ids);
            steps.push(st("write", format!("DELETE FROM {} WHERE id = {}", t.qname(), id)));
        }
    }
    steps.push(st("checkpoint", "PRAGMA wal_checkpoint".into()));
    steps.push(st("checkpoint", "@checkpoint".into()));
    steps.push(st("close", "@close".into()));
    steps.push(st("reopen", "@reopen".into()));
    for t in &tables {
        steps.push(st("reopen", format!("SELECT COUNT(*) FROM {}", t.qname())));
    }
    steps.push(st("close", "@close".into()));

    Generated { build: BuildSpec { stmts, end }, steps, tables }
}

// ---------------------------------------------------------------------------------------------
// execution
// ---------------------------------------------------------------------------------------------

pub fn copy_dir(from: &Path, to: &Path) -> std::io::Result<()> {
    std::fs::create_dir_all(to)?;
    let mut entries: Vec<_> = std::fs::read_dir(from)?.filter_map(|e| e.ok()).collect();
    entries.sort_by_key(|e| e.file_name());
    for e in entries {
        let p = e.path();
        let dst = to.join(e.file_name());
        if p.is_dir() {
            copy_dir(&p, &dst)?;
        } else {
            std::fs::copy(&p, &dst)?;
        }
    }
    Ok(())
}

/// Relative paths of all regular files under `dir`, sorted.
pub fn list_files(dir: &Path) -> Vec<String> {
    fn walk(base: &Path, d: &Path, out: &mut Vec<String>) {
        let mut entries: Vec<_> = match std::fs::read_dir(d) {
            Ok(r) => r.filter_map(|e| e.ok()).collect(),
            Err(_) => return,
        };
        entries.sort_by_key(|e| e.file_name());
        for e in entries {
            let p = e.path();
            if p.is_dir() {
                walk(base, &p, out);
            } else if let Ok(rel) = p.strip_prefix(base) {
                out.push(rel.to_string_lossy().to_string());
            }
        }
    }
    let mut out = vec![];
    walk(dir, dir, &mut out);
    out.sort();
    out
}

pub struct Built {
    pub db: PathBuf,
    pub old: PathBuf,
    /// one line per statement: outcome class
    pub transcript: Vec<String>,
    /// hash over names and contents of all files of the finished database
    pub files_hash: u64,
    pub build_panics: Vec<String>,
    pub stmt_err: u64,
    pub stmt_ok: u64,
}

fn class_of(r: &Result<eyre::Result<turdb::ExecuteResult>, crate::guard::PanicInfo>) -> String {
    match r {
        Ok(Ok(turdb::ExecuteResult::Select { rows, .. })) => format!("ok rows={}", rows.len()),
        Ok(Ok(turdb::ExecuteResult::Insert { rows_affected, .. })) | Ok(Ok(turdb::ExecuteResult::Update { rows_affected, .. })) | Ok(Ok(turdb::ExecuteResult::Delete { rows_affected, .. })) => {
            format!("ok n={}", rows_affected)
        }
        Ok(Ok(_)) => "ok".into(),
        Ok(Err(_)) => "err".into(),
        Err(p) => format!("panic@{}", p.site),
    }
}

pub fn class_pub(r: &Result<eyre::Result<turdb::ExecuteResult>, crate::guard::PanicInfo>) -> String {
    class_of(r)
}

/// Runs the build under `root` (`root/build` -> `root/db`, snapshot in `root/old`).
pub fn run_build(spec: &BuildSpec, root: &Path) -> Result<Built, String> {
    let bdir = root.join("build");
    let old = root.join("old");
    let dbdir = root.join("db");
    let _ = std::fs::remove_dir_all(&bdir);
    let _ = std::fs::remove_dir_all(&old);
    let _ = std::fs::remove_dir_all(&dbdir);
    mark("build create");
    let db = guarded(|| turdb::Database::create(&bdir)).map_err(|p| format!("panic in Database::create at {}", p.site))?;
    let db = db.map_err(|e| format!("Database::create failed: {:#}", e))?;
    let mut transcript = vec![];
    let mut build_panics = vec![];
    let (mut ok, mut err) = (0u64, 0u64);
    for (i, s) in spec.stmts.iter().enumerate() {
        if s == SNAPSHOT {
            let _ = std::fs::remove_dir_all(&old);
            copy_dir(&bdir, &old).map_err(|e| format!("snapshot copy failed: {}", e))?;
            transcript.push("snapshot".into());
            continue;
        }
        mark(&format!("build stmt {} {}", i, s.chars().take(100).collect::<String>()));
        let r = guarded(|| db.execute(s));
        let c = class_of(&r);
        match &r {
            Ok(Ok(_)) => ok += 1,
            Ok(Err(_)) => err += 1,
            Err(p) => {
                build_panics.push(format!("stmt {} `{}`: {} {}", i, s.chars().take(80).collect::<String>(), p.site, p.msg));
            }
        }
        transcript.push(c);
        if !build_panics.is_empty() {
            break;
        }
    }
    mark(&format!("build end={}", spec.end));
    if build_panics.is_empty() {
        match spec.end.as_str() {
            "kill" => {
                copy_dir(&bdir, &dbdir).map_err(|e| format!("kill copy failed: {}", e))?;
                if let Err(p) = guarded(move || drop(db)) {
                    build_panics.push(format!("drop: {} {}", p.site, p.msg));
                }
            }
            "close" => {
                match guarded(|| db.close()) {
                    Ok(r) => transcript.push(if r.is_ok() { "close ok".into() } else { "close err".into() }),
                    Err(p) => build_panics.push(format!("close: {} {}", p.site, p.msg)),
                }
                if let Err(p) = guarded(move || drop(db)) {
                    build_panics.push(format!("drop: {} {}", p.site, p.msg));
                }
                copy_dir(&bdir, &dbdir).map_err(|e| format!("copy failed: {}", e))?;
            }
            _ => {
                if let Err(p) = guarded(move || drop(db)) {
                    build_panics.push(format!("drop: {} {}", p.site, p.msg));
                }
                copy_dir(&bdir, &dbdir).map_err(|e| format!("copy failed: {}", e))?;
            }
        }
    } else {
        // leak the handle: its state is unknown after a panic
        std::mem::forget(db);
        let _ = copy_dir(&bdir, &dbdir);
    }
    let _ = std::fs::remove_dir_all(&bdir);
    let mut h: u64 = 0;
    for f in list_files(&dbdir) {
        let bytes = std::fs::read(dbdir.join(&f)).unwrap_or_default();
        h = simcore::rng::mix(h, fnv1a(f.as_bytes()));
        h = simcore::rng::mix(h, fnv1a(&bytes));
    }
    Ok(Built { db: dbdir, old, transcript, files_hash: h, build_panics, stmt_err: err, stmt_ok: ok })
}
