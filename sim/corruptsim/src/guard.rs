//! Panic capture: a quiet hook records `file:line` (+ message) of the last panic; `guarded`
//! turns an unwinding panic into `Err(PanicInfo)`.

use std::panic::{catch_unwind, AssertUnwindSafe};
use std::sync::Mutex;

#[derive(Clone, Debug, PartialEq)]
pub struct PanicInfo {
    /// `src/...rs:LINE` (relative to /repo) or a std/dependency path
    pub site: String,
    pub msg: String,
}

static LAST_PANIC: Mutex<Option<PanicInfo>> = Mutex::new(None);

fn normalise_site(file: &str, line: u32) -> String {
    let f = file.strip_prefix("/repo/").unwrap_or(file);
    // library paths: keep only the tail after the registry / rustc prefix so that the site does
    // not depend on the local cargo home
    let f = if let Some(i) = f.find("/library/") {
        &f[i + 1..]
    } else if let Some(i) = f.find("/registry/src/") {
        let rest = &f[i + "/registry/src/".len()..];
        match rest.find('/') {
            Some(j) => &rest[j + 1..],
            None => rest,
        }
    } else {
        f
    };
    simcore::site::stable(f, line)
}

pub fn install_panic_hook() {
    std::panic::set_hook(Box::new(|info| {
        let site = info
            .location()
            .map(|l| normalise_site(l.file(), l.line()))
            .unwrap_or_else(|| "unknown".into());
        let msg = if let Some(s) = info.payload().downcast_ref::<&str>() {
            s.to_string()
        } else if let Some(s) = info.payload().downcast_ref::<String>() {
            s.clone()
        } else {
            String::new()
        };
        let mut msg: String = msg.chars().take(240).collect();
        // a panic raised inside std / a dependency (no #[track_caller] chain up to TurDB): name
        // the innermost TurDB frame instead, the library location goes into the message
        let mut site = site;
        if !site.starts_with("src/") && !is_harness_site(&site) {
            crate::trap::pause();
            // symbolising needs address space of its own: lift the soft RLIMIT_AS meanwhile
            let mut old = libc::rlimit { rlim_cur: 0, rlim_max: 0 };
            // SAFETY: plain getrlimit/setrlimit on our own process.
            unsafe {
                libc::getrlimit(libc::RLIMIT_AS, &mut old);
                let lifted = libc::rlimit { rlim_cur: old.rlim_max, rlim_max: old.rlim_max };
                libc::setrlimit(libc::RLIMIT_AS, &lifted);
            }
            let bt = std::backtrace::Backtrace::force_capture().to_string();
            // SAFETY: as above.
            unsafe {
                libc::setrlimit(libc::RLIMIT_AS, &old);
            }
            crate::trap::resume();
            let mut repo_frame: Option<String> = None;
            let mut harness_first = false;
            for line in bt.lines() {
                let l = line.trim();
                if let Some(rest) = l.strip_prefix("at ") {
                    if let Some(r) = rest.strip_prefix("/repo/") {
                        let parts: Vec<&str> = r.split(':').collect();
                        if parts.len() >= 2 {
                            repo_frame = Some(simcore::site::stable_from_str(&format!("{}:{}", parts[0], parts[1])));
                            break;
                        }
                    } else if rest.contains("corruptsim/src/") && !rest.contains("guard.rs") {
                        harness_first = true;
                        break;
                    }
                }
            }
            if let (Some(f), false) = (repo_frame, harness_first) {
                msg = format!("{} [raised at {}]", msg, site);
                site = f;
            }
        }
        // not "panicked at": the driver attributes that phrase to a dying child, these panics are caught
        eprintln!("caught panic at {}: {}", site, msg);
        if let Ok(mut g) = LAST_PANIC.lock() {
            *g = Some(PanicInfo { site, msg });
        }
    }));
}

pub fn guarded<T>(f: impl FnOnce() -> T) -> Result<T, PanicInfo> {
    match catch_unwind(AssertUnwindSafe(f)) {
        Ok(v) => Ok(v),
        Err(_) => Err(LAST_PANIC.lock().ok().and_then(|mut g| g.take()).unwrap_or(PanicInfo {
            site: "unknown".into(),
            msg: String::new(),
        })),
    }
}

/// True when the panic site lies in this harness (a harness bug, never a finding).
pub fn is_harness_site(site: &str) -> bool {
    site.starts_with("corruptsim/") || site.contains("/corruptsim/") || site.starts_with("simcore/") || site.starts_with("simdisk/")
}

/// Progress marker on the child's stderr (shows up in `process-died` / `hang` details).
pub fn mark(s: &str) {
    eprintln!("STEP {}", s);
}
