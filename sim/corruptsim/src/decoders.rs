//! Part (b): single stored objects. Valid encodings (harvested from a built database or produced
//! with TurDB's own builders/encoders) are corrupted with the stored-byte fault kinds and fed to
//! the public decoders, every call inside its own `catch_unwind`.

use crate::dbgen::{ColType, TableInfo};
use crate::faults::{self, gen_fault, hex, unhex, Fault, Target, PAGE, WAL_FRAME};
use crate::guard::{guarded, mark, PanicInfo};
use serde::{Deserialize, Serialize};
use serde_json::{json, Value};
use simcore::Rng;
use std::collections::BTreeMap;
use std::path::{Path, PathBuf};
use turdb::records::{ColumnDef, DataType, RecordBuilder, RecordView, Schema};

#[derive(Serialize, Deserialize, Clone, Debug, PartialEq)]
pub struct Item {
    pub decoder: String,
    /// valid encoding (hex)
    pub base: String,
    #[serde(default)]
    pub ctx: Value,
    pub faults: Vec<Fault>,
}

#[derive(Default, Debug)]
pub struct ItemResult {
    pub calls: u64,
    pub ok: u64,
    pub err: u64,
    /// distinct panic sites hit by this item: (call label, info)
    pub panics: Vec<(String, PanicInfo)>,
    pub noop_faults: u64,
}

struct St<'a> {
    r: &'a mut ItemResult,
}

impl<'a> St<'a> {
    /// Runs one decoder call; the closure returns `true` for a value / `false` for an error.
    fn call(&mut self, label: &str, f: impl FnOnce() -> bool) -> bool {
        self.r.calls += 1;
        crate::trap::set_where(label);
        // every decoder call gets its own CPU budget
        crate::trap::enter_step(crate::engine::step_timeout_s());
        match guarded(f) {
            Ok(true) => {
                self.r.ok += 1;
                true
            }
            Ok(false) => {
                self.r.err += 1;
                false
            }
            Err(p) => {
                if !self.r.panics.iter().any(|(_, q)| q.site == p.site) {
                    self.r.panics.push((label.to_string(), p));
                }
                false
            }
        }
    }
}

pub const DECODERS: &[&str] = &[
    "record",
    "simple_decoder",
    "key",
    "varint",
    "jsonb",
    "array",
    "composite",
    "catalog",
    "wal_segment",
    "wal_dir",
    "table_header",
    "index_header",
    "meta_header",
    "hnsw_header",
    "page_header",
    "trunk_header",
    "validate_page",
    "leaf",
    "leaf_mut",
    "interior",
    "interior_mut",
    "btree_file",
    "hnsw_page",
    "hnsw_node",
    "hnsw_file",
    "toast",
];

fn schema_of(ctx: &Value) -> (Vec<DataType>, Schema) {
    let codes: Vec<u8> = ctx["types"].as_array().map(|a| a.iter().map(|v| v.as_u64().unwrap_or(2) as u8).collect()).unwrap_or_default();
    let types: Vec<DataType> = codes.iter().map(|c| DataType::try_from(*c).unwrap_or(DataType::Int4)).collect();
    let cols: Vec<ColumnDef> = types.iter().enumerate().map(|(i, t)| ColumnDef::new(format!("c{}", i), *t)).collect();
    (types, Schema::new(cols))
}

fn keys_of(ctx: &Value) -> Vec<Vec<u8>> {
    let mut ks: Vec<Vec<u8>> = ctx["keys"].as_array().map(|a| a.iter().filter_map(|v| v.as_str().map(unhex)).collect()).unwrap_or_default();
    ks.push(vec![]);
    ks.push(vec![0u8; 8]);
    ks.push(vec![0xFF; 8]);
    ks.push(vec![0x16, 0, 0, 0, 0, 0, 0, 0, 5]);
    ks
}

/// Applies the item's faults to its base and runs the decoder.
pub fn run_item(item: &Item, scratch: &Path) -> ItemResult {
    let mut res = ItemResult::default();
    let mut data = unhex(&item.base);
    for f in &item.faults {
        if !f.apply(&mut data, None) {
            res.noop_faults += 1;
        }
    }
    mark(&format!("decoder={} len={}", item.decoder, data.len()));
    let mut st = St { r: &mut res };
    run_decoder(&item.decoder, &data, &item.ctx, scratch, &mut st);
    res
}

fn write_scratch(scratch: &Path, rel: &str, data: &[u8]) -> PathBuf {
    let p = scratch.join(rel);
    if let Some(d) = p.parent() {
        let _ = std::fs::create_dir_all(d);
    }
    let _ = std::fs::write(&p, data);
    p
}

fn run_decoder(name: &str, data: &[u8], ctx: &Value, scratch: &Path, st: &mut St) {
    match name {
        "record" => dec_record(data, ctx, st),
        "simple_decoder" => {
            use turdb::sql::decoder::{RecordDecoder, SimpleDecoder};
            let (types, _) = schema_of(ctx);
            let d = SimpleDecoder::new(types.clone());
            st.call("SimpleDecoder::decode", || d.decode(&[], data).is_ok());
            if types.len() > 1 {
                let d2 = SimpleDecoder::with_projections(types.clone(), vec![types.len() - 1, 0]);
                st.call("SimpleDecoder::decode(projection)", || d2.decode(&[], data).is_ok());
            }
        }
        "key" => {
            st.call("decode_key", || turdb::encoding::key::decode_key(data).is_ok());
            st.call("decode_key(sequence)", || {
                let mut off = 0usize;
                let mut n = 0;
                while off < data.len() && n < 64 {
                    match turdb::encoding::key::decode_key(&data[off..]) {
                        Ok((_, c)) if c > 0 => off += c,
                        _ => return false,
                    }
                    n += 1;
                }
                true
            });
        }
        "varint" => {
            st.call("decode_varint", || turdb::encoding::decode_varint(data).is_ok());
        }
        "jsonb" => dec_jsonb(data, st),
        "array" => dec_array(data, st),
        "composite" => {
            use turdb::records::CompositeView;
            let fc = ctx["fields"].as_u64().unwrap_or(3) as usize;
            for fcount in [fc, 64] {
                let v = match guarded(|| CompositeView::new(data, fcount)) {
                    Ok(Ok(v)) => v,
                    Ok(Err(_)) => {
                        st.r.calls += 1;
                        st.r.err += 1;
                        continue;
                    }
                    Err(p) => {
                        st.r.calls += 1;
                        st.r.panics.push(("CompositeView::new".into(), p));
                        continue;
                    }
                };
                for i in 0..fcount.min(10) {
                    st.call("CompositeView::is_null", || {
                        v.is_null(i);
                        true
                    });
                    st.call("CompositeView::get_field", || v.get_field(i).is_ok());
                    st.call("CompositeView::get_nested_composite", || v.get_nested_composite(i, 2).map(|n| n.get_field(0).is_ok()).unwrap_or(false));
                }
            }
        }
        "catalog" => {
            use turdb::schema::persistence::CatalogPersistence;
            use turdb::schema::Catalog;
            let p = write_scratch(scratch, "dec/turdb.catalog", data);
            let s2 = ctx["s2"].as_bool().unwrap_or(false);
            st.call("CatalogPersistence::load", || {
                let mut cat = Catalog::new();
                if s2 {
                    let _ = cat.create_schema("s2");
                }
                CatalogPersistence::load(&p, &mut cat).is_ok()
            });
            if data.len() > 128 {
                st.call("CatalogPersistence::deserialize", || {
                    let mut cat = Catalog::new();
                    if s2 {
                        let _ = cat.create_schema("s2");
                    }
                    CatalogPersistence::deserialize(&data[128..], &mut cat).is_ok()
                });
            }
            let _ = std::fs::remove_file(&p);
        }
        "wal_segment" => {
            use turdb::storage::WalSegment;
            let p = write_scratch(scratch, "dec/wseg/wal.000001", data);
            st.call("WalSegment::read_frame", || {
                let mut seg = match WalSegment::open(&p, 1) {
                    Ok(s) => s,
                    Err(_) => return false,
                };
                let mut n = 0;
                while n < 64 && seg.read_frame().is_ok() {
                    n += 1;
                }
                let _ = seg.reset_position();
                let mut m = 0;
                while m < 64 && seg.read_header_only().map(|h| (h.frame_type(), h.actual_file_id(), h.undo_table_id(), h.undo_txn_id())).is_ok() {
                    m += 1;
                }
                let _ = seg.reset_position();
                let mut buf = vec![0u8; WAL_FRAME];
                let mut k = 0;
                while k < 64 && seg.read_frame_into(&mut buf).is_ok() {
                    k += 1;
                }
                n > 0
            });
            let _ = std::fs::remove_file(&p);
        }
        "wal_dir" => {
            use turdb::storage::{MmapStorage, Wal};
            let dir = scratch.join("dec/wdir");
            let _ = std::fs::remove_dir_all(&dir);
            let p = write_scratch(scratch, "dec/wdir/wal.000001", data);
            let sp = scratch.join("dec/wdir_storage.tbd");
            let _ = std::fs::remove_file(&sp);
            let file_id = ctx["file_id"].as_u64().unwrap_or(0);
            st.call("Wal::open+recover", || {
                let wal = match Wal::open(&dir) {
                    Ok(w) => w,
                    Err(_) => return false,
                };
                let _ = wal.frame_count();
                let _ = wal.total_wal_size_bytes();
                let _ = wal.needs_checkpoint();
                for pg in 0..4u32 {
                    let _ = wal.read_page(file_id, pg);
                    let _ = wal.read_page(0, pg);
                }
                let mut stg = match MmapStorage::create(&sp, 2) {
                    Ok(s) => s,
                    Err(_) => return false,
                };
                let a = wal.recover_for_file(&mut stg, file_id).is_ok();
                let b = wal.recover(&mut stg).is_ok();
                a && b
            });
            let _ = std::fs::remove_file(&p);
            let _ = std::fs::remove_file(&sp);
        }
        "table_header" => {
            use turdb::storage::TableFileHeader;
            st.call("TableFileHeader::from_bytes", || match TableFileHeader::from_bytes(data) {
                Ok(h) => {
                    let _ = (h.table_id(), h.row_count(), h.root_page(), h.column_count(), h.first_free_page(), h.auto_increment(), h.rightmost_hint());
                    true
                }
                Err(_) => false,
            });
            let mut copy = data.to_vec();
            st.call("TableFileHeader::from_bytes_mut", || match TableFileHeader::from_bytes_mut(&mut copy) {
                Ok(h) => {
                    h.increment_row_count();
                    let _ = h.next_auto_increment();
                    true
                }
                Err(_) => false,
            });
        }
        "index_header" => {
            use turdb::storage::IndexFileHeader;
            st.call("IndexFileHeader::from_bytes", || match IndexFileHeader::from_bytes(data) {
                Ok(h) => {
                    let _ = (h.index_id(), h.table_id(), h.root_page(), h.key_column_count(), h.is_unique(), h.index_type());
                    true
                }
                Err(_) => false,
            });
        }
        "meta_header" => {
            use turdb::storage::MetaFileHeader;
            st.call("MetaFileHeader::from_bytes", || match MetaFileHeader::from_bytes(data) {
                Ok(h) => {
                    let _ = (h.version(), h.page_size(), h.schema_count(), h.default_schema_id(), h.next_table_id(), h.next_index_id(), h.flags());
                    true
                }
                Err(_) => false,
            });
        }
        "hnsw_header" => {
            use turdb::hnsw::storage::HnswFileHeader;
            st.call("HnswFileHeader::from_bytes", || match HnswFileHeader::from_bytes(data) {
                Ok(h) => {
                    let _ = (h.index_id(), h.table_id(), h.dimensions(), h.m(), h.m0(), h.ef_construction(), h.ef_search());
                    let _ = (h.distance_fn(), h.quantization(), h.entry_point(), h.max_level(), h.node_count(), h.vector_count(), h.first_free_page());
                    let _ = turdb::hnsw::HnswIndex::from_header(h);
                    true
                }
                Err(_) => false,
            });
        }
        "page_header" => {
            use turdb::storage::PageHeader;
            st.call("PageHeader::from_bytes", || match PageHeader::from_bytes(data) {
                Ok(h) => {
                    let _ = (h.page_type(), h.flags(), h.cell_count(), h.free_start(), h.free_end(), h.frag_bytes(), h.right_child(), h.next_leaf());
                    true
                }
                Err(_) => false,
            });
            st.call("PageHeader::free_space", || match PageHeader::from_bytes(data) {
                Ok(h) => {
                    let _ = h.free_space();
                    true
                }
                Err(_) => false,
            });
        }
        "trunk_header" => {
            use turdb::storage::TrunkHeader;
            st.call("TrunkHeader::from_bytes", || match TrunkHeader::from_bytes(data) {
                Ok(h) => {
                    let _ = (h.next_trunk(), h.count(), h.is_full(), h.is_empty());
                    true
                }
                Err(_) => false,
            });
        }
        "validate_page" => {
            st.call("validate_page", || turdb::storage::validate_page(data).is_ok());
        }
        "leaf" => dec_leaf(data, ctx, st),
        "leaf_mut" => dec_leaf_mut(data, ctx, st),
        "interior" => dec_interior(data, ctx, st),
        "interior_mut" => {
            use turdb::btree::InteriorNodeMut;
            let keys = keys_of(ctx);
            for (i, k) in keys.iter().enumerate().take(4) {
                let mut copy = data.to_vec();
                st.call("InteriorNodeMut::insert_separator", || match InteriorNodeMut::from_page(&mut copy) {
                    Ok(mut n) => {
                        let _ = (n.cell_count(), n.right_child(), n.free_space());
                        let _ = n.find_child(k);
                        n.insert_separator(k, 7 + i as u32).is_ok()
                    }
                    Err(_) => false,
                });
            }
            let mut copy = data.to_vec();
            st.call("InteriorNodeMut::update_child", || match InteriorNodeMut::from_page(&mut copy) {
                Ok(mut n) => {
                    let a = n.update_child(0, 3).is_ok();
                    let _ = n.key_at(0);
                    a
                }
                Err(_) => false,
            });
        }
        "btree_file" => dec_btree_file(data, ctx, scratch, st),
        "hnsw_page" => {
            use turdb::hnsw::storage::HnswPageRef;
            use turdb::hnsw::HnswNode;
            let v = match guarded(|| HnswPageRef::from_bytes(data)) {
                Ok(Ok(v)) => v,
                Ok(Err(_)) => {
                    st.r.calls += 1;
                    st.r.err += 1;
                    return;
                }
                Err(p) => {
                    st.r.calls += 1;
                    st.r.panics.push(("HnswPageRef::from_bytes".into(), p));
                    return;
                }
            };
            st.call("HnswPageRef::slot_count", || {
                let _ = (v.slot_count(), v.free_space(), v.can_fit(100));
                true
            });
            let n = guarded(|| v.slot_count()).unwrap_or(0).min(48);
            for i in 0..n.max(2) {
                st.call("HnswPageRef::get_slot", || v.get_slot(i).is_some());
                st.call("HnswPageRef::read_node_data", || match v.read_node_data(i) {
                    Ok(d) => HnswNode::read_from(d).is_ok(),
                    Err(_) => false,
                });
            }
        }
        "hnsw_node" => {
            use turdb::hnsw::HnswNode;
            st.call("HnswNode::read_from", || match HnswNode::read_from(data) {
                Ok(n) => {
                    let _ = (n.row_id(), n.max_level(), n.level0_neighbor_count(), n.level0_neighbors().len());
                    for l in 0..6u8 {
                        let _ = n.neighbors_at_level(l).len();
                    }
                    let mut out = vec![0u8; 2048];
                    let _ = n.write_to(&mut out);
                    true
                }
                Err(_) => false,
            });
        }
        "hnsw_file" => {
            use turdb::hnsw::search::HnswSearchContext;
            use turdb::hnsw::{NodeId, PersistentHnswIndex};
            let p = write_scratch(scratch, "dec/x.hnsw", data);
            let dim = ctx["dim"].as_u64().unwrap_or(4) as usize;
            st.call("PersistentHnswIndex::open", || {
                let ix = match PersistentHnswIndex::open(&p) {
                    Ok(i) => i,
                    Err(_) => return false,
                };
                let _ = (ix.index().dimensions(), ix.index().node_count(), ix.index().entry_point(), ix.index().max_level());
                true
            });
            st.call("PersistentHnswIndex::read_node", || {
                let ix = match PersistentHnswIndex::open(&p) {
                    Ok(i) => i,
                    Err(_) => return false,
                };
                let mut ok = true;
                for r in 0..6u64 {
                    if let Some(id) = ix.find_node_by_row_id(r) {
                        ok &= ix.read_node(id).is_ok();
                    }
                }
                for s in 0..4u16 {
                    ok &= ix.read_node(NodeId::new(1, s)).is_ok();
                }
                ok
            });
            let q: Vec<f32> = (0..dim).map(|i| i as f32 * 0.5).collect();
            st.call("PersistentHnswIndex::search", || {
                let ix = match PersistentHnswIndex::open(&p) {
                    Ok(i) => i,
                    Err(_) => return false,
                };
                let mut sc = HnswSearchContext::new(16, 4096);
                ix.search(&q, 3, &mut sc, |r| Some((0..dim).map(|i| (r as f32) + i as f32).collect())).is_ok()
            });
            st.call("PersistentHnswIndex::delete_by_row_id", || {
                let mut ix = match PersistentHnswIndex::open(&p) {
                    Ok(i) => i,
                    Err(_) => return false,
                };
                let a = ix.delete_by_row_id(1).is_ok();
                let b = ix.sync().is_ok();
                a && b
            });
            let _ = std::fs::write(&p, data);
            st.call("PersistentHnswIndex::insert", || {
                let mut ix = match PersistentHnswIndex::open(&p) {
                    Ok(i) => i,
                    Err(_) => return false,
                };
                let b = ix.insert(9999, &q, 0.3).is_ok();
                let _ = ix.sync();
                b
            });
            let _ = std::fs::remove_file(&p);
        }
        "toast" => {
            use turdb::storage::toast::{is_toast_pointer, parse_chunk_key, ToastPointer};
            st.call("ToastPointer::decode", || {
                let _ = is_toast_pointer(data);
                match ToastPointer::decode(data) {
                    Ok(p) => {
                        let _ = (p.row_id(), p.column_index(), p.encode());
                        true
                    }
                    Err(_) => false,
                }
            });
            st.call("parse_chunk_key", || parse_chunk_key(data).is_ok());
        }
        _ => {}
    }
}

fn dec_record(data: &[u8], ctx: &Value, st: &mut St) {
    let (types, schema) = schema_of(ctx);
    let v = match guarded(|| RecordView::new(data, &schema)) {
        Ok(Ok(v)) => v,
        Ok(Err(_)) => {
            st.r.calls += 1;
            st.r.err += 1;
            return;
        }
        Err(p) => {
            st.r.calls += 1;
            st.r.panics.push(("RecordView::new".into(), p));
            return;
        }
    };
    st.call("RecordView::header_len", || {
        let _ = (v.header_len(), v.data_offset());
        true
    });
    st.call("RecordView::null_bitmap", || {
        let _ = v.null_bitmap();
        true
    });
    st.call("RecordView::offset_table", || {
        let _ = v.offset_table();
        true
    });
    st.call("RecordView::record_column_count", || {
        let _ = v.record_column_count();
        true
    });
    for (i, t) in types.iter().enumerate() {
        st.call("RecordView::is_null", || {
            let _ = v.is_null(i);
            true
        });
        st.call("RecordView::is_null_or_missing", || {
            let _ = v.is_null_or_missing(i);
            true
        });
        // the way the executor reads a column: null check, then the typed getter
        let null = guarded(|| v.is_null(i)).unwrap_or(true);
        use DataType as T;
        macro_rules! g {
            ($label:expr, $e:expr) => {
                st.call($label, || $e.is_ok())
            };
        }
        match t {
            T::Bool => {
                g!("RecordView::get_bool_opt", v.get_bool_opt(i));
                if !null {
                    g!("RecordView::get_bool", v.get_bool(i));
                }
            }
            T::Int2 => {
                g!("RecordView::get_int2_opt", v.get_int2_opt(i));
                if !null {
                    g!("RecordView::get_int2", v.get_int2(i));
                }
            }
            T::Int4 => {
                g!("RecordView::get_int4_opt", v.get_int4_opt(i));
                if !null {
                    g!("RecordView::get_int4", v.get_int4(i));
                }
            }
            T::Int8 => {
                g!("RecordView::get_int8_opt", v.get_int8_opt(i));
                if !null {
                    g!("RecordView::get_int8", v.get_int8(i));
                }
            }
            T::Float4 => {
                g!("RecordView::get_float4_opt", v.get_float4_opt(i));
                if !null {
                    g!("RecordView::get_float4", v.get_float4(i));
                }
            }
            T::Float8 => {
                g!("RecordView::get_float8_opt", v.get_float8_opt(i));
                if !null {
                    g!("RecordView::get_float8", v.get_float8(i));
                }
            }
            T::Date => {
                g!("RecordView::get_date_opt", v.get_date_opt(i));
                if !null {
                    g!("RecordView::get_date", v.get_date(i));
                }
            }
            T::Time => {
                g!("RecordView::get_time_opt", v.get_time_opt(i));
                if !null {
                    g!("RecordView::get_time", v.get_time(i));
                }
            }
            T::Timestamp => {
                g!("RecordView::get_timestamp_opt", v.get_timestamp_opt(i));
                if !null {
                    g!("RecordView::get_timestamp", v.get_timestamp(i));
                }
            }
            T::TimestampTz => {
                g!("RecordView::get_timestamptz_opt", v.get_timestamptz_opt(i));
                if !null {
                    g!("RecordView::get_timestamptz", v.get_timestamptz(i));
                }
            }
            T::Uuid => {
                g!("RecordView::get_uuid_opt", v.get_uuid_opt(i));
                if !null {
                    g!("RecordView::get_uuid", v.get_uuid(i));
                }
            }
            T::MacAddr => {
                g!("RecordView::get_macaddr_opt", v.get_macaddr_opt(i));
                if !null {
                    g!("RecordView::get_macaddr", v.get_macaddr(i));
                }
            }
            T::Inet4 => {
                g!("RecordView::get_inet4_opt", v.get_inet4_opt(i));
                if !null {
                    g!("RecordView::get_inet4", v.get_inet4(i));
                }
            }
            T::Inet6 => {
                g!("RecordView::get_inet6_opt", v.get_inet6_opt(i));
                if !null {
                    g!("RecordView::get_inet6", v.get_inet6(i));
                }
            }
            T::Text | T::Varchar | T::Char => {
                g!("RecordView::get_var_bounds", v.get_var_bounds(i));
                g!("RecordView::get_text_opt", v.get_text_opt(i));
                if !null {
                    g!("RecordView::get_text", v.get_text(i));
                    g!("RecordView::get_var_raw", v.get_var_raw(i));
                }
            }
            T::Blob => {
                g!("RecordView::get_blob_opt", v.get_blob_opt(i));
                if !null {
                    g!("RecordView::get_blob", v.get_blob(i));
                }
            }
            T::Vector => {
                g!("RecordView::get_vector_opt", v.get_vector_opt(i));
                if !null {
                    g!("RecordView::get_vector", v.get_vector(i));
                    g!("RecordView::get_vector_copy", v.get_vector_copy(i));
                }
            }
            T::Jsonb => {
                g!("RecordView::get_jsonb_opt", v.get_jsonb_opt(i));
                if !null {
                    st.call("RecordView::get_jsonb", || match v.get_jsonb(i) {
                        Ok(j) => j.to_json_string().is_ok(),
                        Err(_) => false,
                    });
                }
            }
            T::Decimal => {
                g!("RecordView::get_decimal_opt", v.get_decimal_opt(i));
                if !null {
                    st.call("RecordView::get_decimal", || match v.get_decimal(i) {
                        Ok(d) => {
                            let _ = (d.is_negative(), d.scale(), d.digits());
                            true
                        }
                        Err(_) => false,
                    });
                }
            }
            T::Interval => {
                g!("RecordView::get_interval_opt", v.get_interval_opt(i));
                if !null {
                    g!("RecordView::get_interval", v.get_interval(i));
                }
            }
            T::Int4Range => {
                g!("RecordView::get_int4_range_opt", v.get_int4_range_opt(i));
                if !null {
                    g!("RecordView::get_int4_range", v.get_int4_range(i));
                }
            }
            T::Int8Range => {
                g!("RecordView::get_int8_range_opt", v.get_int8_range_opt(i));
                if !null {
                    g!("RecordView::get_int8_range", v.get_int8_range(i));
                }
            }
            T::DateRange => {
                g!("RecordView::get_date_range_opt", v.get_date_range_opt(i));
                if !null {
                    g!("RecordView::get_date_range", v.get_date_range(i));
                }
            }
            T::TimestampRange => {
                g!("RecordView::get_timestamp_range_opt", v.get_timestamp_range_opt(i));
                if !null {
                    g!("RecordView::get_timestamp_range", v.get_timestamp_range(i));
                }
            }
            T::Enum => {
                g!("RecordView::get_enum_opt", v.get_enum_opt(i));
                if !null {
                    g!("RecordView::get_enum", v.get_enum(i));
                }
            }
            T::Point => {
                g!("RecordView::get_point_opt", v.get_point_opt(i));
                if !null {
                    g!("RecordView::get_point", v.get_point(i));
                }
            }
            T::Box => {
                g!("RecordView::get_box_opt", v.get_box_opt(i));
                if !null {
                    g!("RecordView::get_box", v.get_box(i));
                }
            }
            T::Circle => {
                g!("RecordView::get_circle_opt", v.get_circle_opt(i));
                if !null {
                    g!("RecordView::get_circle", v.get_circle(i));
                }
            }
            T::Composite => {
                g!("RecordView::get_composite_opt", v.get_composite_opt(i, 2));
                if !null {
                    st.call("RecordView::get_composite", || match v.get_composite(i, 2) {
                        Ok(c) => c.get_field(0).is_ok(),
                        Err(_) => false,
                    });
                }
            }
            T::Array => {
                g!("RecordView::get_array_opt", v.get_array_opt(i));
                if !null {
                    st.call("RecordView::get_array", || match v.get_array(i) {
                        Ok(a) => {
                            let _ = a.len();
                            true
                        }
                        Err(_) => false,
                    });
                }
            }
        }
    }
}

fn dec_jsonb(data: &[u8], st: &mut St) {
    use turdb::records::JsonbView;
    let v = match guarded(|| JsonbView::new(data)) {
        Ok(Ok(v)) => v,
        Ok(Err(_)) => {
            st.r.calls += 1;
            st.r.err += 1;
            return;
        }
        Err(p) => {
            st.r.calls += 1;
            st.r.panics.push(("JsonbView::new".into(), p));
            return;
        }
    };
    st.call("JsonbView::root_type", || {
        let _ = (v.root_type(), v.entry_count(), v.data().len());
        true
    });
    st.call("JsonbView::as_value", || v.as_value().is_ok());
    st.call("JsonbView::get", || v.get("a").is_ok());
    st.call("JsonbView::get", || v.get("k3").is_ok());
    st.call("JsonbView::get", || v.get("zzzz").is_ok());
    st.call("JsonbView::get_path", || v.get_path(&["o", "a"]).is_ok());
    st.call("JsonbView::array_len", || v.array_len().is_ok());
    for i in [0usize, 1, 2, 7, 100000] {
        st.call("JsonbView::array_get", || v.array_get(i).is_ok());
    }
    st.call("JsonbView::object_len", || v.object_len().is_ok());
    st.call("JsonbView::iter_object", || match v.iter_object() {
        Ok(it) => it.take(256).all(|x| x.is_ok()),
        Err(_) => false,
    });
    st.call("JsonbView::iter_array", || match v.iter_array() {
        Ok(it) => it.take(256).all(|x| x.is_ok()),
        Err(_) => false,
    });
    st.call("JsonbView::to_json_string", || v.to_json_string().is_ok());
}

fn dec_array(data: &[u8], st: &mut St) {
    use turdb::records::ArrayView;
    let v = match guarded(|| ArrayView::new(data)) {
        Ok(Ok(v)) => v,
        Ok(Err(_)) => {
            st.r.calls += 1;
            st.r.err += 1;
            return;
        }
        Err(p) => {
            st.r.calls += 1;
            st.r.panics.push(("ArrayView::new".into(), p));
            return;
        }
    };
    st.call("ArrayView::elem_type", || {
        let _ = v.elem_type();
        true
    });
    st.call("ArrayView::len", || {
        let _ = (v.len(), v.is_empty(), v.ndims());
        true
    });
    let n = guarded(|| v.len()).unwrap_or(0);
    let mut idxs: Vec<usize> = (0..n.min(6)).collect();
    if n > 6 {
        idxs.push(n - 1);
        idxs.push(n / 2);
    }
    for i in idxs {
        st.call("ArrayView::is_null", || {
            let _ = v.is_null(i);
            true
        });
        st.call("ArrayView::get_int2", || v.get_int2(i).is_ok());
        st.call("ArrayView::get_int4", || v.get_int4(i).is_ok());
        st.call("ArrayView::get_int8", || v.get_int8(i).is_ok());
        st.call("ArrayView::get_float4", || v.get_float4(i).is_ok());
        st.call("ArrayView::get_float8", || v.get_float8(i).is_ok());
        st.call("ArrayView::get_bool", || v.get_bool(i).is_ok());
        st.call("ArrayView::get_text", || v.get_text(i).is_ok());
        st.call("ArrayView::get_blob", || v.get_blob(i).is_ok());
    }
}

fn dec_leaf(data: &[u8], ctx: &Value, st: &mut St) {
    use turdb::btree::LeafNode;
    let v = match guarded(|| LeafNode::from_page(data)) {
        Ok(Ok(v)) => v,
        Ok(Err(_)) => {
            st.r.calls += 1;
            st.r.err += 1;
            return;
        }
        Err(p) => {
            st.r.calls += 1;
            st.r.panics.push(("LeafNode::from_page".into(), p));
            return;
        }
    };
    st.call("LeafNode::cell_count", || {
        let _ = (v.cell_count(), v.next_leaf());
        true
    });
    st.call("LeafNode::free_space", || {
        let _ = v.free_space();
        true
    });
    let n = guarded(|| v.cell_count()).unwrap_or(0) as usize;
    let mut idxs: Vec<usize> = (0..n.min(24)).collect();
    if n > 24 {
        idxs.extend([n - 1, n / 2, n - 2]);
    }
    for i in idxs {
        st.call("LeafNode::slot_at", || v.slot_at(i).map(|s| (s.prefix_as_u32(), s.offset(), s.key_len())).is_ok());
        st.call("LeafNode::key_at", || v.key_at(i).is_ok());
        st.call("LeafNode::value_at", || v.value_at(i).is_ok());
        st.call("LeafNode::value_len_at", || v.value_len_at(i).is_ok());
    }
    for k in keys_of(ctx) {
        st.call("LeafNode::find_key", || {
            let _ = v.find_key(&k);
            true
        });
        st.call("LeafNode::find_key_simd", || {
            let _ = v.find_key_simd(&k);
            true
        });
        st.call("simd_prefix_search_scalar", || {
            let _ = turdb::btree::simd_scan::simd_prefix_search_scalar(data, u32::from_be_bytes(turdb::btree::extract_prefix(&k)), n);
            true
        });
    }
    st.call("LeafNode::batch_iterator", || {
        let _ = v.batch_iterator().take(70000).count();
        true
    });
    st.call("LeafNode::batch_iterator_from", || {
        let _ = v.batch_iterator_from(n / 2).take(70000).count();
        true
    });
    st.call("prefetch_slots", || {
        turdb::btree::prefetch_slots(data, n / 2, n);
        true
    });
}

fn dec_leaf_mut(data: &[u8], ctx: &Value, st: &mut St) {
    use turdb::btree::LeafNodeMut;
    let keys = keys_of(ctx);
    for (i, k) in keys.iter().enumerate().take(4) {
        let mut copy = data.to_vec();
        st.call("LeafNodeMut::insert_cell", || match LeafNodeMut::from_page(&mut copy) {
            Ok(mut n) => {
                let _ = (n.cell_count(), n.free_space());
                let _ = n.find_key(k);
                let r = n.insert_cell(k, &vec![0xAB; 20 + i * 40]).is_ok();
                let _ = n.key_at(0);
                let _ = n.value_at(0);
                r
            }
            Err(_) => false,
        });
    }
    for idx in [0usize, 1, 5] {
        let mut copy = data.to_vec();
        st.call("LeafNodeMut::delete_cell", || match LeafNodeMut::from_page(&mut copy) {
            Ok(mut n) => n.delete_cell(idx).is_ok(),
            Err(_) => false,
        });
        let mut copy = data.to_vec();
        st.call("LeafNodeMut::update_cell_value_in_place", || match LeafNodeMut::from_page(&mut copy) {
            Ok(mut n) => {
                let len = n.value_at(idx).map(|v| v.len()).unwrap_or(4);
                n.update_cell_value_in_place(idx, &vec![1u8; len.min(PAGE)]).is_ok()
            }
            Err(_) => false,
        });
        let mut copy = data.to_vec();
        st.call("LeafNodeMut::update_cell_value_shrink", || match LeafNodeMut::from_page(&mut copy) {
            Ok(mut n) => n.update_cell_value_shrink(idx, &[1u8; 3]).is_ok(),
            Err(_) => false,
        });
    }
    let mut copy = data.to_vec();
    st.call("LeafNodeMut::insert_at_end", || match LeafNodeMut::from_page(&mut copy) {
        Ok(mut n) => n.insert_at_end(&[0xFF; 9], &[7u8; 30]).is_ok(),
        Err(_) => false,
    });
    let mut copy = data.to_vec();
    st.call("LeafNodeMut::insert_cell_at", || match LeafNodeMut::from_page(&mut copy) {
        Ok(mut n) => n.insert_cell_at(&[0x00; 9], &[7u8; 30], 0).is_ok(),
        Err(_) => false,
    });
}

fn dec_interior(data: &[u8], ctx: &Value, st: &mut St) {
    use turdb::btree::InteriorNode;
    let v = match guarded(|| InteriorNode::from_page(data)) {
        Ok(Ok(v)) => v,
        Ok(Err(_)) => {
            st.r.calls += 1;
            st.r.err += 1;
            return;
        }
        Err(p) => {
            st.r.calls += 1;
            st.r.panics.push(("InteriorNode::from_page".into(), p));
            return;
        }
    };
    st.call("InteriorNode::cell_count", || {
        let _ = (v.cell_count(), v.right_child());
        true
    });
    let n = guarded(|| v.cell_count()).unwrap_or(0) as usize;
    let mut idxs: Vec<usize> = (0..n.min(24)).collect();
    if n > 24 {
        idxs.extend([n - 1, n / 2]);
    }
    for i in idxs {
        st.call("InteriorNode::slot_at", || v.slot_at(i).map(|s| (s.prefix_as_u32(), s.child_page(), s.offset(), s.key_len())).is_ok());
        st.call("InteriorNode::key_at", || v.key_at(i).is_ok());
    }
    for k in keys_of(ctx) {
        st.call("InteriorNode::find_child", || v.find_child(&k).is_ok());
    }
}

fn dec_btree_file(data: &[u8], ctx: &Value, scratch: &Path, st: &mut St) {
    use turdb::btree::{BTree, BTreeReader};
    use turdb::storage::MmapStorage;
    let p = write_scratch(scratch, "dec/bt.tbd", data);
    let keys = keys_of(ctx);
    // root page as the database reads it: from the file header
    let root = if data.len() >= 128 {
        if ctx["index"].as_bool().unwrap_or(false) {
            guarded(|| turdb::storage::IndexFileHeader::from_bytes(&data[..128]).map(|h| h.root_page()).unwrap_or(1)).unwrap_or(1)
        } else {
            guarded(|| turdb::storage::TableFileHeader::from_bytes(&data[..128]).map(|h| h.root_page()).unwrap_or(1)).unwrap_or(1)
        }
    } else {
        1
    };
    const CAP: usize = 4000;
    // readers share one mapping
    let stg = match guarded(|| MmapStorage::open(&p)) {
        Ok(Ok(s)) => Some(s),
        Ok(Err(_)) => {
            st.r.calls += 1;
            st.r.err += 1;
            None
        }
        Err(pi) => {
            st.r.calls += 1;
            st.r.panics.push(("MmapStorage::open".into(), pi));
            None
        }
    };
    if let Some(stg) = &stg {
        st.call("BTreeReader::cursor_first+advance", || {
            let rd = match BTreeReader::new(stg, root) {
                Ok(r) => r,
                Err(_) => return false,
            };
            let mut c = match rd.cursor_first() {
                Ok(c) => c,
                Err(_) => return false,
            };
            let mut n = 0;
            while c.valid() && n < CAP {
                if c.key().is_err() || c.value().is_err() {
                    return false;
                }
                match c.advance() {
                    Ok(true) => {}
                    Ok(false) => break,
                    Err(_) => return false,
                }
                n += 1;
            }
            true
        });
        st.call("BTreeReader::cursor_last+prev", || {
            let rd = match BTreeReader::new(stg, root) {
                Ok(r) => r,
                Err(_) => return false,
            };
            let mut c = match rd.cursor_last() {
                Ok(c) => c,
                Err(_) => return false,
            };
            let mut n = 0;
            while c.valid() && n < CAP {
                if c.key().is_err() || c.value().is_err() {
                    return false;
                }
                match c.prev() {
                    Ok(true) => {}
                    Ok(false) => break,
                    Err(_) => return false,
                }
                n += 1;
            }
            true
        });
        for k in keys.iter().take(5) {
            st.call("BTreeReader::get", || match BTreeReader::new(stg, root) {
                Ok(rd) => rd.get(k).is_ok(),
                Err(_) => false,
            });
            st.call("BTreeReader::cursor_seek", || match BTreeReader::new(stg, root) {
                Ok(rd) => rd.cursor_seek(k).map(|c| c.valid()).is_ok(),
                Err(_) => false,
            });
        }
    }
    drop(stg);
    // writers: each on the corrupted image as stored (the file is rewritten when a writer changed it)
    for (i, k) in keys.iter().enumerate().take(3) {
        st.call("BTree::insert", || {
            let mut stg = match MmapStorage::open(&p) {
                Ok(s) => s,
                Err(_) => return false,
            };
            match BTree::new(&mut stg, root) {
                Ok(mut t) => {
                    let _ = t.search(k);
                    t.insert(k, &vec![0x5A; 30 + 500 * i]).is_ok()
                }
                Err(_) => false,
            }
        });
        let _ = std::fs::write(&p, data);
        st.call("BTree::update", || {
            let mut stg = match MmapStorage::open(&p) {
                Ok(s) => s,
                Err(_) => return false,
            };
            match BTree::new(&mut stg, root) {
                Ok(mut t) => t.update(k, &[1, 2, 3]).is_ok(),
                Err(_) => false,
            }
        });
        st.call("BTree::delete", || {
            let mut stg = match MmapStorage::open(&p) {
                Ok(s) => s,
                Err(_) => return false,
            };
            match BTree::new(&mut stg, root) {
                Ok(mut t) => t.delete(k).is_ok(),
                Err(_) => false,
            }
        });
        let _ = std::fs::write(&p, data);
    }
    let _ = std::fs::remove_file(&p);
}

// ---------------------------------------------------------------------------------------------
// valid encodings: harvested from a built database, or produced by TurDB's own builders
// ---------------------------------------------------------------------------------------------

fn dt_code(t: ColType) -> u8 {
    match t {
        ColType::Int => 2,
        ColType::BigInt => 3,
        ColType::Text => 20,
        ColType::Double => 5,
        ColType::Bool => 0,
        ColType::Blob => 21,
    }
}

#[derive(Default)]
pub struct Harvest {
    pub leaf_pages: Vec<(Vec<u8>, Vec<Vec<u8>>)>,
    pub interior_pages: Vec<(Vec<u8>, Vec<Vec<u8>>)>,
    pub records: Vec<(Vec<u8>, Vec<u8>)>,
    pub index_keys: Vec<Vec<u8>>,
    pub catalog: Option<Vec<u8>>,
    pub has_s2: bool,
    pub wal_segment: Option<Vec<u8>>,
    pub wal_file_id: u64,
    pub table_header: Option<Vec<u8>>,
    pub index_header: Option<Vec<u8>>,
    pub meta_header: Option<Vec<u8>>,
    /// (is_index, bytes, sample keys)
    pub small_files: Vec<(bool, Vec<u8>, Vec<Vec<u8>>)>,
    pub toast_pointers: Vec<Vec<u8>>,
}

fn rd16(b: &[u8], o: usize) -> usize {
    if o + 2 <= b.len() {
        u16::from_le_bytes([b[o], b[o + 1]]) as usize
    } else {
        0
    }
}

/// Reads the (key, value) cells of a valid leaf page with bounds checks (harness-side parser).
fn leaf_cells(p: &[u8]) -> Vec<(Vec<u8>, Vec<u8>)> {
    let mut out = vec![];
    if p.len() != PAGE || p[0] != 0x02 {
        return out;
    }
    let n = rd16(p, 2);
    for i in 0..n {
        let so = 24 + i * 8;
        if so + 8 > PAGE {
            break;
        }
        let co = rd16(p, so + 4);
        let kl = rd16(p, so + 6);
        if co + kl >= PAGE {
            continue;
        }
        let key = p[co..co + kl].to_vec();
        let vo = co + kl;
        let (vl, vs) = match turdb::encoding::decode_varint(&p[vo..]) {
            Ok(x) => x,
            Err(_) => continue,
        };
        let s = vo + vs;
        let e = s + vl as usize;
        if e > PAGE {
            continue;
        }
        out.push((key, p[s..e].to_vec()));
    }
    out
}

fn interior_keys(p: &[u8]) -> Vec<Vec<u8>> {
    let mut out = vec![];
    if p.len() != PAGE || p[0] != 0x01 {
        return out;
    }
    let n = rd16(p, 2);
    for i in 0..n.min(64) {
        let so = 16 + i * 12;
        if so + 12 > PAGE {
            break;
        }
        let co = rd16(p, so + 8);
        let kl = rd16(p, so + 10);
        if co + kl <= PAGE {
            out.push(p[co..co + kl].to_vec());
        }
    }
    out
}

pub fn harvest(dbdir: &Path, tables: &[TableInfo]) -> Harvest {
    let mut h = Harvest::default();
    for rel in crate::dbgen::list_files(dbdir) {
        let bytes = match std::fs::read(dbdir.join(&rel)) {
            Ok(b) => b,
            Err(_) => continue,
        };
        let role = faults::role_of(&rel);
        match role {
            "catalog" => h.catalog = Some(bytes),
            "meta" => h.meta_header = Some(bytes[..bytes.len().min(128)].to_vec()),
            "wal" => {
                if bytes.len() >= WAL_FRAME && h.wal_segment.is_none() {
                    let frames = (bytes.len() / WAL_FRAME).min(3);
                    // keep a torn tail if there is one
                    let keep = (frames * WAL_FRAME + 40).min(bytes.len());
                    h.wal_file_id = u64::from_le_bytes(bytes[0..8].try_into().unwrap_or([0; 8]));
                    h.wal_segment = Some(bytes[..keep].to_vec());
                }
            }
            "table" | "index" | "toast" | "systable" => {
                if bytes.len() < 2 * PAGE || bytes.len() % PAGE != 0 {
                    continue;
                }
                if role == "index" && h.index_header.is_none() {
                    h.index_header = Some(bytes[..128].to_vec());
                }
                if role == "table" && h.table_header.is_none() {
                    h.table_header = Some(bytes[..128].to_vec());
                }
                let tinfo = if role == "table" {
                    tables.iter().find(|t| rel == format!("{}/{}.tbd", t.schema, t.name))
                } else {
                    None
                };
                let mut file_keys: Vec<Vec<u8>> = vec![];
                for pg in 1..bytes.len() / PAGE {
                    let p = &bytes[pg * PAGE..(pg + 1) * PAGE];
                    match p[0] {
                        0x02 => {
                            let cells = leaf_cells(p);
                            let keys: Vec<Vec<u8>> = cells.iter().take(6).map(|c| c.0.clone()).collect();
                            file_keys.extend(keys.iter().take(2).cloned());
                            if h.leaf_pages.len() < 24 && !cells.is_empty() {
                                h.leaf_pages.push((p.to_vec(), keys));
                            }
                            if role == "index" {
                                for c in cells.iter().take(8) {
                                    if h.index_keys.len() < 64 {
                                        h.index_keys.push(c.0.clone());
                                    }
                                }
                            }
                            if let Some(t) = tinfo {
                                let types: Vec<u8> = t.cols.iter().map(|c| dt_code(c.1)).collect();
                                for c in cells.iter().take(12) {
                                    if c.1.len() > 17 && h.records.len() < 64 {
                                        h.records.push((types.clone(), c.1[17..].to_vec()));
                                    }
                                    // toast pointers inside the record: 0xFE marker + 16 bytes
                                    if let Some(pos) = c.1.iter().position(|b| *b == 0xFE) {
                                        if pos + 17 <= c.1.len() && h.toast_pointers.len() < 8 {
                                            h.toast_pointers.push(c.1[pos..pos + 17].to_vec());
                                        }
                                    }
                                }
                            }
                        }
                        0x01 => {
                            let keys = interior_keys(p);
                            if h.interior_pages.len() < 12 {
                                h.interior_pages.push((p.to_vec(), keys.into_iter().take(6).collect()));
                            }
                        }
                        _ => {}
                    }
                }
                if bytes.len() <= 8 * PAGE && h.small_files.len() < 10 {
                    file_keys.truncate(4);
                    h.small_files.push((role == "index", bytes.clone(), file_keys));
                }
            }
            _ => {}
        }
    }
    h.has_s2 = tables.iter().any(|t| t.schema == "s2");
    h
}

const ALL_TYPES: &[u8] = &[0, 1, 2, 3, 4, 5, 6, 7, 8, 9, 10, 11, 12, 13, 20, 21, 22, 23, 24, 25, 30, 31, 40, 41, 42, 43, 50, 60, 61, 62, 70, 71];

fn synth_jsonb_value(rng: &mut Rng, depth: u32) -> turdb::records::JsonbBuilderValue {
    use turdb::records::JsonbBuilderValue as V;
    match rng.below(if depth >= 3 { 4 } else { 6 }) {
        0 => V::Null,
        1 => V::Bool(rng.chance(1, 2)),
        2 => V::Number(rng.range(-1000, 1000) as f64 / 4.0),
        3 => V::String("s".repeat(rng.below(12) as usize)),
        4 => V::Array((0..rng.below(4)).map(|_| synth_jsonb_value(rng, depth + 1)).collect()),
        _ => V::Object((0..rng.below(4)).map(|i| (format!("k{}", i), synth_jsonb_value(rng, depth + 1))).collect()),
    }
}

pub fn synth_jsonb(rng: &mut Rng) -> Vec<u8> {
    use turdb::records::JsonbBuilder;
    match rng.below(6) {
        0 => JsonbBuilder::new_string("hello world").build(),
        1 => JsonbBuilder::new_number(12.5).build(),
        2 => {
            let mut b = JsonbBuilder::new_array();
            for _ in 0..rng.below(6) {
                b.push(synth_jsonb_value(rng, 1));
            }
            b.build()
        }
        _ => {
            let mut b = JsonbBuilder::new_object();
            b.set("a", synth_jsonb_value(rng, 1));
            b.set("o", turdb::records::JsonbBuilderValue::Object(vec![("a".to_string(), synth_jsonb_value(rng, 2))]));
            for i in 0..rng.below(5) {
                b.set(format!("k{}", i), synth_jsonb_value(rng, 1));
            }
            b.build()
        }
    }
}

pub fn synth_array(rng: &mut Rng) -> Vec<u8> {
    use turdb::records::ArrayBuilder;
    let n = rng.below(9);
    match rng.below(6) {
        0 => {
            let mut b = ArrayBuilder::new(DataType::Int4);
            for i in 0..n {
                if rng.chance(1, 6) {
                    b.push_null();
                } else {
                    b.push_int4(i as i32 * 3);
                }
            }
            b.build()
        }
        1 => {
            let mut b = ArrayBuilder::new(DataType::Int8);
            for i in 0..n {
                b.push_int8(i as i64 - 4);
            }
            b.build()
        }
        2 => {
            let mut b = ArrayBuilder::new(DataType::Float8);
            for i in 0..n {
                b.push_float8(i as f64 * 0.5);
            }
            b.build()
        }
        3 => {
            let mut b = ArrayBuilder::new(DataType::Bool);
            for i in 0..n {
                b.push_bool(i % 2 == 0);
            }
            b.build()
        }
        4 => {
            let mut b = ArrayBuilder::new(DataType::Blob);
            for i in 0..n {
                b.push_blob(&vec![i as u8; i as usize]);
            }
            b.build()
        }
        _ => {
            let mut b = ArrayBuilder::new(DataType::Text);
            for i in 0..n {
                if rng.chance(1, 6) {
                    b.push_null();
                } else {
                    b.push_text(&"x".repeat(i as usize + 1));
                }
            }
            b.build()
        }
    }
}

fn synth_composite(rng: &mut Rng, fields: usize) -> Vec<u8> {
    // header_len u16 | null bitmap | payload
    let bm = fields.div_ceil(8);
    let mut v = vec![];
    v.extend(((2 + bm) as u16).to_le_bytes());
    for _ in 0..bm {
        v.push(if rng.chance(1, 4) { 0x02 } else { 0 });
    }
    let n = 4 + rng.below(24) as usize;
    let mut payload = vec![0u8; n];
    rng.fill_bytes(&mut payload);
    v.extend(payload);
    v
}

pub fn synth_record(rng: &mut Rng) -> Option<(Vec<u8>, Vec<u8>)> {
    let ncols = 1 + rng.usize_below(9);
    let types: Vec<u8> = (0..ncols).map(|_| *rng.pick(ALL_TYPES)).collect();
    let dts: Vec<DataType> = types.iter().map(|c| DataType::try_from(*c).unwrap_or(DataType::Int4)).collect();
    let schema = Schema::new(dts.iter().enumerate().map(|(i, t)| ColumnDef::new(format!("c{}", i), *t)).collect());
    let jb = synth_jsonb(rng);
    let ab = synth_array(rng);
    let cb = synth_composite(rng, 2);
    let mut seeds: Vec<u64> = (0..ncols).map(|_| rng.next_u64()).collect();
    let nulls: Vec<bool> = (0..ncols).map(|_| rng.chance(1, 8)).collect();
    let out = guarded(|| -> eyre::Result<Vec<u8>> {
        let mut b = RecordBuilder::new(&schema);
        for (i, t) in dts.iter().enumerate() {
            if nulls[i] {
                b.set_null(i);
                continue;
            }
            let s = seeds[i];
            use DataType as T;
            match t {
                T::Bool => b.set_bool(i, s & 1 == 1)?,
                T::Int2 => b.set_int2(i, s as i16)?,
                T::Int4 => b.set_int4(i, s as i32)?,
                T::Int8 => b.set_int8(i, s as i64)?,
                T::Float4 => b.set_float4(i, (s % 1000) as f32 / 8.0)?,
                T::Float8 => b.set_float8(i, (s % 100000) as f64 / 16.0)?,
                T::Date => b.set_date(i, (s % 40000) as i32)?,
                T::Time => b.set_time(i, (s % 86_400_000_000) as i64)?,
                T::Timestamp => b.set_timestamp(i, (s >> 8) as i64)?,
                T::TimestampTz => b.set_timestamptz(i, (s >> 8) as i64, 3600)?,
                T::Uuid => b.set_uuid(i, &[(s & 0xFF) as u8; 16])?,
                T::MacAddr => b.set_macaddr(i, &[(s & 0xFF) as u8; 6])?,
                T::Inet4 => b.set_inet4(i, &[10, 0, 0, (s & 0xFF) as u8])?,
                T::Inet6 => b.set_inet6(i, &[(s & 0xFF) as u8; 16])?,
                T::Text => b.set_text(i, &"t".repeat((s % 40) as usize))?,
                T::Varchar => b.set_varchar(i, &"v".repeat((s % 20) as usize))?,
                T::Char => b.set_char(i, &"c".repeat((s % 10) as usize))?,
                T::Blob => b.set_blob(i, &vec![(s & 0xFF) as u8; (s % 50) as usize])?,
                T::Vector => b.set_vector(i, &vec![0.5f32; (s % 9) as usize])?,
                T::Jsonb => b.set_jsonb_bytes(i, &jb)?,
                T::Decimal => b.set_decimal(i, (s % 1_000_000) as i128, 2, s & 1 == 1)?,
                T::Interval => b.set_interval(i, (s % 1_000_000) as i64, 3, 2)?,
                T::Int4Range => b.set_int4_range(i, Some(1), Some((s % 1000) as i32 + 1), true, false)?,
                T::Int8Range => b.set_int8_range(i, None, Some((s % 1000) as i64), false, true)?,
                T::DateRange => b.set_date_range(i, Some(10), Some(20), true, false)?,
                T::TimestampRange => b.set_timestamp_range(i, Some(10), None, true, false)?,
                T::Enum => b.set_enum(i, 3, (s % 7) as u16)?,
                T::Point => b.set_point(i, 1.5, -2.5)?,
                T::Box => b.set_box(i, (0.0, 0.0), (2.0, 3.0))?,
                T::Circle => b.set_circle(i, (1.0, 1.0), 4.0)?,
                T::Composite => b.set_composite(i, &cb)?,
                T::Array => b.set_array(i, &ab)?,
            }
        }
        b.build()
    });
    seeds.clear();
    match out {
        Ok(Ok(bytes)) => Some((types, bytes)),
        _ => None,
    }
}

pub fn synth_key(rng: &mut Rng) -> Vec<u8> {
    use turdb::encoding::key::*;
    let mut buf: Vec<u8> = vec![];
    let n = 1 + rng.below(3);
    for _ in 0..n {
        match rng.below(22) {
            0 => encode_null(&mut buf),
            1 => encode_bool(rng.chance(1, 2), &mut buf),
            2 => encode_int(rng.range(-1_000_000, 1_000_000), &mut buf),
            3 => encode_int(0, &mut buf),
            4 => encode_float(rng.range(-1000, 1000) as f64 / 8.0, &mut buf),
            5 => encode_text(&"ab\0c".repeat(rng.below(5) as usize), &mut buf),
            6 => encode_blob(&[0, 0xFF, 1, 0, 0xFF, 0xFF][..rng.below(7) as usize], &mut buf),
            7 => encode_date(rng.range(-1000, 40000) as i32, &mut buf),
            8 => encode_timestamp(rng.range(-1, 1 << 50), &mut buf),
            9 => encode_uuid(&[7u8; 16], &mut buf),
            10 => encode_time(rng.range(0, 86_400_000_000), &mut buf),
            11 => encode_timestamptz(rng.range(0, 1 << 50), 120, &mut buf),
            12 => encode_interval(3, 4, 5_000_000, &mut buf),
            13 => encode_inet(rng.chance(1, 2), &[1u8; 16], 24, &mut buf),
            14 => encode_macaddr(&[1, 2, 3, 4, 5, 6], &mut buf),
            15 => encode_tuple(&[1i64, -5, 0], &mut buf, |e, b| encode_int(*e, b)),
            16 => encode_range(Some(&1i64), if rng.chance(1, 2) { Some(&9i64) } else { None }, true, false, &mut buf, |e, b| encode_int(*e, b)),
            17 => encode_domain(77, &5i64, &mut buf, |e, b| encode_int(*e, b)),
            18 => encode_vector(&[1.0, -2.5, 0.0][..rng.below(4) as usize], &mut buf),
            19 => encode_array(&["a", "bc"], &mut buf, |e, b| encode_text(e, b)),
            20 => {
                encode_enum(4, 2, &mut buf);
                encode_composite(9, &[1i64, 2], &mut buf, |e, b| encode_int(*e, b));
            }
            _ => {
                let inner = [JsonValue::Number(1.5), JsonValue::String("x"), JsonValue::Null, JsonValue::Bool(true)];
                let obj = [("k", JsonValue::Array(&inner)), ("z", JsonValue::Bool(false))];
                encode_json(&JsonValue::Object(&obj), &mut buf);
            }
        }
    }
    buf
}

pub fn synth_varint(rng: &mut Rng) -> Vec<u8> {
    let v = match rng.below(7) {
        0 => rng.below(241),
        1 => 241 + rng.below(2047),
        2 => 2288 + rng.below(65536),
        3 => 67824 + rng.below(1 << 23),
        4 => (1 << 24) + rng.below(1 << 31),
        5 => u64::MAX - rng.below(10),
        _ => rng.next_u64(),
    };
    let mut b = [0u8; 9];
    let n = turdb::encoding::encode_varint(v, &mut b);
    b[..n].to_vec()
}

/// CRC-64/ECMA-182 over the frame header fields and the page, as `storage::wal` computes it
/// (its `compute_checksum` is not exported).
fn wal_checksum(h: &turdb::storage::WalFrameHeader, page: &[u8]) -> u64 {
    fn upd(mut crc: u64, data: &[u8]) -> u64 {
        for b in data {
            crc ^= (*b as u64) << 56;
            for _ in 0..8 {
                crc = if crc & (1 << 63) != 0 { (crc << 1) ^ 0x42F0_E1EB_A9EA_3693 } else { crc << 1 };
            }
        }
        crc
    }
    let mut c = 0u64;
    c = upd(c, &h.file_id.to_le_bytes());
    c = upd(c, &h.page_no.to_le_bytes());
    c = upd(c, &h.db_size.to_le_bytes());
    c = upd(c, &h.salt1.to_le_bytes());
    c = upd(c, &h.salt2.to_le_bytes());
    upd(c, page)
}

fn synth_wal_segment(rng: &mut Rng, scratch: &Path) -> Option<Vec<u8>> {
    use turdb::storage::{WalFrameHeader, WalSegment};
    let p = scratch.join("dec/synth/wal.000001");
    let _ = std::fs::create_dir_all(p.parent()?);
    let nframes = 1 + rng.below(3);
    let pages: Vec<Vec<u8>> = (0..nframes)
        .map(|i| {
            let mut pg = vec![0u8; PAGE];
            pg[0] = 0x02;
            pg[4] = 24;
            pg[6] = 0x00;
            pg[7] = 0x40;
            pg[100] = i as u8 + 1;
            pg
        })
        .collect();
    let r = guarded(|| -> eyre::Result<()> {
        let mut seg = WalSegment::create(&p, 1)?;
        for (i, pg) in pages.iter().enumerate() {
            let mut h = WalFrameHeader::new_with_file_id(1 + i as u32, 4, 0x1111, 0x2222, 0, 3);
            h.checksum = wal_checksum(&h, pg);
            seg.write_frame_with_sync(&h, pg, false)?;
        }
        seg.sync_to_disk()?;
        Ok(())
    });
    match r {
        Ok(Ok(())) => std::fs::read(&p).ok(),
        _ => None,
    }
}

fn synth_hnsw_file(rng: &mut Rng, scratch: &Path) -> Option<(Vec<u8>, usize)> {
    use turdb::hnsw::{DistanceFunction, PersistentHnswIndex, QuantizationType};
    let p = scratch.join("dec/synth/base.hnsw");
    let _ = std::fs::create_dir_all(p.parent()?);
    let _ = std::fs::remove_file(&p);
    let dim = 2 + rng.usize_below(5);
    let n = 3 + rng.below(30);
    let vecs: Vec<Vec<f32>> = (0..n).map(|_| (0..dim).map(|_| rng.range(-100, 100) as f32 / 10.0).collect()).collect();
    let rnd: Vec<f64> = (0..n).map(|_| (rng.below(1000) as f64 + 1.0) / 1001.0).collect();
    let r = guarded(|| -> eyre::Result<()> {
        let mut ix = PersistentHnswIndex::create(&p, 5, 3, dim as u16, 8, 32, 16, DistanceFunction::L2, QuantizationType::None)?;
        for (i, v) in vecs.iter().enumerate() {
            ix.insert(i as u64 + 1, v, rnd[i])?;
        }
        ix.sync()?;
        Ok(())
    });
    match r {
        Ok(Ok(())) => std::fs::read(&p).ok().filter(|b| b.len() <= 8 * PAGE).map(|b| (b, dim)),
        _ => None,
    }
}

fn synth_hnsw_node(rng: &mut Rng) -> Vec<u8> {
    use turdb::hnsw::{HnswNode, NodeId};
    let lvl = rng.below(4) as u8;
    let mut n = HnswNode::new(rng.below(1000), lvl);
    for i in 0..rng.below(12) {
        n.add_level0_neighbor(NodeId::new(1 + i as u32, i as u16));
    }
    for l in 1..=lvl {
        for i in 0..rng.below(5) {
            n.add_neighbor_at_level(l, NodeId::new(2, i as u16));
        }
    }
    let mut buf = vec![0u8; HnswNode::max_serialized_size(lvl) + 16];
    let len = guarded(|| n.write_to(&mut buf)).unwrap_or(10);
    buf.truncate(len.max(10));
    buf
}

fn small_targets(len: usize) -> Vec<Target> {
    (0..len.min(24)).map(|o| (o, 1usize, "head")).collect()
}

/// Draws `n` items: decoder by weight, a valid base, 1-3 faults.
pub fn gen_items(rng: &mut Rng, h: &Harvest, scratch: &Path, n: usize) -> Vec<Item> {
    let mut items = vec![];
    // expensive bases once per run
    let hnsw = synth_hnsw_file(rng, scratch);
    let wal_synth = synth_wal_segment(rng, scratch);
    let weights: BTreeMap<&str, u32> = [
        ("record", 14),
        ("simple_decoder", 10),
        ("key", 10),
        ("varint", 3),
        ("jsonb", 9),
        ("array", 8),
        ("composite", 3),
        ("catalog", 8),
        ("wal_segment", 3),
        ("wal_dir", 3),
        ("table_header", 2),
        ("index_header", 2),
        ("meta_header", 2),
        ("hnsw_header", 2),
        ("page_header", 2),
        ("trunk_header", 1),
        ("validate_page", 2),
        ("leaf", 12),
        ("leaf_mut", 7),
        ("interior", 7),
        ("interior_mut", 4),
        ("btree_file", 8),
        ("hnsw_page", 4),
        ("hnsw_node", 3),
        ("hnsw_file", 4),
        ("toast", 2),
    ]
    .into_iter()
    .collect();
    let names: Vec<&str> = DECODERS.to_vec();
    let ws: Vec<u32> = names.iter().map(|n| *weights.get(n).unwrap_or(&1)).collect();
    let mut guard_iter = 0;
    while items.len() < n && guard_iter < n * 4 {
        guard_iter += 1;
        let name = names[rng.weighted(&ws)];
        let mut ctx = json!({});
        let mut targets: Vec<Target> = vec![];
        let mut paged = false;
        let mut is_wal = false;
        let base: Vec<u8> = match name {
            "record" | "simple_decoder" => {
                let rec = if !h.records.is_empty() && rng.chance(1, 2) { Some(h.records[rng.usize_below(h.records.len())].clone()) } else { synth_record(rng) };
                match rec {
                    Some((types, bytes)) => {
                        ctx = json!({ "types": types });
                        targets = small_targets(bytes.len());
                        bytes
                    }
                    None => continue,
                }
            }
            "key" => {
                let b = if !h.index_keys.is_empty() && rng.chance(1, 3) { h.index_keys[rng.usize_below(h.index_keys.len())].clone() } else { synth_key(rng) };
                targets = small_targets(b.len());
                b
            }
            "varint" => synth_varint(rng),
            "jsonb" => {
                let b = synth_jsonb(rng);
                targets = small_targets(b.len());
                b
            }
            "array" => {
                let b = synth_array(rng);
                targets = small_targets(b.len());
                b
            }
            "composite" => {
                let f = 1 + rng.usize_below(12);
                ctx = json!({ "fields": f });
                let b = synth_composite(rng, f);
                targets = small_targets(b.len());
                b
            }
            "catalog" => match &h.catalog {
                Some(c) => {
                    ctx = json!({ "s2": h.has_s2 });
                    targets = faults::file_targets(c, "catalog");
                    c.clone()
                }
                None => continue,
            },
            "wal_segment" | "wal_dir" => {
                let src = if h.wal_segment.is_some() && rng.chance(2, 3) { h.wal_segment.clone() } else { wal_synth.clone().or(h.wal_segment.clone()) };
                match src {
                    Some(b) => {
                        let fid = u64::from_le_bytes(b[0..8].try_into().unwrap_or([0; 8]));
                        ctx = json!({ "file_id": fid });
                        targets = faults::file_targets(&b, "wal");
                        is_wal = true;
                        b
                    }
                    None => continue,
                }
            }
            "table_header" => match &h.table_header {
                Some(b) => {
                    targets = (0..16).map(|i| (i * 4, 4usize, "hdr")).collect();
                    b.clone()
                }
                None => continue,
            },
            "index_header" => match &h.index_header {
                Some(b) => {
                    targets = (0..16).map(|i| (i * 4, 4usize, "hdr")).collect();
                    b.clone()
                }
                None => continue,
            },
            "meta_header" => match &h.meta_header {
                Some(b) => {
                    targets = (0..16).map(|i| (i * 4, 4usize, "hdr")).collect();
                    b.clone()
                }
                None => continue,
            },
            "hnsw_header" => match &hnsw {
                Some((b, _)) => {
                    targets = (0..20).map(|i| (i * 4, 4usize, "hdr")).collect();
                    b[..128].to_vec()
                }
                None => continue,
            },
            "page_header" | "trunk_header" => {
                if h.leaf_pages.is_empty() {
                    continue;
                }
                let p = &h.leaf_pages[rng.usize_below(h.leaf_pages.len())].0;
                targets = small_targets(32);
                p[..32].to_vec()
            }
            "validate_page" | "leaf" | "leaf_mut" => {
                if h.leaf_pages.is_empty() {
                    continue;
                }
                let (p, keys) = &h.leaf_pages[rng.usize_below(h.leaf_pages.len())];
                ctx = json!({ "keys": keys.iter().map(|k| hex(k)).collect::<Vec<_>>() });
                faults::page_targets(p, 0, &mut targets);
                p.clone()
            }
            "interior" | "interior_mut" => {
                if h.interior_pages.is_empty() {
                    continue;
                }
                let (p, keys) = &h.interior_pages[rng.usize_below(h.interior_pages.len())];
                ctx = json!({ "keys": keys.iter().map(|k| hex(k)).collect::<Vec<_>>() });
                faults::page_targets(p, 0, &mut targets);
                p.clone()
            }
            "btree_file" => {
                if h.small_files.is_empty() {
                    continue;
                }
                let (is_index, b, keys) = &h.small_files[rng.usize_below(h.small_files.len())];
                ctx = json!({ "index": is_index, "keys": keys.iter().map(|k| hex(k)).collect::<Vec<_>>() });
                targets = faults::file_targets(b, if *is_index { "index" } else { "table" });
                paged = true;
                b.clone()
            }
            "hnsw_page" => match &hnsw {
                Some((b, _)) if b.len() >= 2 * PAGE => {
                    let p = b[PAGE..2 * PAGE].to_vec();
                    targets = (0..80).map(|o| (o, 1usize, "hnsw.page_hdr")).collect();
                    let slots = rd16(&p, 16).min(64);
                    for s in 0..slots {
                        targets.push((64 + s * 4, 2, "hnsw.slot.offset"));
                        targets.push((64 + s * 4 + 2, 2, "hnsw.slot.size"));
                    }
                    p
                }
                _ => continue,
            },
            "hnsw_node" => {
                let b = synth_hnsw_node(rng);
                targets = small_targets(b.len());
                b
            }
            "hnsw_file" => match &hnsw {
                Some((b, dim)) => {
                    ctx = json!({ "dim": dim });
                    targets = (0..20).map(|i| (i * 4, 4usize, "hnsw.hdr")).collect();
                    for pg in 1..b.len() / PAGE {
                        for o in 0..80 {
                            targets.push((pg * PAGE + o, 1, "hnsw.page_hdr"));
                        }
                        let slots = rd16(b, pg * PAGE + 16).min(64);
                        for s in 0..slots {
                            targets.push((pg * PAGE + 64 + s * 4, 2, "hnsw.slot.offset"));
                            targets.push((pg * PAGE + 64 + s * 4 + 2, 2, "hnsw.slot.size"));
                        }
                    }
                    paged = true;
                    b.clone()
                }
                None => continue,
            },
            "toast" => {
                if !h.toast_pointers.is_empty() && rng.chance(1, 2) {
                    h.toast_pointers[rng.usize_below(h.toast_pointers.len())].clone()
                } else {
                    turdb::storage::toast::ToastPointer::new(rng.below(1000), rng.below(8) as u16, rng.below(100000)).encode().to_vec()
                }
            }
            _ => continue,
        };
        let nf = 1 + rng.weighted(&[6, 3, 1]);
        let mut fs = vec![];
        let mut cur = base.clone();
        for _ in 0..nf {
            let (f, _) = gen_fault(rng, &cur, &targets, paged, is_wal, false, true);
            f.apply(&mut cur, None);
            fs.push(f);
        }
        items.push(Item { decoder: name.to_string(), base: hex(&base), ctx, faults: fs });
    }
    items
}
