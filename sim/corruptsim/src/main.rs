//! corruptsim — C23 "Decoders of stored bytes reject corruption without crashing".
//!
//! `corruptsim check C23 [--tier quick|thorough] [--seed N] [--runs N]`
//! `corruptsim replay <file>` · `run1 <profile> <seed> <run> [tier]` · `survey <profile> <n> [seed] [tier]`
//! `corruptsim selfcheck determinism <profile> <n> [seed]`
//! profiles: `mix@C23` (default: 80 % whole-database runs, 20 % single-object runs), `db@C23`, `dec@C23`.

mod dbgen;
mod decoders;
mod engine;
mod faults;
mod guard;
mod trap;

use engine::CorruptSim;
use simcore::driver::{self, CheckSpec, Engine};
use simcore::pool::{self, JobStatus, PoolCfg};
use simcore::{Tier, Violation};
use std::collections::{BTreeMap, BTreeSet};
use std::time::Duration;

const QUICK_RUNS: u64 = 3000;
const THOROUGH_RUNS: u64 = 30000;

fn arg_value(args: &[String], flag: &str) -> Option<String> {
    args.iter().position(|a| a == flag).and_then(|i| args.get(i + 1).cloned())
}

fn env_u64(k: &str) -> Option<u64> {
    std::env::var(k).ok().and_then(|v| v.parse().ok())
}

fn workers() -> usize {
    env_u64("VSIM_WORKERS").map(|v| v as usize).unwrap_or_else(|| std::thread::available_parallelism().map(|n| n.get()).unwrap_or(8).min(16))
}

fn cmd_check(args: &[String]) -> i32 {
    let id = match args.first() {
        Some(i) => i.clone(),
        None => {
            eprintln!("usage: corruptsim check C23 [--tier quick|thorough] [--seed N] [--runs N] [--profile mix|db|dec]");
            return 2;
        }
    };
    if id != "C23" {
        eprintln!("unknown property {} (corruptsim decides C23)", id);
        return 2;
    }
    let tier = Tier::parse(&arg_value(args, "--tier").or_else(|| std::env::var("VERIF_TIER").ok()).unwrap_or_else(|| "quick".into()));
    let seed = arg_value(args, "--seed").and_then(|s| s.parse().ok()).or_else(|| env_u64("VERIF_SEED")).unwrap_or(1);
    let runs = arg_value(args, "--runs")
        .and_then(|s| s.parse().ok())
        .or_else(|| env_u64("VSIM_RUNS"))
        .unwrap_or(if tier == Tier::Thorough { THOROUGH_RUNS } else { QUICK_RUNS });
    let part = arg_value(args, "--profile").unwrap_or_else(|| "mix".into());
    let spec = CheckSpec {
        property: "C23".into(),
        profile: format!("{}@C23", part),
        tier,
        seed,
        runs,
        workers: workers(),
        run_timeout: Duration::from_secs(if tier == Tier::Thorough { 400 } else { 300 }),
        batch_budget: Duration::from_secs(if tier == Tier::Thorough { 780 } else { 85 }),
        level: "exploration".into(),
        also_owns: vec![],
        min_budget_runs: if tier == Tier::Thorough { 500 } else { 250 },
        min_budget_wall: Duration::from_secs(if tier == Tier::Thorough { 60 } else { 25 }),
        max_minimise: if tier == Tier::Thorough { 12 } else { 4 },
    };
    driver::run_check(&CorruptSim, &spec)
}

fn cmd_replay(args: &[String]) -> i32 {
    match args.first() {
        Some(p) => driver::replay(&CorruptSim, std::path::Path::new(p)),
        None => {
            eprintln!("usage: corruptsim replay <file>");
            2
        }
    }
}

fn cmd_run1(args: &[String]) -> i32 {
    if args.len() < 3 {
        eprintln!("usage: corruptsim run1 <profile> <seed> <run> [tier]");
        return 2;
    }
    let profile = args[0].clone();
    let seed: u64 = args[1].parse().unwrap_or(1);
    let run: u64 = args[2].parse().unwrap_or(0);
    let tier = Tier::parse(args.get(3).map(|s| s.as_str()).unwrap_or("quick"));
    let base = pool::default_scratch_base();
    let cfg = PoolCfg { workers: 1, timeout: Duration::from_secs(120), scratch: base.join("run1"), deadline: None };
    let res = pool::run_jobs(&cfg, &[run], |j| CorruptSim.run_seeded(&profile, seed, j, tier));
    pool::cleanup(&base);
    for (_, st) in res {
        match st {
            JobStatus::Done(o) => {
                println!("{}", serde_json::to_string_pretty(&o.sample).unwrap_or_default());
                println!("counters: {:?}", o.counters);
                println!("events_hash={:016x} nontrivial={} harness_error={:?}", o.events_hash, o.nontrivial, o.harness_error);
                for v in &o.violations {
                    println!("VIOL {} :: {}", v.sig_string(), v.detail);
                }
            }
            other => println!("{:?}", other),
        }
    }
    0
}

/// `gencase <profile> <seed> <run> [tier]`: prints the explicit case of a seeded run.
fn cmd_gencase(args: &[String]) -> i32 {
    if args.len() < 3 {
        eprintln!("usage: corruptsim gencase <profile> <seed> <run> [tier]");
        return 2;
    }
    let profile = args[0].clone();
    let seed: u64 = args[1].parse().unwrap_or(1);
    let run: u64 = args[2].parse().unwrap_or(0);
    let tier = Tier::parse(args.get(3).map(|s| s.as_str()).unwrap_or("quick"));
    let base = pool::default_scratch_base();
    let cfg = PoolCfg { workers: 1, timeout: Duration::from_secs(120), scratch: base.join("gen"), deadline: None };
    let res = pool::run_jobs(&cfg, &[run], |j| engine::explicit_case_of_seed(&profile, seed, j, tier));
    pool::cleanup(&base);
    match res.into_iter().next() {
        Some((_, JobStatus::Done(o))) => {
            println!("{}", serde_json::to_string_pretty(&o.sample).unwrap_or_default());
            0
        }
        other => {
            eprintln!("{:?}", other);
            2
        }
    }
}

/// `runcase <file>`: runs a raw explicit case (the `case` object of a replay file, or a whole replay file).
fn cmd_runcase(args: &[String]) -> i32 {
    let doc: serde_json::Value = match args.first().and_then(|p| std::fs::read(p).ok()).and_then(|b| serde_json::from_slice(&b).ok()) {
        Some(d) => d,
        None => {
            eprintln!("usage: corruptsim runcase <file>");
            return 2;
        }
    };
    let case = if doc.get("case").is_some() { doc["case"].clone() } else { doc };
    let base = pool::default_scratch_base();
    let cfg = PoolCfg { workers: 1, timeout: Duration::from_secs(120), scratch: base.join("runcase"), deadline: None };
    let res = pool::run_jobs(&cfg, &[0], |_| driver::exec_case_inline(&CorruptSim, &case));
    pool::cleanup(&base);
    for (_, st) in res {
        match st {
            JobStatus::Done(o) => {
                println!("{}", serde_json::to_string_pretty(&o.sample).unwrap_or_default());
                println!("counters: {:?}", o.counters);
                println!("events_hash={:016x} nontrivial={} harness_error={:?}", o.events_hash, o.nontrivial, o.harness_error);
                for v in &o.violations {
                    println!("VIOL {} :: {}", v.sig_string(), v.detail);
                }
            }
            other => println!("{:?}", other),
        }
    }
    0
}

/// `verify <dir>`: re-runs every replay file of a directory (one pool batch) and reports which
/// recorded verdicts (same verdict, same panic site / trapped call) reproduce.
fn cmd_verify(args: &[String]) -> i32 {
    let dir = match args.first() {
        Some(d) => std::path::PathBuf::from(d),
        None => {
            eprintln!("usage: corruptsim verify <dir>");
            return 2;
        }
    };
    let mut files: Vec<std::path::PathBuf> = std::fs::read_dir(&dir).map(|r| r.filter_map(|e| e.ok()).map(|e| e.path()).filter(|p| p.extension().map(|x| x == "json").unwrap_or(false)).collect()).unwrap_or_default();
    files.sort();
    let mut docs: Vec<serde_json::Value> = vec![];
    let mut kept = vec![];
    for p in files {
        let d: serde_json::Value = std::fs::read(&p).ok().and_then(|b| serde_json::from_slice(&b).ok()).unwrap_or(serde_json::Value::Null);
        if d.get("case").is_some() && d.get("expect").is_some() {
            docs.push(d);
            kept.push(p);
        }
    }
    let files = kept;
    let base = pool::default_scratch_base();
    let cfg = PoolCfg { workers: workers(), timeout: Duration::from_secs(300), scratch: base.join("verify"), deadline: None };
    let jobs: Vec<u64> = (0..docs.len() as u64).collect();
    let res = pool::run_jobs(&cfg, &jobs, |j| driver::exec_case_inline(&CorruptSim, &docs[j as usize]["case"]));
    pool::cleanup(&base);
    let mut bad = 0;
    for (j, st) in res {
        let d = &docs[j as usize];
        let verdict = d["expect"]["verdict"].as_str().unwrap_or("");
        let site = d["expect"]["signature"]["site"].as_str();
        let wher = d["expect"]["signature"]["where"].as_str();
        let ok = match &st {
            JobStatus::Done(o) => o.violations.iter().any(|v| v.verdict == verdict && v.sig.get("site").map(|s| s.as_str()) == site && (site.is_some() || v.sig.get("where").map(|s| s.as_str()) == wher)),
            _ => false,
        };
        if !ok {
            bad += 1;
            let got = match &st {
                JobStatus::Done(o) => format!("{:?} {:?}", o.violations.iter().map(|v| v.sig_string()).collect::<Vec<_>>(), o.harness_error),
                other => format!("{:?}", other).chars().take(200).collect(),
            };
            println!("NOT REPRODUCED {} (expected {} {:?}{:?}) got {}", files[j as usize].display(), verdict, site, wher, got.chars().take(300).collect::<String>());
        }
    }
    println!("verify: {} replay files, {} not reproduced", docs.len(), bad);
    if bad > 0 {
        1
    } else {
        0
    }
}

fn cmd_selfcheck(args: &[String]) -> i32 {
    if args.len() < 3 || args[0] != "determinism" {
        eprintln!("usage: corruptsim selfcheck determinism <profile> <n> [seed]");
        return 2;
    }
    let profile = args[1].clone();
    let n: u64 = args[2].parse().unwrap_or(200);
    let seed: u64 = args.get(3).and_then(|s| s.parse().ok()).unwrap_or(1);
    let base = pool::default_scratch_base();
    let jobs: Vec<u64> = (0..n).collect();
    let mut hashes: Vec<Vec<(u64, String)>> = vec![];
    for (round, w) in [(0, 4usize), (1, 16usize)] {
        let cfg = PoolCfg { workers: w, timeout: Duration::from_secs(300), scratch: base.join(format!("det{}", round)), deadline: None };
        if round == 1 {
            std::env::set_var("VSIM_PAD", "x".repeat(777));
        }
        let res = pool::run_jobs(&cfg, &jobs, |j| CorruptSim.run_seeded(&profile, seed, j, Tier::Quick));
        hashes.push(
            res.into_iter()
                .map(|(j, st)| match st {
                    JobStatus::Done(o) => {
                        let sigs: BTreeSet<String> = o.violations.iter().map(|v| v.sig_string()).collect();
                        (j, format!("{:016x}/{}v/{:016x}/{:?}", o.events_hash, o.violations.len(), simcore::rng::fnv1a(format!("{:?}", sigs).as_bytes()), o.harness_error))
                    }
                    JobStatus::Crashed { status, .. } => (j, format!("crashed {}", status)),
                    JobStatus::TimedOut { .. } => (j, "timeout".to_string()),
                })
                .collect(),
        );
    }
    pool::cleanup(&base);
    let mut bad = 0;
    for (a, b) in hashes[0].iter().zip(hashes[1].iter()) {
        if a != b {
            println!("DIVERGED run {}: {} vs {}", a.0, a.1, b.1);
            bad += 1;
        }
    }
    println!("determinism: {} seed pairs, {} diverged", n, bad);
    if bad > 0 {
        1
    } else {
        0
    }
}

struct SiteStat {
    runs: u64,
    phases: BTreeMap<String, u64>,
    kinds: BTreeMap<String, u64>,
    roles: BTreeMap<String, u64>,
    msg: String,
    /// smallest case seen (by serialized length) and its run
    best: Option<(usize, u64, Violation)>,
}

fn case_size(v: &Violation) -> usize {
    // fewer faults first, then shorter text
    let nf = v.case["faults"].as_array().map(|a| a.len()).or_else(|| v.case["items"][0]["faults"].as_array().map(|a| a.len())).unwrap_or(9);
    nf * 10_000_000 + v.case.to_string().len()
}

/// Site-preserving greedy minimisation (the case carries `focus.site`, so `run_case` only
/// reports that site).
fn minimise_site(v: &Violation, base: &std::path::Path, budget: usize) -> (Violation, usize) {
    let mut cur = v.clone();
    let mut execs = 0usize;
    let w = workers();
    'outer: loop {
        if execs >= budget {
            break;
        }
        let cands = CorruptSim.shrink(&cur.case);
        if cands.is_empty() {
            break;
        }
        for chunk in cands.chunks(w * 2) {
            if execs >= budget {
                break 'outer;
            }
            let cfg = PoolCfg { workers: w, timeout: Duration::from_secs(300), scratch: base.join("min"), deadline: None };
            let jobs: Vec<u64> = (0..chunk.len() as u64).collect();
            let res = pool::run_jobs(&cfg, &jobs, |j| CorruptSim.run_case(&chunk[j as usize]));
            execs += chunk.len();
            for (_, st) in res {
                if let JobStatus::Done(o) = st {
                    if let Some(nv) = o.violations.into_iter().find(|x| x.verdict == v.verdict && x.sig.get("site") == v.sig.get("site") && (v.verdict == "panic" || x.sig.get("where") == v.sig.get("where"))) {
                        cur = nv;
                        continue 'outer;
                    }
                }
            }
        }
        break;
    }
    (cur, execs)
}

/// `survey <profile> <n> [seed] [tier] [--min N] [--out DIR]`: histogram of panic sites over n seeded runs, each
/// with a minimised reproducing case (written to DIR when given).
fn cmd_survey(args: &[String]) -> i32 {
    if args.len() < 2 {
        eprintln!("usage: corruptsim survey <profile> <n> [seed] [tier] [--min EXECS] [--out DIR]");
        return 2;
    }
    let profile = args[0].clone();
    let n: u64 = args[1].parse().unwrap_or(1000);
    let pos: Vec<&String> = args.iter().skip(2).take_while(|a| !a.starts_with("--")).collect();
    let seed: u64 = pos.first().and_then(|s| s.parse().ok()).unwrap_or(1);
    let tier = Tier::parse(pos.get(1).map(|s| s.as_str()).unwrap_or("quick"));
    let min_budget: usize = arg_value(args, "--min").and_then(|s| s.parse().ok()).unwrap_or(120);
    let out_dir = arg_value(args, "--out");
    let json_out = arg_value(args, "--json");
    let mut json_sites: Vec<serde_json::Value> = vec![];
    let base = pool::default_scratch_base();
    let cfg = PoolCfg { workers: workers(), timeout: Duration::from_secs(300), scratch: base.join("survey"), deadline: None };
    let jobs: Vec<u64> = (0..n).collect();
    let t0 = std::time::Instant::now();
    let res = pool::run_jobs(&cfg, &jobs, |j| CorruptSim.run_seeded(&profile, seed, j, tier));
    let wall = t0.elapsed().as_secs_f64();
    let mut sites: BTreeMap<String, SiteStat> = BTreeMap::new();
    let mut other: BTreeMap<String, (u64, u64)> = BTreeMap::new();
    let mut counters: BTreeMap<String, u64> = BTreeMap::new();
    let mut clean = 0u64;
    for (j, st) in res {
        match st {
            JobStatus::Done(o) => {
                for (k, v) in &o.counters {
                    *counters.entry(k.clone()).or_insert(0) += v;
                }
                if let Some(e) = &o.harness_error {
                    other.entry(format!("HARNESS {}", e)).or_insert((0, j)).0 += 1;
                }
                if o.violations.is_empty() {
                    clean += 1;
                }
                let mut seen = BTreeSet::new();
                for v in o.violations {
                    // panics are keyed by their site; trapped hang / abort / signal by verdict + call
                    let site = match v.sig.get("site") {
                        Some(s) => s.clone(),
                        None => format!("<{}> {} @ {}", v.verdict, v.sig.get("phase").cloned().unwrap_or_default(), v.sig.get("where").cloned().unwrap_or_default()),
                    };
                    let e = sites.entry(site.clone()).or_insert(SiteStat { runs: 0, phases: BTreeMap::new(), kinds: BTreeMap::new(), roles: BTreeMap::new(), msg: String::new(), best: None });
                    if seen.insert(site) {
                        e.runs += 1;
                    }
                    *e.phases.entry(v.sig.get("phase").cloned().unwrap_or_default()).or_insert(0) += 1;
                    *e.kinds.entry(v.sig.get("faults").cloned().unwrap_or_default()).or_insert(0) += 1;
                    *e.roles.entry(v.sig.get("role").cloned().unwrap_or_default()).or_insert(0) += 1;
                    if e.msg.is_empty() {
                        e.msg = v.detail.chars().take(300).collect();
                    }
                    let sz = case_size(&v);
                    if e.best.as_ref().map(|b| sz < b.0).unwrap_or(true) {
                        e.best = Some((sz, j, v));
                    }
                }
            }
            JobStatus::Crashed { status, stderr_tail } => {
                let tail: String = stderr_tail.lines().rev().take(3).collect::<Vec<_>>().into_iter().rev().collect::<Vec<_>>().join(" | ");
                other.entry(format!("process-died {} :: {}", status, tail.chars().take(300).collect::<String>())).or_insert((0, j)).0 += 1;
            }
            JobStatus::TimedOut { stderr_tail } => {
                let tail: String = stderr_tail.lines().rev().take(2).collect::<Vec<_>>().into_iter().rev().collect::<Vec<_>>().join(" | ");
                other.entry(format!("hang :: {}", tail.chars().take(300).collect::<String>())).or_insert((0, j)).0 += 1;
            }
        }
    }
    println!("{} runs, {} without violation, {} distinct panic sites, {:.1}s ({:.0} runs/s)", n, clean, sites.len(), wall, n as f64 / wall.max(0.001));
    println!("-- counters");
    for (k, v) in &counters {
        println!("  {:40} {}", k, v);
    }
    println!("-- process-died / hang / harness");
    let mut ov: Vec<_> = other.into_iter().collect();
    ov.sort_by_key(|(_, (c, _))| std::cmp::Reverse(*c));
    for (k, (c, j)) in ov {
        println!("{:6}x first run {:6} {}", c, j, k);
    }
    println!("-- panic sites (site | runs | phases | fault kinds | roles)");
    let mut sv: Vec<(String, SiteStat)> = sites.into_iter().collect();
    sv.sort_by_key(|(_, s)| std::cmp::Reverse(s.runs));
    if let Some(d) = &out_dir {
        let _ = std::fs::create_dir_all(d);
    }
    for (site, s) in sv {
        let top = |m: &BTreeMap<String, u64>| {
            let mut v: Vec<_> = m.iter().collect();
            v.sort_by_key(|(_, c)| std::cmp::Reverse(**c));
            v.into_iter().take(5).map(|(k, c)| format!("{}:{}", k, c)).collect::<Vec<_>>().join(" ")
        };
        println!("{:6}x {}\n        phases: {}\n        faults: {}\n        roles: {}\n        {}", s.runs, site, top(&s.phases), top(&s.kinds), top(&s.roles), s.msg);
        if let Some((_, j, v)) = s.best {
            let (mv, execs) = if min_budget > 0 { minimise_site(&v, &base, min_budget) } else { (v, 0) };
            let summary = summarise_case(&mv.case);
            println!("        minimal (from run {}, {} minimisation runs): {}", j, execs, summary);
            json_sites.push(serde_json::json!({
                "site": site, "runs": s.runs, "phases": s.phases, "faults": s.kinds, "roles": s.roles, "message": s.msg,
                "verdict": mv.verdict, "sig": mv.sig, "minimal_summary": summary, "from_run": j, "seed": seed, "profile": profile,
            }));
            if let Some(d) = &out_dir {
                let path = driver::write_replay(std::path::Path::new(d), "corruptsim", &mv);
                println!("        replay file: {}", path.display());
            }
        }
    }
    if let Some(p) = json_out {
        let _ = std::fs::write(&p, serde_json::to_vec_pretty(&json_sites).unwrap_or_default());
    }
    pool::cleanup(&base);
    0
}

fn summarise_case(case: &serde_json::Value) -> String {
    match case["part"].as_str().unwrap_or("") {
        "db" => {
            let stmts = case["build"]["stmts"].as_array().map(|a| a.len()).unwrap_or(0);
            let steps: Vec<String> = case["steps"].as_array().map(|a| a.iter().map(|s| s["op"].as_str().unwrap_or("").chars().take(60).collect()).collect()).unwrap_or_default();
            format!(
                "build {} stmts end={} ; faults {} ; steps {:?}",
                stmts,
                case["build"]["end"].as_str().unwrap_or(""),
                case["faults"],
                steps
            )
        }
        "dec" => {
            let it = &case["items"][0];
            let base = it["base"].as_str().unwrap_or("");
            format!("decoder {} base[{}B]={}{} ctx={} faults {}", it["decoder"].as_str().unwrap_or(""), base.len() / 2, &base[..base.len().min(96)], if base.len() > 96 { ".." } else { "" }, it["ctx"].to_string().chars().take(120).collect::<String>(), it["faults"])
        }
        _ => case.to_string().chars().take(200).collect(),
    }
}

fn main() {
    simdisk::plug_hash_order();
    // error values must not pay for backtrace capture
    std::env::remove_var("RUST_BACKTRACE");
    std::env::remove_var("RUST_LIB_BACKTRACE");
    let args: Vec<String> = std::env::args().collect();
    simcore::noaslr::ensure();
    simdisk::plug_hash_order();
    // Panics raised inside std (no #[track_caller] chain into TurDB) are attributed to the innermost
    // TurDB frame by symbolising a backtrace in the child's panic hook. Parsing this binary's debug
    // info takes seconds; doing it once here lets every forked child inherit the parsed tables.
    if matches!(args.get(1).map(|s| s.as_str()), Some("check" | "replay" | "run1" | "survey" | "selfcheck" | "runcase" | "verify")) {
        let t = std::time::Instant::now();
        let warm = std::backtrace::Backtrace::force_capture().to_string();
        if std::env::var_os("VSIM_DEBUG").is_some() {
            eprintln!("symboliser warm-up: {} bytes in {:?}", warm.len(), t.elapsed());
        }
    }
    let code = match args.get(1).map(|s| s.as_str()) {
        Some("check") => cmd_check(&args[2..]),
        Some("replay") => cmd_replay(&args[2..]),
        Some("run1") => cmd_run1(&args[2..]),
        Some("selfcheck") => cmd_selfcheck(&args[2..]),
        Some("survey") => cmd_survey(&args[2..]),
        Some("verify") => cmd_verify(&args[2..]),
        Some("gencase") => cmd_gencase(&args[2..]),
        Some("runcase") => cmd_runcase(&args[2..]),
        Some("list") => {
            println!("C23 corruptsim mix");
            0
        }
        _ => {
            eprintln!("usage: corruptsim check|replay|run1|selfcheck|survey|list ...");
            2
        }
    };
    std::process::exit(code);
}
