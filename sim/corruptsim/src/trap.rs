//! In-process capture of outcomes that do not unwind: a per-step CPU-time timer (hang), SIGABRT
//! (allocation failure, panic while panicking), SIGSEGV / SIGBUS. The handler only uses
//! async-signal-safe calls: it writes a pre-rendered `RunOutcome` JSON (pieces prepared by the
//! simulation thread before every step) to the child's `result.json` and `_exit(0)`s, so the
//! pool reports a normal run carrying a violation with phase / call label and the explicit
//! case. If the handler itself cannot run (e.g. stack overflow), the driver's own
//! `process-died` / `hang` verdicts remain as the backstop.

use simcore::{RunOutcome, Violation};
use std::collections::BTreeMap;
use std::sync::atomic::{AtomicUsize, Ordering};

const MAXPARTS: usize = 16;
const P_PHASE: usize = 1;
const P_WHERE: usize = 2;
const P_VERDICT: usize = 3;
const P_CASE: usize = 4;
const P_FAULTS: usize = 5;
const P_ROLE: usize = 6;

static mut PATH: [u8; 1024] = [0; 1024];
static mut PHASE: [u8; 96] = [0; 96];
static PHASE_LEN: AtomicUsize = AtomicUsize::new(0);
static mut WHERE: [u8; 128] = [0; 128];
static WHERE_LEN: AtomicUsize = AtomicUsize::new(0);
static mut FAULTS: [u8; 128] = [0; 128];
static FAULTS_LEN: AtomicUsize = AtomicUsize::new(0);
static mut ROLE: [u8; 128] = [0; 128];
static ROLE_LEN: AtomicUsize = AtomicUsize::new(0);
/// template pieces of the violation outcome: (ptr, len); ptr < 16 = placeholder id
static mut PARTS: [(usize, usize); MAXPARTS] = [(0, 0); MAXPARTS];
static NPARTS: AtomicUsize = AtomicUsize::new(0);
static CASE_PTR: AtomicUsize = AtomicUsize::new(0);
static CASE_LEN: AtomicUsize = AtomicUsize::new(0);
/// whole outcome written when the *build* of the valid database does not finish
static BUILD_PTR: AtomicUsize = AtomicUsize::new(0);
static BUILD_LEN: AtomicUsize = AtomicUsize::new(0);
/// 0 = idle (signals keep their default meaning), 1 = build phase, 2 = exercise / decoder phase
static MODE: AtomicUsize = AtomicUsize::new(0);

fn sanitize(s: &str, out: &mut [u8]) -> usize {
    let mut n = 0;
    for c in s.bytes() {
        if n >= out.len() {
            break;
        }
        out[n] = if c.is_ascii_alphanumeric() || b" :_-.@=*(),<>+".contains(&c) { c } else { b'?' };
        n += 1;
    }
    n
}

#[allow(static_mut_refs)]
pub fn set_phase(s: &str) {
    // SAFETY: written by the single simulation thread; the handler reads at most a torn label.
    let n = unsafe { sanitize(s, &mut PHASE) };
    PHASE_LEN.store(n, Ordering::SeqCst);
}

#[allow(static_mut_refs)]
pub fn set_where(s: &str) {
    // SAFETY: as above.
    let n = unsafe { sanitize(s, &mut WHERE) };
    WHERE_LEN.store(n, Ordering::SeqCst);
}

/// Fault kinds and file roles of the case the next steps belong to (signature fields).
#[allow(static_mut_refs)]
pub fn set_faults_role(kinds: &str, roles: &str) {
    // SAFETY: as above.
    let n = unsafe { sanitize(kinds, &mut FAULTS) };
    FAULTS_LEN.store(n, Ordering::SeqCst);
    // SAFETY: as above.
    let m = unsafe { sanitize(roles, &mut ROLE) };
    ROLE_LEN.store(m, Ordering::SeqCst);
}

unsafe fn wr(fd: libc::c_int, p: *const u8, len: usize) {
    let mut off = 0;
    while off < len {
        let r = libc::write(fd, p.add(off) as *const libc::c_void, len - off);
        if r <= 0 {
            break;
        }
        off += r as usize;
    }
}

#[allow(static_mut_refs)]
extern "C" fn on_signal(sig: libc::c_int) {
    // SAFETY: only async-signal-safe calls (open/write/close/_exit) on pre-rendered buffers.
    unsafe {
        let mode = MODE.load(Ordering::SeqCst);
        if mode == 0 {
            libc::signal(sig, libc::SIG_DFL);
            libc::raise(sig);
            return;
        }
        let fd = libc::open(PATH.as_ptr() as *const libc::c_char, libc::O_CREAT | libc::O_WRONLY | libc::O_TRUNC, 0o644);
        if fd < 0 {
            libc::_exit(97);
        }
        if mode == 1 {
            wr(fd, BUILD_PTR.load(Ordering::SeqCst) as *const u8, BUILD_LEN.load(Ordering::SeqCst));
        } else {
            let verdict: &[u8] = match sig {
                libc::SIGPROF => b"hang",
                libc::SIGABRT => b"abort",
                libc::SIGSEGV => b"sigsegv",
                libc::SIGBUS => b"sigbus",
                _ => b"signal",
            };
            let n = NPARTS.load(Ordering::SeqCst);
            for i in 0..n {
                let (p, l) = PARTS[i];
                match p {
                    P_PHASE => wr(fd, PHASE.as_ptr(), PHASE_LEN.load(Ordering::SeqCst)),
                    P_WHERE => wr(fd, WHERE.as_ptr(), WHERE_LEN.load(Ordering::SeqCst)),
                    P_FAULTS => wr(fd, FAULTS.as_ptr(), FAULTS_LEN.load(Ordering::SeqCst)),
                    P_ROLE => wr(fd, ROLE.as_ptr(), ROLE_LEN.load(Ordering::SeqCst)),
                    P_VERDICT => wr(fd, verdict.as_ptr(), verdict.len()),
                    P_CASE => wr(fd, CASE_PTR.load(Ordering::SeqCst) as *const u8, CASE_LEN.load(Ordering::SeqCst)),
                    _ => wr(fd, p as *const u8, l),
                }
            }
        }
        libc::close(fd);
        libc::_exit(0);
    }
}

/// Installs the handlers and renders the templates. `result_path`: the file the pool reads.
#[allow(static_mut_refs)]
pub fn init(result_path: &std::path::Path, step_timeout_s: u32) {
    let pb = result_path.to_string_lossy();
    let pb = pb.as_bytes();
    // SAFETY: called once per child before any step, from the simulation thread.
    unsafe {
        let n = pb.len().min(1023);
        PATH[..n].copy_from_slice(&pb[..n]);
        PATH[n] = 0;
    }
    // violation template
    let mut sig = BTreeMap::new();
    sig.insert("faults".to_string(), "@@F@@".to_string());
    sig.insert("phase".to_string(), "@@P@@".to_string());
    sig.insert("role".to_string(), "@@R@@".to_string());
    sig.insert("where".to_string(), "@@W@@".to_string());
    let v = Violation {
        property: crate::engine::PROPERTY.into(),
        verdict: "@@V@@".into(),
        sig,
        detail: format!(
            "expected the call to return Ok or Err; observed verdict in `verdict`: hang = no return within {} s of CPU time, abort = SIGABRT (allocation failure under the 1 GiB address-space limit, or a panic while panicking), sigsegv/sigbus = memory fault; the call is named by sig.phase / sig.where",
            step_timeout_s
        ),
        case: serde_json::Value::String("@@C@@".into()),
    };
    let mut out = RunOutcome { violations: vec![v], nontrivial: true, ..Default::default() };
    out.count("trap.caught", 1);
    let text = serde_json::to_string(&out).unwrap_or_default();
    let mut pieces: Vec<(usize, usize)> = vec![];
    let mut rest: &str = &text;
    // placeholders in their order of appearance: verdict, sig.{faults, phase, role, where}, case
    for (pat, id) in [("@@V@@", P_VERDICT), ("@@F@@", P_FAULTS), ("@@P@@", P_PHASE), ("@@R@@", P_ROLE), ("@@W@@", P_WHERE), ("\"@@C@@\"", P_CASE)] {
        if let Some(i) = rest.find(pat) {
            let head: &'static [u8] = Box::leak(rest[..i].as_bytes().to_vec().into_boxed_slice());
            pieces.push((head.as_ptr() as usize, head.len()));
            pieces.push((id, 0));
            rest = &rest[i + pat.len()..];
        }
    }
    let tail: &'static [u8] = Box::leak(rest.as_bytes().to_vec().into_boxed_slice());
    pieces.push((tail.as_ptr() as usize, tail.len()));
    // SAFETY: as above.
    unsafe {
        for (i, p) in pieces.iter().enumerate().take(MAXPARTS) {
            PARTS[i] = *p;
        }
    }
    NPARTS.store(pieces.len().min(MAXPARTS), Ordering::SeqCst);
    // build-phase outcome: no violation (a valid-input problem is not C23's), only a counter
    let mut b = RunOutcome::default();
    b.count("build.hang_or_abort", 1);
    b.sample = serde_json::json!({"note": "building the valid database did not finish (hang or abort on valid input; outside C23)"});
    let bt: &'static [u8] = Box::leak(serde_json::to_vec(&b).unwrap_or_default().into_boxed_slice());
    BUILD_PTR.store(bt.as_ptr() as usize, Ordering::SeqCst);
    BUILD_LEN.store(bt.len(), Ordering::SeqCst);
    // SAFETY: installing handlers for our own process.
    unsafe {
        for s in [libc::SIGPROF, libc::SIGABRT, libc::SIGSEGV, libc::SIGBUS] {
            let mut sa: libc::sigaction = std::mem::zeroed();
            sa.sa_sigaction = on_signal as *const () as usize;
            sa.sa_flags = libc::SA_NODEFER;
            libc::sigemptyset(&mut sa.sa_mask);
            libc::sigaction(s, &sa, std::ptr::null_mut());
        }
    }
}

/// The explicit case (JSON text) the next steps belong to. The buffer must stay alive until
/// `idle()`.
pub fn set_case(json: &[u8]) {
    CASE_PTR.store(json.as_ptr() as usize, Ordering::SeqCst);
    CASE_LEN.store(json.len(), Ordering::SeqCst);
}

fn timer(secs: u32) {
    if secs > 0 {
        LAST_SECS.store(secs as usize, Ordering::SeqCst);
    }
    // SAFETY: plain setitimer.
    unsafe {
        let it = libc::itimerval {
            it_interval: libc::timeval { tv_sec: 0, tv_usec: 0 },
            it_value: libc::timeval { tv_sec: secs as libc::time_t, tv_usec: 0 },
        };
        // CPU time of the process (user + system): independent of machine load, so the verdict
        // does not depend on how busy the host is; a blocked (non-spinning) hang is left to the
        // driver's real-time watchdog
        libc::setitimer(libc::ITIMER_PROF, &it, std::ptr::null_mut());
    }
}

pub fn enter_build(secs: u32) {
    MODE.store(1, Ordering::SeqCst);
    timer(secs);
}

/// Start (or restart) the watchdog for one exercise step / decoder item.
pub fn enter_step(secs: u32) {
    MODE.store(2, Ordering::SeqCst);
    timer(secs);
}

static LAST_SECS: AtomicUsize = AtomicUsize::new(0);

/// Harness-side work inside a step (symbolising a backtrace in the panic hook) must not count
/// against the step's budget: stop the timer, `resume` re-arms it with the full budget.
pub fn pause() {
    timer(0);
}

pub fn resume() {
    if MODE.load(Ordering::SeqCst) != 0 {
        timer(LAST_SECS.load(Ordering::SeqCst) as u32);
    }
}

pub fn idle() {
    timer(0);
    MODE.store(0, Ordering::SeqCst);
}
