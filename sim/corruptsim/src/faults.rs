//! Stored-byte faults: the fault model of C23 ("stored bytes change at an arbitrary instant
//! while the database is closed"), applied to byte buffers / files, plus the structure-aware
//! choice of *where* to hit (headers, page headers, slot arrays, cell pointers, length fields).

use serde::{Deserialize, Serialize};
use simcore::Rng;

pub const PAGE: usize = 16384;
pub const SECTOR: usize = 512;
pub const WAL_FRAME: usize = 32 + PAGE;

#[derive(Serialize, Deserialize, Clone, Debug, PartialEq)]
#[serde(tag = "kind", rename_all = "snake_case")]
pub enum Fault {
    BitFlip { off: u64, bit: u8 },
    /// 1..4 bytes overwritten at `off` (hex)
    ByteSet { off: u64, bytes: String },
    /// one 512-byte sector zeroed (off is sector aligned for files)
    ZeroSector { off: u64 },
    /// arbitrary range zeroed (used for whole WAL frames)
    ZeroRange { off: u64, len: u64 },
    Truncate { len: u64 },
    Extend { add: u64 },
    SwapPages { a: u64, b: u64 },
    /// lost write: page reverted to the older image kept at the snapshot point (zeros if the
    /// page did not exist then)
    StalePage { page: u64 },
    ZeroPage { page: u64 },
    /// whole content replaced by `len` pseudo-random bytes (single-object decoders only)
    Random { len: u64, seed: u64 },
}

impl Fault {
    pub fn kind(&self) -> &'static str {
        match self {
            Fault::BitFlip { .. } => "bit_flip",
            Fault::ByteSet { .. } => "byte_set",
            Fault::ZeroSector { .. } => "zero_sector",
            Fault::ZeroRange { .. } => "zero_range",
            Fault::Truncate { .. } => "truncate",
            Fault::Extend { .. } => "extend",
            Fault::SwapPages { .. } => "swap_pages",
            Fault::StalePage { .. } => "stale_page",
            Fault::ZeroPage { .. } => "zero_page",
            Fault::Random { .. } => "random",
        }
    }

    /// Applies the fault to `buf`. Returns false when it could not change anything
    /// (position outside the buffer ...): such faults are counted as `noop`.
    pub fn apply(&self, buf: &mut Vec<u8>, old: Option<&[u8]>) -> bool {
        match self {
            Fault::BitFlip { off, bit } => {
                let o = *off as usize;
                if o < buf.len() {
                    buf[o] ^= 1 << (bit & 7);
                    true
                } else {
                    false
                }
            }
            Fault::ByteSet { off, bytes } => {
                let o = *off as usize;
                let bs = unhex(bytes);
                let mut changed = false;
                for (i, b) in bs.iter().enumerate() {
                    if o + i < buf.len() {
                        if buf[o + i] != *b {
                            changed = true;
                        }
                        buf[o + i] = *b;
                    }
                }
                changed
            }
            Fault::ZeroSector { off } => zero_range(buf, *off as usize, SECTOR),
            Fault::ZeroRange { off, len } => zero_range(buf, *off as usize, *len as usize),
            Fault::Truncate { len } => {
                let l = *len as usize;
                if l < buf.len() {
                    buf.truncate(l);
                    true
                } else {
                    false
                }
            }
            Fault::Extend { add } => {
                let a = (*add as usize).min(4 << 20);
                if a == 0 {
                    return false;
                }
                buf.extend(std::iter::repeat(0u8).take(a));
                true
            }
            Fault::SwapPages { a, b } => {
                let (a, b) = (*a as usize * PAGE, *b as usize * PAGE);
                if a == b || a + PAGE > buf.len() || b + PAGE > buf.len() {
                    return false;
                }
                let pa = buf[a..a + PAGE].to_vec();
                let pb = buf[b..b + PAGE].to_vec();
                if pa == pb {
                    return false;
                }
                buf[a..a + PAGE].copy_from_slice(&pb);
                buf[b..b + PAGE].copy_from_slice(&pa);
                true
            }
            Fault::StalePage { page } => {
                let o = *page as usize * PAGE;
                if o + PAGE > buf.len() {
                    return false;
                }
                let img: Vec<u8> = match old {
                    Some(ob) if o + PAGE <= ob.len() => ob[o..o + PAGE].to_vec(),
                    _ => vec![0u8; PAGE],
                };
                if buf[o..o + PAGE] == img[..] {
                    return false;
                }
                buf[o..o + PAGE].copy_from_slice(&img);
                true
            }
            Fault::ZeroPage { page } => zero_range(buf, *page as usize * PAGE, PAGE),
            Fault::Random { len, seed } => {
                let mut r = Rng::new(*seed);
                let mut v = vec![0u8; (*len as usize).min(1 << 20)];
                r.fill_bytes(&mut v);
                *buf = v;
                true
            }
        }
    }

    /// Simpler variants of this fault (multi-byte -> single byte, page -> sector, ...).
    pub fn simplify(&self) -> Vec<Fault> {
        match self {
            Fault::ByteSet { off, bytes } => {
                let bs = unhex(bytes);
                if bs.len() <= 1 {
                    return vec![];
                }
                bs.iter().enumerate().map(|(i, b)| Fault::ByteSet { off: off + i as u64, bytes: hex(&[*b]) }).collect()
            }
            Fault::ZeroPage { page } => {
                let base = page * PAGE as u64;
                vec![Fault::ZeroSector { off: base }, Fault::ByteSet { off: base, bytes: "00".into() }]
            }
            Fault::ZeroRange { off, len } => {
                let mut v = vec![];
                if *len > SECTOR as u64 {
                    v.push(Fault::ZeroSector { off: *off });
                    v.push(Fault::ZeroRange { off: *off, len: len / 2 });
                }
                v
            }
            Fault::ZeroSector { off } => vec![Fault::ZeroRange { off: *off, len: 16 }, Fault::ByteSet { off: *off, bytes: "00".into() }],
            Fault::StalePage { page } => vec![Fault::ZeroPage { page: *page }],
            Fault::Extend { add } if *add > 1 => vec![Fault::Extend { add: 1 }],
            _ => vec![],
        }
    }
}

fn zero_range(buf: &mut [u8], off: usize, len: usize) -> bool {
    if off >= buf.len() {
        return false;
    }
    let end = (off + len).min(buf.len());
    let changed = buf[off..end].iter().any(|b| *b != 0);
    buf[off..end].fill(0);
    changed
}

pub fn hex(b: &[u8]) -> String {
    const D: &[u8; 16] = b"0123456789abcdef";
    let mut s = Vec::with_capacity(b.len() * 2);
    for x in b {
        s.push(D[(x >> 4) as usize]);
        s.push(D[(x & 15) as usize]);
    }
    String::from_utf8(s).unwrap_or_default()
}

pub fn unhex(s: &str) -> Vec<u8> {
    let b = s.as_bytes();
    let mut v = Vec::with_capacity(b.len() / 2);
    let mut i = 0;
    fn d(c: u8) -> u8 {
        match c {
            b'0'..=b'9' => c - b'0',
            b'a'..=b'f' => c - b'a' + 10,
            b'A'..=b'F' => c - b'A' + 10,
            _ => 0,
        }
    }
    while i + 1 < b.len() {
        v.push(d(b[i]) * 16 + d(b[i + 1]));
        i += 2;
    }
    v
}

/// A fault aimed at one file of the database directory.
#[derive(Serialize, Deserialize, Clone, Debug, PartialEq)]
pub struct FileFault {
    /// path relative to the database directory
    pub file: String,
    #[serde(flatten)]
    pub fault: Fault,
}

pub fn role_of(rel: &str) -> &'static str {
    if rel.starts_with("wal/") {
        "wal"
    } else if rel == "turdb.meta" {
        "meta"
    } else if rel == "turdb.catalog" {
        "catalog"
    } else if rel.ends_with("_toast.tbd") {
        "toast"
    } else if rel.starts_with("turdb_catalog/") {
        "systable"
    } else if rel.ends_with(".tbd") {
        "table"
    } else if rel.ends_with(".idx") {
        "index"
    } else if rel.ends_with(".hnsw") {
        "hnsw"
    } else {
        "other"
    }
}

// ---------------------------------------------------------------------------------------------
// structure-aware targets
// ---------------------------------------------------------------------------------------------

/// (offset, width, label)
pub type Target = (usize, usize, &'static str);

fn rd16(b: &[u8], o: usize) -> usize {
    if o + 2 <= b.len() {
        u16::from_le_bytes([b[o], b[o + 1]]) as usize
    } else {
        0
    }
}

/// Interesting positions inside one 16 KiB B-tree / freelist page at file offset `base`.
pub fn page_targets(b: &[u8], base: usize, out: &mut Vec<Target>) {
    if base + PAGE > b.len() {
        return;
    }
    let p = &b[base..base + PAGE];
    let ty = p[0];
    out.push((base, 1, "page.type"));
    out.push((base + 1, 1, "page.flags"));
    out.push((base + 2, 2, "page.cell_count"));
    out.push((base + 4, 2, "page.free_start"));
    out.push((base + 6, 2, "page.free_end"));
    out.push((base + 8, 1, "page.frag"));
    out.push((base + 12, 4, "page.right_child"));
    let cells = rd16(p, 2).min(2000);
    match ty {
        0x02 => {
            out.push((base + 16, 4, "leaf.next_leaf"));
            out.push((base + 20, 4, "leaf.hdr2"));
            for i in 0..cells {
                let so = 24 + i * 8;
                if so + 8 > PAGE {
                    break;
                }
                out.push((base + so, 4, "slot.prefix"));
                out.push((base + so + 4, 2, "slot.offset"));
                out.push((base + so + 6, 2, "slot.key_len"));
                let co = rd16(p, so + 4);
                let kl = rd16(p, so + 6);
                if co + kl + 12 < PAGE && co >= 24 {
                    out.push((base + co, kl.max(1).min(8), "cell.key"));
                    let vo = co + kl;
                    out.push((base + vo, 1, "cell.value_len"));
                    out.push((base + vo + 1, 2, "cell.value_len2"));
                    // value = 17-byte MVCC header + record (header_len u16, bitmap, offsets)
                    let vstart = vo + if p[vo] <= 240 { 1 } else if p[vo] <= 248 { 2 } else { 3 };
                    if vstart + 17 + 8 < PAGE {
                        out.push((base + vstart, 1, "mvcc.flags"));
                        out.push((base + vstart + 1, 8, "mvcc.txn"));
                        out.push((base + vstart + 9, 8, "mvcc.prev"));
                        out.push((base + vstart + 17, 2, "rec.header_len"));
                        out.push((base + vstart + 19, 1, "rec.null_bitmap"));
                        out.push((base + vstart + 20, 2, "rec.offset0"));
                        out.push((base + vstart + 22, 2, "rec.offset1"));
                    }
                }
            }
        }
        0x01 => {
            for i in 0..cells {
                let so = 16 + i * 12;
                if so + 12 > PAGE {
                    break;
                }
                out.push((base + so, 4, "islot.prefix"));
                out.push((base + so + 4, 4, "islot.child"));
                out.push((base + so + 8, 2, "islot.offset"));
                out.push((base + so + 10, 2, "islot.key_len"));
                let co = rd16(p, so + 8);
                let kl = rd16(p, so + 10);
                if co + kl < PAGE && co >= 16 {
                    out.push((base + co, kl.max(1).min(8), "icell.key"));
                }
            }
        }
        0x30 => {
            out.push((base + 16, 4, "trunk.next"));
            out.push((base + 20, 4, "trunk.count"));
            out.push((base + 24, 4, "trunk.entry0"));
        }
        _ => {}
    }
}

/// Interesting positions of a whole file, by role.
pub fn file_targets(b: &[u8], role: &str) -> Vec<Target> {
    let mut out = vec![];
    match role {
        "table" | "index" | "toast" | "systable" | "hnsw" => {
            // 128-byte file header: magic + 4-byte granules of the used part
            out.push((0, 4, "hdr.magic"));
            out.push((8, 4, "hdr.magic2"));
            let mut o = 16;
            while o < 72 && o + 4 <= b.len() {
                out.push((o, 4, "hdr.field"));
                o += 4;
            }
            let pages = b.len() / PAGE;
            for p in 1..pages.min(64) {
                page_targets(b, p * PAGE, &mut out);
            }
        }
        "meta" => {
            out.push((0, 4, "meta.magic"));
            let mut o = 16;
            while o < 64 && o + 4 <= b.len() {
                out.push((o, 4, "meta.field"));
                o += 4;
            }
        }
        "catalog" => {
            out.push((0, 4, "cat.magic"));
            out.push((16, 4, "cat.version"));
            out.push((20, 4, "cat.page_size"));
            out.push((24, 8, "cat.schema_count"));
            out.push((64, 8, "cat.offset"));
            out.push((72, 8, "cat.length"));
            // body: every byte is a candidate (small file; lengths and counts are everywhere)
            for o in 128..b.len().min(128 + 4096) {
                out.push((o, 1, "cat.body"));
            }
        }
        "wal" => {
            let frames = b.len() / WAL_FRAME;
            for f in 0..frames.min(64) {
                let base = f * WAL_FRAME;
                out.push((base, 8, "wal.file_id"));
                out.push((base + 8, 4, "wal.page_no"));
                out.push((base + 12, 4, "wal.db_size"));
                out.push((base + 16, 4, "wal.salt1"));
                out.push((base + 20, 4, "wal.salt2"));
                out.push((base + 24, 8, "wal.checksum"));
                out.push((base + 32, 16, "wal.page_hdr"));
            }
        }
        _ => {}
    }
    out
}

const INTERESTING: &[&[u8]] = &[
    &[0x00],
    &[0xFF],
    &[0x7F],
    &[0x80],
    &[0x01],
    &[0xFE],
    &[0xFF, 0xFF],
    &[0x00, 0x00],
    &[0xFF, 0x7F],
    &[0x00, 0x80],
    &[0x00, 0x40],
    &[0x01, 0x40],
    &[0xFF, 0x3F],
    &[0xFF, 0xFF, 0xFF, 0xFF],
    &[0xFF, 0xFF, 0xFF, 0x7F],
    &[0x00, 0x00, 0x00, 0x80],
    &[0x00, 0x00, 0x00, 0x00],
    &[0x00, 0x00, 0x01, 0x00],
];

fn class_weight(label: &str) -> u32 {
    if label.starts_with("slot.") || label.starts_with("islot.") || label.starts_with("hnsw.slot") {
        24
    } else if label.starts_with("cell.value_len") || label.starts_with("rec.") {
        24
    } else if label.starts_with("page.") || label.starts_with("leaf.") || label.starts_with("trunk.") || label.starts_with("hnsw.page") {
        22
    } else if label.starts_with("hdr.") || label.starts_with("meta.") || label == "cat.offset" || label == "cat.length" || label.starts_with("hnsw.hdr") {
        12
    } else if label == "cat.body" || label.starts_with("wal.") {
        30
    } else if label.starts_with("cell.key") || label.starts_with("icell.") || label.starts_with("mvcc.") {
        8
    } else {
        5
    }
}

/// A position: structure-aware with probability 4/5 (when targets exist), else uniform. Among
/// the targets a class (slot array, length fields, page header, file header, ...) is drawn by
/// weight first, then a target of that class uniformly, so that a page full of cells does not
/// starve the headers.
pub fn pick_offset(rng: &mut Rng, len: usize, targets: &[Target]) -> (usize, usize, &'static str) {
    if !targets.is_empty() && rng.chance(4, 5) {
        let mut classes: Vec<(u32, Vec<usize>)> = vec![];
        for (i, t) in targets.iter().enumerate() {
            let w = class_weight(t.2);
            match classes.iter_mut().find(|c| c.0 == w) {
                Some(c) => c.1.push(i),
                None => classes.push((w, vec![i])),
            }
        }
        classes.sort_by_key(|c| c.0);
        let ws: Vec<u32> = classes.iter().map(|c| c.0).collect();
        let c = &classes[rng.weighted(&ws)];
        let t = targets[c.1[rng.usize_below(c.1.len())]];
        let w = t.1.max(1);
        (t.0 + rng.usize_below(w), w, t.2)
    } else {
        (rng.usize_below(len.max(1)), 1, "uniform")
    }
}

/// One fault for a buffer of `len` bytes. `paged`: page-level kinds make sense; `has_old`: an older
/// image exists; `allow_random`: whole-content random replacement allowed (decoders only).
#[allow(clippy::too_many_arguments)]
pub fn gen_fault(rng: &mut Rng, buf: &[u8], targets: &[Target], paged: bool, is_wal: bool, has_old: bool, allow_random: bool) -> (Fault, &'static str) {
    let len = buf.len();
    //             flip set sector trunc ext swap stale zpage zrange random
    let mut w = [24u32, 30, 8, 8, 4, 0, 0, 0, 0, 0];
    if paged && len >= 2 * PAGE {
        w[5] = 5;
        w[7] = 5;
        if has_old {
            w[6] = 8;
        }
    }
    if is_wal && len >= WAL_FRAME {
        w[8] = 8;
    }
    if allow_random {
        w[9] = 6;
    }
    if len == 0 {
        return (Fault::Extend { add: 1 + rng.below(64) }, "empty");
    }
    match rng.weighted(&w) {
        0 => {
            let (o, _, l) = pick_offset(rng, len, targets);
            (Fault::BitFlip { off: o.min(len - 1) as u64, bit: rng.below(8) as u8 }, l)
        }
        1 => {
            let (o, w, l) = pick_offset(rng, len, targets);
            let bytes: Vec<u8> = if rng.chance(3, 5) {
                // an "interesting" value of the field's width when possible
                let cands: Vec<&&[u8]> = INTERESTING.iter().filter(|c| c.len() <= w.max(1)).collect();
                cands[rng.usize_below(cands.len())].to_vec()
            } else {
                let n = 1 + rng.usize_below(w.clamp(1, 4));
                let mut v = vec![0u8; n];
                rng.fill_bytes(&mut v);
                v
            };
            // multi-byte values start at the field start
            let o = if bytes.len() > 1 {
                targets.iter().find(|t| t.0 <= o && o < t.0 + t.1.max(1)).map(|t| t.0).unwrap_or(o)
            } else {
                o
            };
            (Fault::ByteSet { off: o.min(len - 1) as u64, bytes: hex(&bytes) }, l)
        }
        2 => {
            let (o, _, l) = pick_offset(rng, len, targets);
            (Fault::ZeroSector { off: (o / SECTOR * SECTOR) as u64 }, l)
        }
        3 => {
            let unit = if is_wal { WAL_FRAME } else { PAGE };
            let l = if (paged || is_wal) && len > unit && rng.chance(3, 4) {
                // unit aligned: passes the "multiple of page size" check and reaches deeper code
                (rng.usize_below(len / unit) * unit) as u64
            } else if rng.chance(1, 4) {
                rng.below(200.min(len as u64))
            } else {
                rng.below(len as u64)
            };
            (Fault::Truncate { len: l }, "size")
        }
        4 => {
            let add = if paged && rng.chance(1, 2) { (1 + rng.below(3)) * PAGE as u64 } else { 1 + rng.below(40000) };
            (Fault::Extend { add }, "size")
        }
        5 => {
            let n = (len / PAGE) as u64;
            let a = rng.below(n);
            let mut b = rng.below(n);
            if a == b {
                b = (a + 1) % n;
            }
            (Fault::SwapPages { a, b }, "page")
        }
        6 => (Fault::StalePage { page: rng.below((len / PAGE) as u64) }, "page"),
        7 => (Fault::ZeroPage { page: rng.below((len / PAGE) as u64) }, "page"),
        8 => {
            let f = rng.below((len / WAL_FRAME) as u64);
            (Fault::ZeroRange { off: f * WAL_FRAME as u64, len: WAL_FRAME as u64 }, "wal.frame")
        }
        _ => {
            let l = match rng.below(4) {
                0 => rng.below(16),
                1 => len as u64,
                2 => rng.below(2 * len as u64 + 8),
                _ => rng.below(300),
            };
            (Fault::Random { len: l, seed: rng.next_u64() }, "random")
        }
    }
}
