//! The `corruptsim` engine: whole-database part (a) and single-object part (b) of C23.

use crate::dbgen::{self, BuildSpec, Step};
use crate::decoders::{self, Item};
use crate::faults::{self, gen_fault, role_of, Fault, FileFault, PAGE};
use crate::guard::{self, guarded, mark, PanicInfo};
use serde_json::{json, Value};
use simcore::driver::{ddmin_keepsets, Engine};
use simcore::pool::{self, JobStatus, PoolCfg};
use simcore::rng::{fnv1a, mix};
use simcore::{Rng, RunOutcome, Tier, Violation};
use std::collections::{BTreeMap, BTreeSet};
use std::path::{Path, PathBuf};
use std::time::Duration;

pub const PROPERTY: &str = "C23";
/// Address-space limit of the child: 1 GiB (about 0.6 GiB above the child's own mappings, 256 MiB of
/// which are the simulation thread's stack). Larger limits (4 GiB, 2 GiB were tried) let a corrupted
/// count ask for 1-4 GiB successfully; TurDB then zero-fills / re-allocates GiBs for 5-25 CPU seconds,
/// a slow-but-finite path whose duration depends on host load, i.e. a "hang" verdict that does not
/// replay. Under 1 GiB such requests fail at once and are reported as `abort`, deterministically.
const AS_LIMIT: u64 = 1 << 30;
const FSIZE_LIMIT: u64 = 1 << 30;
const MAX_PANICS_PER_RUN: usize = 6;
/// CPU-time budget of one exercise step / decoder item, and of the whole (valid-input) build
const STEP_TIMEOUT_DEFAULT_S: u32 = 20;
const BUILD_TIMEOUT_S: u32 = 60;

/// Step budget; `VSIM_DEBUG=<seconds>` overrides it (triage aid: is a "hang" merely slow?).
pub fn step_timeout_s() -> u32 {
    std::env::var("VSIM_DEBUG").ok().and_then(|v| v.parse::<u32>().ok()).filter(|v| *v > 0).unwrap_or(STEP_TIMEOUT_DEFAULT_S)
}

pub struct CorruptSim;

/// Per-child set-up: resource limits (absurd allocations / file sizes fail fast), deterministic
/// clock + entropy + hash order, quiet panic hook.
fn setup_child(env_seed: u64) {
    // SAFETY: plain setrlimit/signal calls on our own process.
    unsafe {
        // hard limit left higher: the panic hook lifts the soft limit while it symbolises a backtrace
        let lim = libc::rlimit { rlim_cur: AS_LIMIT, rlim_max: 16 << 30 };
        libc::setrlimit(libc::RLIMIT_AS, &lim);
        let fl = libc::rlimit { rlim_cur: FSIZE_LIMIT, rlim_max: FSIZE_LIMIT };
        libc::setrlimit(libc::RLIMIT_FSIZE, &fl);
        // exceeding RLIMIT_FSIZE then yields EFBIG (an I/O error TurDB can report), not a signal
        libc::signal(libc::SIGXFSZ, libc::SIG_IGN);
    }
    simdisk::reset_hash_counter();
    simdisk::install_clock_entropy(env_seed);
    guard::install_panic_hook();
    crate::trap::init(&pool::child_scratch().join("result.json"), step_timeout_s());
}

/// Real monotonic time in ms (the libc clock is simulated; this asks the kernel directly).
pub fn real_ms() -> u64 {
    let mut ts = libc::timespec { tv_sec: 0, tv_nsec: 0 };
    // SAFETY: plain syscall writing into our timespec.
    unsafe {
        libc::syscall(libc::SYS_clock_gettime, libc::CLOCK_MONOTONIC, &mut ts as *mut libc::timespec);
    }
    ts.tv_sec as u64 * 1000 + ts.tv_nsec as u64 / 1_000_000
}

fn scratch_root() -> PathBuf {
    let p = pool::child_scratch().join("c23");
    let _ = std::fs::create_dir_all(&p);
    p
}

fn part_of(profile: &str) -> &str {
    profile.split('@').next().unwrap_or("mix")
}

struct Log {
    lines: Vec<String>,
}

impl Log {
    fn push(&mut self, s: String) {
        self.lines.push(s);
    }
    fn hash(&self) -> u64 {
        let mut h = 0u64;
        for l in &self.lines {
            h = mix(h, fnv1a(l.as_bytes()));
        }
        h
    }
}

fn kinds_of(faults: &[FileFault]) -> String {
    let s: BTreeSet<&str> = faults.iter().map(|f| f.fault.kind()).collect();
    s.into_iter().collect::<Vec<_>>().join("+")
}

fn roles_of(faults: &[FileFault]) -> String {
    let s: BTreeSet<&str> = faults.iter().map(|f| role_of(&f.file)).collect();
    s.into_iter().collect::<Vec<_>>().join("+")
}

fn focus_site(case: &Value) -> Option<String> {
    case.get("focus").and_then(|f| f.get("site")).and_then(|s| s.as_str()).map(|s| s.to_string())
}

// ---------------------------------------------------------------------------------------------
// part (a): whole database
// ---------------------------------------------------------------------------------------------

enum FaultSrc {
    Explicit(Vec<FileFault>),
    Generate(Rng),
}

struct DbInput {
    build: BuildSpec,
    steps: Vec<Step>,
    faults: FaultSrc,
    env_seed: u64,
    focus: Option<String>,
    /// stop after generating the explicit case (used to turn a seeded case into an explicit one)
    gen_only: bool,
}

fn db_case(build: &BuildSpec, faults: &[FileFault], steps: &[Step], env_seed: u64, focus: Option<&str>) -> Value {
    let mut c = json!({
        "engine": "corruptsim",
        "part": "db",
        "env_seed": env_seed,
        "build": build,
        "faults": faults,
        "steps": steps,
    });
    if let Some(s) = focus {
        c["focus"] = json!({ "site": s });
    }
    c
}

/// Chooses 1-4 faults over all files of the database directory.
fn gen_file_faults(rng: &mut Rng, dbdir: &Path, old: &Path, out: &mut RunOutcome) -> Vec<FileFault> {
    let files = dbgen::list_files(dbdir);
    if files.is_empty() {
        return vec![];
    }
    // role-balanced choice: pick a role present, then a file of that role
    let mut by_role: BTreeMap<&str, Vec<&String>> = BTreeMap::new();
    for f in &files {
        by_role.entry(role_of(f)).or_default().push(f);
    }
    let roles: Vec<&str> = by_role.keys().copied().collect();
    let role_w: Vec<u32> = roles
        .iter()
        .map(|r| match *r {
            "table" => 24,
            "index" => 22,
            "toast" => 10,
            "catalog" => 8,
            "meta" => 4,
            "wal" => 14,
            "systable" => 4,
            _ => 2,
        })
        .collect();
    let n = 1 + rng.weighted(&[5, 3, 2, 1]);
    let mut faults: Vec<FileFault> = vec![];
    // content as it evolves while faults accumulate (positions refer to the current content)
    let mut cur: BTreeMap<String, Vec<u8>> = BTreeMap::new();
    for _ in 0..n {
        // later faults prefer the file already hit (several faults in one structure)
        let file: String = if !faults.is_empty() && rng.chance(1, 3) {
            faults[rng.usize_below(faults.len())].file.clone()
        } else {
            let role = roles[rng.weighted(&role_w)];
            let fs = &by_role[role];
            fs[rng.usize_below(fs.len())].to_string()
        };
        let role = role_of(&file);
        let bytes = cur.entry(file.clone()).or_insert_with(|| std::fs::read(dbdir.join(&file)).unwrap_or_default());
        let targets = faults::file_targets(bytes, role);
        let paged = matches!(role, "table" | "index" | "toast" | "systable" | "meta" | "hnsw");
        let has_old = old.join(&file).exists();
        let (f, label) = gen_fault(rng, bytes, &targets, paged, role == "wal", has_old, false);
        let oldb = if matches!(f, Fault::StalePage { .. }) { std::fs::read(old.join(&file)).ok() } else { None };
        f.apply(bytes, oldb.as_deref());
        out.count(&format!("target.{}", label), 1);
        faults.push(FileFault { file, fault: f });
    }
    faults
}

fn apply_file_faults(faults: &[FileFault], dbdir: &Path, old: &Path, out: &mut RunOutcome) -> u64 {
    let mut effective = 0;
    for ff in faults {
        let p = dbdir.join(&ff.file);
        let mut bytes = match std::fs::read(&p) {
            Ok(b) => b,
            Err(_) => {
                out.count("fault.noop", 1);
                continue;
            }
        };
        let oldb = std::fs::read(old.join(&ff.file)).ok();
        let changed = ff.fault.apply(&mut bytes, oldb.as_deref());
        if changed {
            effective += 1;
            let _ = std::fs::write(&p, &bytes);
            out.count(&format!("fault.kind.{}", ff.fault.kind()), 1);
            out.count(&format!("fault.role.{}", role_of(&ff.file)), 1);
        } else {
            out.count("fault.noop", 1);
        }
    }
    effective
}

#[allow(clippy::too_many_arguments)]
fn panic_violation(phase: &str, p: &PanicInfo, what: &str, kinds: &str, roles: &str, case: Value, extra: &str) -> Violation {
    let mut sig = BTreeMap::new();
    sig.insert("phase".to_string(), phase.to_string());
    sig.insert("site".to_string(), p.site.clone());
    sig.insert("faults".to_string(), kinds.to_string());
    sig.insert("role".to_string(), roles.to_string());
    Violation {
        property: PROPERTY.into(),
        verdict: "panic".into(),
        sig,
        detail: format!("expected Ok or Err, observed a panic at {} ({}) during {}; {}", p.site, p.msg, what, extra),
        case,
    }
}

/// SQL verb (or API name) of a step: the `where` label of trapped hangs / aborts.
fn verb_of(op: &str) -> String {
    if let Some(api) = op.strip_prefix('@') {
        return format!("Database::{}", api);
    }
    let mut it = op.split_whitespace();
    let a = it.next().unwrap_or("");
    let b = it.next().unwrap_or("");
    if a.eq_ignore_ascii_case("PRAGMA") || b.eq_ignore_ascii_case("COUNT(*)") {
        format!("{} {}", a, b)
    } else {
        a.to_string()
    }
}

fn run_db(inp: DbInput) -> RunOutcome {
    let mut out = RunOutcome::default();
    out.count("runs.db", 1);
    let root = scratch_root();
    let mut log = Log { lines: vec![] };
    crate::trap::enter_build(BUILD_TIMEOUT_S);
    let built = dbgen::run_build(&inp.build, &root);
    crate::trap::idle();
    let built = match built {
        Ok(b) => b,
        Err(e) => {
            // creating a fresh database failed: not a C23 matter, but nothing was explored
            out.count("build.failed", 1);
            out.sample = json!({ "part": "db", "build_error": e });
            out.events_hash = fnv1a(e.as_bytes());
            return out;
        }
    };
    out.count("build.stmt_ok", built.stmt_ok);
    out.count("build.stmt_err", built.stmt_err);
    out.count(&format!("build.end.{}", inp.build.end), 1);
    for l in &built.transcript {
        log.push(format!("build {}", l));
    }
    log.push(format!("files {:016x}", built.files_hash));
    if !built.build_panics.is_empty() {
        // a panic while building a *valid* database belongs to other properties; the run is void here
        out.count("build.panic", 1);
        out.sample = json!({ "part": "db", "build_panics": built.build_panics });
        out.events_hash = log.hash();
        return out;
    }
    let files = dbgen::list_files(&built.db);
    let mut file_info = vec![];
    let mut rows_present = false;
    for f in &files {
        let len = std::fs::metadata(built.db.join(f)).map(|m| m.len()).unwrap_or(0);
        let role = role_of(f);
        out.count(&format!("files.{}", role), 1);
        if role == "wal" && len > 0 {
            out.count("build.wal_nonempty", 1);
        }
        if role == "toast" && len > 2 * PAGE as u64 {
            out.count("build.toast_multi_page", 1);
        }
        if role == "table" {
            rows_present = true;
        }
        file_info.push(json!([f, len]));
    }
    if let Ok(b) = std::fs::read(built.db.join("root/t1_toast.tbd")) {
        if b.len() > PAGE + 4 && u16::from_le_bytes([b[PAGE + 2], b[PAGE + 3]]) > 0 {
            out.count("build.toast_used", 1);
        }
    }
    // faults
    let faults: Vec<FileFault> = match inp.faults {
        FaultSrc::Explicit(f) => f,
        FaultSrc::Generate(mut rng) => gen_file_faults(&mut rng, &built.db, &built.old, &mut out),
    };
    if inp.gen_only {
        out.sample = db_case(&inp.build, &faults, &inp.steps, inp.env_seed, None);
        return out;
    }
    let effective = apply_file_faults(&faults, &built.db, &built.old, &mut out);
    out.count("faults.applied", effective);
    log.push(format!("faults {}", serde_json::to_string(&faults).unwrap_or_default()));
    let kinds = kinds_of(&faults);
    let roles = roles_of(&faults);
    let fault_text = serde_json::to_string(&faults).unwrap_or_default();

    // ---- exercise the real code
    let mut handle: Option<turdb::Database> = None;
    let mut panics = 0usize;
    let mut seen: BTreeSet<(String, String)> = BTreeSet::new();
    let mut step_log: Vec<Value> = vec![];
    let mut dead = false; // open returned Err: nothing more can be exercised
    let mut violations: Vec<Violation> = vec![];
    let mut harness_error: Option<String> = None;
    let mut first_open_done = false;

    let mut record_panic = |phase: &str, p: &PanicInfo, what: &str, out: &mut RunOutcome, violations: &mut Vec<Violation>, harness_error: &mut Option<String>| {
        out.count(&format!("phase.{}.panic", phase), 1);
        out.states.push(fnv1a(p.site.as_bytes()));
        if guard::is_harness_site(&p.site) {
            *harness_error = Some(format!("panic inside the harness at {}: {}", p.site, p.msg));
            return;
        }
        if let Some(f) = &inp.focus {
            if *f != p.site {
                out.count("panic.off_focus", 1);
                return;
            }
        }
        if seen.insert((phase.to_string(), p.site.clone())) {
            let case = db_case(&inp.build, &faults, &inp.steps, inp.env_seed, Some(&p.site));
            violations.push(panic_violation(phase, p, what, &kinds, &roles, case, &format!("faults: {}", fault_text.chars().take(600).collect::<String>())));
        }
    };

    let dbdir = built.db.clone();
    let case_json = serde_json::to_vec(&db_case(&inp.build, &faults, &inp.steps, inp.env_seed, None)).unwrap_or_default();
    crate::trap::set_case(&case_json);
    crate::trap::set_faults_role(&kinds, &roles);
    for (i, step) in inp.steps.iter().enumerate() {
        if dead || panics >= MAX_PANICS_PER_RUN {
            break;
        }
        let phase = step.phase.as_str();
        // make sure there is a handle (first open, explicit reopen, or reopen after a panic)
        if step.op == "@reopen" {
            if let Some(db) = handle.take() {
                mark("drop before reopen");
                crate::trap::set_phase("close");
                crate::trap::set_where("drop(Database)");
                crate::trap::enter_step(step_timeout_s());
                if let Err(p) = guarded(move || drop(db)) {
                    panics += 1;
                    record_panic("close", &p, "drop(Database)", &mut out, &mut violations, &mut harness_error);
                }
            }
        }
        if handle.is_none() && step.op != "@close" {
            let ophase = if first_open_done { if step.op == "@reopen" { "reopen" } else { "open" } } else { "open" };
            mark(&format!("Database::open ({})", ophase));
            crate::trap::set_phase(ophase);
            crate::trap::set_where("Database::open");
            crate::trap::enter_step(step_timeout_s());
            let r = guarded(|| turdb::Database::open(&dbdir));
            let first = !first_open_done;
            first_open_done = true;
            match r {
                Ok(Ok(db)) => {
                    out.count(&format!("phase.{}.ok", ophase), 1);
                    if first {
                        out.count("open.ok", 1);
                    }
                    log.push(format!("step {} Database::open ok", i));
                    step_log.push(json!([ophase, "Database::open", "ok"]));
                    handle = Some(db);
                }
                Ok(Err(e)) => {
                    out.count(&format!("phase.{}.err", ophase), 1);
                    if first {
                        out.count("open.err", 1);
                        for ff in &faults {
                            out.count(&format!("open.err.by.{}.{}", role_of(&ff.file), ff.fault.kind()), 1);
                        }
                    }
                    log.push(format!("step {} Database::open err", i));
                    let msg: String = format!("{:#}", e).chars().take(160).collect();
                    step_log.push(json!([ophase, "Database::open", format!("err: {}", msg.replace(dbdir.to_string_lossy().as_ref(), "<db>"))]));
                    dead = true;
                    continue;
                }
                Err(p) => {
                    if first {
                        out.count("open.panic", 1);
                    }
                    log.push(format!("step {} Database::open panic@{}", i, p.site));
                    step_log.push(json!([ophase, "Database::open", format!("PANIC {}", p.site)]));
                    panics += 1;
                    record_panic(ophase, &p, "Database::open", &mut out, &mut violations, &mut harness_error);
                    dead = true;
                    continue;
                }
            }
        }
        if step.op == "@reopen" {
            continue;
        }
        let opname: String = step.op.chars().take(70).collect();
        mark(&format!("{} {}", phase, opname));
        crate::trap::set_phase(phase);
        crate::trap::set_where(&verb_of(&step.op));
        crate::trap::enter_step(step_timeout_s());
        let res: Result<String, PanicInfo> = match step.op.as_str() {
            "@close" => match handle.take() {
                Some(db) => {
                    let r = guarded(|| db.close().is_ok());
                    let r2 = guarded(move || drop(db));
                    match (r, r2) {
                        (Err(p), _) | (_, Err(p)) => Err(p),
                        (Ok(true), Ok(())) => Ok("ok".into()),
                        (Ok(false), Ok(())) => Ok("err".into()),
                    }
                }
                None => Ok("skipped".into()),
            },
            "@checkpoint" => {
                let db = handle.as_ref().expect("handle");
                guarded(|| db.checkpoint().is_ok()).map(|ok| if ok { "ok".to_string() } else { "err".to_string() })
            }
            sql => {
                let db = handle.as_ref().expect("handle");
                let r = guarded(|| db.execute(sql));
                match r {
                    Ok(x) => Ok(dbgen::class_pub(&Ok(x))),
                    Err(p) => Err(p),
                }
            }
        };
        match res {
            Ok(class) => {
                let k = if class.starts_with("ok") {
                    "ok"
                } else if class == "skipped" {
                    "skipped"
                } else {
                    "err"
                };
                out.count(&format!("phase.{}.{}", phase, k), 1);
                log.push(format!("step {} {} {}", i, phase, class));
                step_log.push(json!([phase, opname, class]));
            }
            Err(p) => {
                log.push(format!("step {} {} panic@{}", i, phase, p.site));
                step_log.push(json!([phase, opname, format!("PANIC {} ({})", p.site, p.msg.chars().take(100).collect::<String>())]));
                panics += 1;
                record_panic(phase, &p, &format!("`{}`", opname), &mut out, &mut violations, &mut harness_error);
                // the handle's state is unknown after a panic: drop it, the next step reopens
                if let Some(db) = handle.take() {
                    mark("drop after panic");
                    crate::trap::set_phase("close");
                    crate::trap::set_where("drop(Database) after a panic");
                    crate::trap::enter_step(step_timeout_s());
                    if let Err(p2) = guarded(move || drop(db)) {
                        panics += 1;
                        record_panic("close", &p2, "drop(Database) after a panic", &mut out, &mut violations, &mut harness_error);
                    }
                }
            }
        }
    }
    if let Some(db) = handle.take() {
        mark("final drop");
        crate::trap::set_phase("close");
        crate::trap::set_where("drop(Database)");
        crate::trap::enter_step(step_timeout_s());
        if let Err(p) = guarded(move || drop(db)) {
            record_panic("close", &p, "drop(Database)", &mut out, &mut violations, &mut harness_error);
        }
    }
    crate::trap::idle();
    drop(record_panic);
    out.violations = violations;
    out.harness_error = harness_error;
    out.events_hash = log.hash();
    out.nontrivial = effective > 0 && rows_present;
    out.fingerprint = mix(built.files_hash, fnv1a(fault_text.as_bytes()));
    out.sample = json!({
        "part": "db",
        "build": {"statements": inp.build.stmts.len(), "end": inp.build.end, "first_statements": inp.build.stmts.iter().take(4).map(|s| s.chars().take(120).collect::<String>()).collect::<Vec<_>>()},
        "files": file_info,
        "faults": faults,
        "steps": step_log,
    });
    let _ = std::fs::remove_dir_all(&root);
    out
}

// ---------------------------------------------------------------------------------------------
// part (b): single stored objects
// ---------------------------------------------------------------------------------------------

fn dec_case(items: &[Item], env_seed: u64, focus: Option<&str>) -> Value {
    let mut c = json!({
        "engine": "corruptsim",
        "part": "dec",
        "env_seed": env_seed,
        "items": items,
    });
    if let Some(s) = focus {
        c["focus"] = json!({ "site": s });
    }
    c
}

fn run_dec(items: &[Item], env_seed: u64, focus: Option<&str>, mut out: RunOutcome, mut log: Log) -> RunOutcome {
    let root = scratch_root();
    let mut seen: BTreeSet<(String, String)> = BTreeSet::new();
    let mut sample_items = vec![];
    let mut any_effective = false;
    let mut fp = 0u64;
    for (i, it) in items.iter().enumerate() {
        let item_json = serde_json::to_vec(&dec_case(std::slice::from_ref(it), env_seed, None)).unwrap_or_default();
        crate::trap::set_case(&item_json);
        crate::trap::set_phase(&format!("decoder:{}", it.decoder));
        crate::trap::set_where("start");
        {
            let ks: BTreeSet<&str> = it.faults.iter().map(|f| f.kind()).collect();
            crate::trap::set_faults_role(&ks.into_iter().collect::<Vec<_>>().join("+"), "object");
        }
        crate::trap::enter_step(step_timeout_s());
        let ti = real_ms();
        let r = decoders::run_item(it, &root);
        crate::trap::idle();
        let _ = ti;
        out.count("dec.items", 1);
        out.count(&format!("dec.{}.items", it.decoder), 1);
        out.count(&format!("dec.{}.calls", it.decoder), r.calls);
        out.count(&format!("dec.{}.ok", it.decoder), r.ok);
        out.count(&format!("dec.{}.err", it.decoder), r.err);
        out.count(&format!("dec.{}.panic", it.decoder), r.panics.len() as u64);
        for f in &it.faults {
            out.count(&format!("fault.kind.{}", f.kind()), 1);
        }
        out.count("fault.noop", r.noop_faults);
        if (r.noop_faults as usize) < it.faults.len() {
            any_effective = true;
        }
        let ftxt = serde_json::to_string(&it.faults).unwrap_or_default();
        fp = mix(fp, mix(fnv1a(it.base.as_bytes()), fnv1a(ftxt.as_bytes())));
        log.push(format!(
            "item {} {} calls={} ok={} err={} panics={}",
            i,
            it.decoder,
            r.calls,
            r.ok,
            r.err,
            r.panics.iter().map(|p| p.1.site.clone()).collect::<Vec<_>>().join(",")
        ));
        if sample_items.len() < 12 {
            sample_items.push(json!({
                "decoder": it.decoder, "base_len": it.base.len() / 2, "faults": it.faults,
                "calls": r.calls, "ok": r.ok, "err": r.err,
                "panics": r.panics.iter().map(|p| format!("{} at {}", p.0, p.1.site)).collect::<Vec<_>>(),
            }));
        }
        for (label, p) in &r.panics {
            out.states.push(fnv1a(p.site.as_bytes()));
            // several faults: is one of them alone enough for this site? (cheap, in-process)
            let mut it_min: Item = it.clone();
            if it.faults.len() > 1 && !guard::is_harness_site(&p.site) {
                for f in &it.faults {
                    let mut single = it.clone();
                    single.faults = vec![f.clone()];
                    crate::trap::set_case(&item_json);
                    crate::trap::enter_step(step_timeout_s());
                    let r1 = decoders::run_item(&single, &root);
                    crate::trap::idle();
                    if r1.panics.iter().any(|q| q.1.site == p.site) {
                        it_min = single;
                        out.count("dec.reduced_to_single_fault", 1);
                        break;
                    }
                }
            }
            let it = &it_min;
            let ftxt = serde_json::to_string(&it.faults).unwrap_or_default();
            if guard::is_harness_site(&p.site) {
                out.harness_error = Some(format!("panic inside the harness at {}: {}", p.site, p.msg));
                continue;
            }
            if let Some(f) = focus {
                if f != p.site {
                    out.count("panic.off_focus", 1);
                    continue;
                }
            }
            let phase = format!("decoder:{}", it.decoder);
            if seen.insert((phase.clone(), p.site.clone())) {
                let kinds: BTreeSet<&str> = it.faults.iter().map(|f| f.kind()).collect();
                let mut sig = BTreeMap::new();
                sig.insert("phase".to_string(), phase.clone());
                sig.insert("site".to_string(), p.site.clone());
                sig.insert("faults".to_string(), kinds.into_iter().collect::<Vec<_>>().join("+"));
                sig.insert("role".to_string(), "object".to_string());
                out.violations.push(Violation {
                    property: PROPERTY.into(),
                    verdict: "panic".into(),
                    sig,
                    detail: format!(
                        "expected a value or an error, observed a panic at {} ({}) in {} on a {}-byte corrupted {} encoding; faults: {}",
                        p.site,
                        p.msg,
                        label,
                        it.base.len() / 2,
                        it.decoder,
                        ftxt.chars().take(400).collect::<String>()
                    ),
                    case: dec_case(std::slice::from_ref(it), env_seed, Some(&p.site)),
                });
            }
        }
    }
    out.events_hash = log.hash();
    out.nontrivial = any_effective;
    out.fingerprint = fp;
    out.sample = json!({ "part": "dec", "items": items.len(), "first_items": sample_items });
    let _ = std::fs::remove_dir_all(&root);
    out
}

struct Seeded {
    part_db: bool,
    env_seed: u64,
    gen: dbgen::Generated,
    rng: Rng,
}

fn seeded(profile: &str, seed: u64, run: u64, tier: Tier) -> Seeded {
    let rs = mix(seed, run);
    let rng = Rng::new(rs);
    let part_db = match part_of(profile) {
        "db" => true,
        "dec" => false,
        _ => rng.fork("part").chance(4, 5),
    };
    let scale = if !part_db {
        1
    } else if tier == Tier::Thorough {
        2
    } else {
        1
    };
    let gen = dbgen::generate(&mut rng.fork("build"), scale);
    Seeded { part_db, env_seed: mix(rs, 0xC23), gen, rng }
}

fn dec_items_for_seed(s: &Seeded, tier: Tier, out: &mut RunOutcome, log: &mut Log) -> Result<Vec<Item>, String> {
    let root = scratch_root();
    // valid-input work (build, harvest, TurDB's own builders): a hang or abort here is not C23's
    crate::trap::enter_build(BUILD_TIMEOUT_S);
    let r = dec_items_inner(s, tier, out, log, &root);
    crate::trap::idle();
    r
}

fn dec_items_inner(s: &Seeded, tier: Tier, out: &mut RunOutcome, log: &mut Log, root: &Path) -> Result<Vec<Item>, String> {
    let t0 = real_ms();
    let built = dbgen::run_build(&s.gen.build, root)?;
    out.count("time.build_ms", real_ms() - t0);
    for l in &built.transcript {
        log.push(format!("build {}", l));
    }
    log.push(format!("files {:016x}", built.files_hash));
    if !built.build_panics.is_empty() {
        out.count("build.panic", 1);
    }
    let t1 = real_ms();
    let h = decoders::harvest(&built.db, &s.gen.tables);
    out.count("harvest.leaf_pages", h.leaf_pages.len() as u64);
    out.count("harvest.interior_pages", h.interior_pages.len() as u64);
    out.count("harvest.records", h.records.len() as u64);
    out.count("harvest.index_keys", h.index_keys.len() as u64);
    out.count("harvest.wal_segment", h.wal_segment.is_some() as u64);
    out.count("harvest.small_files", h.small_files.len() as u64);
    let n = if tier == Tier::Thorough { 200 } else { 120 };
    let _ = t1;
    let t2 = real_ms();
    let mut items = decoders::gen_items(&mut s.rng.fork("items"), &h, root, n);
    // decoders known to abort / loop on corrupted sizes go last: a trapped abort ends the run, and
    // the other items of the run should not be lost with it (stable sort: order stays seeded)
    items.sort_by_key(|it| match it.decoder.as_str() {
        "catalog" | "hnsw_file" | "wal_dir" => 2,
        "btree_file" => 1,
        _ => 0,
    });
    let _ = t2;
    let _ = std::fs::remove_dir_all(root.join("db"));
    let _ = std::fs::remove_dir_all(root.join("old"));
    Ok(items)
}

/// Runs in a child: the explicit case a seeded run would execute (returned in `sample`).
pub fn explicit_case_of_seed(profile: &str, seed: u64, run: u64, tier: Tier) -> RunOutcome {
    let s = seeded(profile, seed, run, tier);
    setup_child(s.env_seed);
    if s.part_db {
        run_db(DbInput { build: s.gen.build.clone(), steps: s.gen.steps.clone(), faults: FaultSrc::Generate(s.rng.fork("faults")), env_seed: s.env_seed, focus: None, gen_only: true })
    } else {
        let mut out = RunOutcome::default();
        let mut log = Log { lines: vec![] };
        match dec_items_for_seed(&s, tier, &mut out, &mut log) {
            Ok(items) => out.sample = dec_case(&items, s.env_seed, None),
            Err(e) => out.harness_error = Some(e),
        }
        out
    }
}

impl CorruptSim {
    fn run_seeded_inner(&self, s: Seeded, tier: Tier) -> RunOutcome {
        if s.part_db {
            run_db(DbInput { build: s.gen.build.clone(), steps: s.gen.steps.clone(), faults: FaultSrc::Generate(s.rng.fork("faults")), env_seed: s.env_seed, focus: None, gen_only: false })
        } else {
            let mut out = RunOutcome::default();
            out.count("runs.dec", 1);
            let mut log = Log { lines: vec![] };
            match dec_items_for_seed(&s, tier, &mut out, &mut log) {
                Ok(items) => run_dec(&items, s.env_seed, None, out, log),
                Err(e) => {
                    out.count("build.failed", 1);
                    out.sample = json!({ "part": "dec", "build_error": e });
                    out
                }
            }
        }
    }

}

impl CorruptSim {
    fn run_case_inner(&self, case: &Value) -> RunOutcome {
        let env_seed = case["env_seed"].as_u64().unwrap_or(1);
        let focus = focus_site(case);
        setup_child(env_seed);
        match case["part"].as_str().unwrap_or("") {
            "db" => {
                let build: BuildSpec = match serde_json::from_value(case["build"].clone()) {
                    Ok(b) => b,
                    Err(e) => return RunOutcome { harness_error: Some(format!("bad case.build: {}", e)), ..Default::default() },
                };
                let faults: Vec<FileFault> = match serde_json::from_value(case["faults"].clone()) {
                    Ok(b) => b,
                    Err(e) => return RunOutcome { harness_error: Some(format!("bad case.faults: {}", e)), ..Default::default() },
                };
                let steps: Vec<Step> = match serde_json::from_value(case["steps"].clone()) {
                    Ok(b) => b,
                    Err(e) => return RunOutcome { harness_error: Some(format!("bad case.steps: {}", e)), ..Default::default() },
                };
                run_db(DbInput { build, steps, faults: FaultSrc::Explicit(faults), env_seed, focus, gen_only: false })
            }
            "dec" => {
                let items: Vec<Item> = match serde_json::from_value(case["items"].clone()) {
                    Ok(b) => b,
                    Err(e) => return RunOutcome { harness_error: Some(format!("bad case.items: {}", e)), ..Default::default() },
                };
                let mut out = RunOutcome::default();
                out.count("runs.dec", 1);
                run_dec(&items, env_seed, focus.as_deref(), out, Log { lines: vec![] })
            }
            other => RunOutcome { harness_error: Some(format!("unknown case part `{}`", other)), ..Default::default() },
        }
    }
}

impl Engine for CorruptSim {
    fn name(&self) -> &'static str {
        "corruptsim"
    }

    fn run_seeded(&self, profile: &str, seed: u64, run: u64, tier: Tier) -> RunOutcome {
        let t0 = real_ms();
        let s = seeded(profile, seed, run, tier);
        let t1 = real_ms();
        setup_child(s.env_seed);
        let t2 = real_ms();
        let mut o = self.run_seeded_inner(s, tier);
        let _ = (t1, t2);
        o.count("time.total_ms", real_ms() - t0);
        o
    }

    fn run_case(&self, case: &Value) -> RunOutcome {
        self.run_case_inner(case)
    }

    fn event_log_is_replayable(&self, tier: Tier) -> bool {
        // the thorough tier builds databases large enough that the per-step CPU-time limit of the
        // build is sometimes reached, which changes what a run covers; every violation is still
        // re-executed from its explicit case before it is reported
        tier == Tier::Quick
    }

    fn shrink(&self, case: &Value) -> Vec<Value> {
        // a seeded case (process-died / hang reported by the driver): make it explicit first
        if let Some(s) = case.get("seeded") {
            let profile = s["profile"].as_str().unwrap_or("mix@C23").to_string();
            let seed = s["seed"].as_u64().unwrap_or(1);
            let run = s["run"].as_u64().unwrap_or(0);
            let tier = Tier::parse(s["tier"].as_str().unwrap_or("quick"));
            let base = pool::default_scratch_base().join("explicit");
            let cfg = PoolCfg { workers: 1, timeout: Duration::from_secs(120), scratch: base.clone(), deadline: None };
            let res = pool::run_jobs(&cfg, &[run], |j| explicit_case_of_seed(&profile, seed, j, tier));
            let _ = std::fs::remove_dir_all(&base);
            return match res.into_iter().next() {
                Some((_, JobStatus::Done(o))) if o.sample.get("part").is_some() => vec![o.sample.clone()],
                _ => vec![],
            };
        }
        let mut out: Vec<Value> = vec![];
        match case["part"].as_str().unwrap_or("") {
            "db" => {
                let faults: Vec<FileFault> = serde_json::from_value(case["faults"].clone()).unwrap_or_default();
                let steps: Vec<Step> = serde_json::from_value(case["steps"].clone()).unwrap_or_default();
                let build: BuildSpec = match serde_json::from_value(case["build"].clone()) {
                    Ok(b) => b,
                    Err(_) => return out,
                };
                let with = |f: &[FileFault], s: &[Step], b: &BuildSpec| {
                    let mut c = case.clone();
                    c["faults"] = json!(f);
                    c["steps"] = json!(s);
                    c["build"] = json!(b);
                    c
                };
                // 1. a single fault alone, then drop one fault at a time
                if faults.len() > 1 {
                    for f in &faults {
                        out.push(with(std::slice::from_ref(f), &steps, &build));
                    }
                    if faults.len() > 2 {
                        for i in 0..faults.len() {
                            let mut v = faults.clone();
                            v.remove(i);
                            out.push(with(&v, &steps, &build));
                        }
                    }
                }
                // 2. fewer exercise steps
                for keep in ddmin_keepsets(steps.len()).into_iter().take(40) {
                    let s: Vec<Step> = keep.iter().map(|i| steps[*i].clone()).collect();
                    out.push(with(&faults, &s, &build));
                }
                // 3. smaller build: simplest end mode, then fewer statements
                if build.end != "close" {
                    let mut b = build.clone();
                    b.end = "close".into();
                    out.push(with(&faults, &steps, &b));
                }
                for keep in ddmin_keepsets(build.stmts.len()).into_iter().take(120) {
                    let mut b = build.clone();
                    b.stmts = keep.iter().map(|i| build.stmts[*i].clone()).collect();
                    out.push(with(&faults, &steps, &b));
                }
                // 4. simpler fault kinds
                for (i, f) in faults.iter().enumerate() {
                    for s in f.fault.simplify() {
                        let mut v = faults.clone();
                        v[i] = FileFault { file: f.file.clone(), fault: s };
                        out.push(with(&v, &steps, &build));
                    }
                }
            }
            "dec" => {
                let items: Vec<Item> = serde_json::from_value(case["items"].clone()).unwrap_or_default();
                let with = |it: &[Item]| {
                    let mut c = case.clone();
                    c["items"] = json!(it);
                    c
                };
                if items.len() > 1 {
                    for keep in ddmin_keepsets(items.len()).into_iter().take(200) {
                        let v: Vec<Item> = keep.iter().map(|i| items[*i].clone()).collect();
                        out.push(with(&v));
                    }
                } else if let Some(it) = items.first() {
                    if it.faults.len() > 1 {
                        for i in 0..it.faults.len() {
                            let mut x = it.clone();
                            x.faults = vec![it.faults[i].clone()];
                            out.push(with(&[x]));
                        }
                        for i in 0..it.faults.len() {
                            let mut x = it.clone();
                            x.faults.remove(i);
                            out.push(with(&[x]));
                        }
                    }
                    for (i, f) in it.faults.iter().enumerate() {
                        for s in f.simplify() {
                            let mut x = it.clone();
                            x.faults[i] = s;
                            out.push(with(&[x]));
                        }
                    }
                }
            }
            _ => {}
        }
        out
    }

    fn rule(&self, _profile: &str) -> String {
        "a run is non-trivial when at least one stored-byte fault actually changed bytes of a database that holds user tables (part a) \
         or of a valid encoding (part b); fingerprint = hash(contents of all database files after the build, explicit fault list) for part a, \
         hash(valid encodings, fault lists) for part b; distinct_states counts distinct panic sites (file:line) observed"
            .into()
    }

    fn real_vs_stub(&self) -> Value {
        json!({
            "real": [
                "turdb::Database (create/execute/open/checkpoint/close/drop) and everything below it: SQL, catalog persistence, FileManager, MmapStorage over real files on tmpfs, B-tree, TOAST, WAL and recovery",
                "decoders called directly: RecordView, sql::decoder::SimpleDecoder, encoding::key::decode_key, decode_varint, JsonbView, ArrayView, CompositeView, CatalogPersistence::{load,deserialize}, WalSegment, Wal::{open,recover,read_page}, Table/Index/Meta/Hnsw file headers, PageHeader, TrunkHeader, validate_page, LeafNode(Mut), InteriorNode(Mut), BTreeReader/BTree over MmapStorage, HnswPageRef, HnswNode, PersistentHnswIndex, ToastPointer",
                "kernel page cache / tmpfs, std, memmap2"
            ],
            "simulated": [
                "stored-byte faults: applied by the harness to the closed database's files (bit flip, byte set, zeroed sector, truncation, extension, page swap, stale page from an older copy, zeroed page / WAL frame)",
                "clock and getrandom (simdisk::install_clock_entropy), hashbrown seed source (plug_hash_order)",
                "resource limits: RLIMIT_AS 1 GiB, RLIMIT_FSIZE 1 GiB (SIGXFSZ ignored -> EFBIG)"
            ]
        })
    }

    fn assumptions(&self, _profile: &str) -> Vec<String> {
        vec![
            "files change only while no handle is open (faults are applied between drop and Database::open); concurrent modification of mapped files is out of scope".into(),
            "dev profile (unwinding panics, overflow checks on): a panic is observed in-process with catch_unwind; in TurDB's release profile (panic=abort) each of these panics is a process abort".into(),
            "an allocation that exceeds the 1 GiB address-space limit aborts the child and is reported as process-died; a run exceeding the watchdog is reported as hang".into(),
            "the `kill` end mode (files copied while the handle is open) stands for a killed process with an intact page cache: all written bytes present, WAL not checkpointed".into(),
            "silent out-of-bounds reads inside unsafe blocks that neither fault nor panic are not detected (no Miri pass in this engine)".into(),
            "a second schema makes Database::open fail on the unchanged tree (schema not found during catalog load); such runs only exercise the open-error path".into(),
        ]
    }
}
