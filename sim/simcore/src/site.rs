//! Panic sites that survive unrelated edits of /repo.
//!
//! A `file:line` site changes whenever a line is added above it, so a known-finding pattern keyed
//! by it would turn every unrelated edit of that file into a "new" panic. The stable form names
//! the file, the enclosing function and the text of the panicking line:
//! `src/records/view.rs:get_text:let s = &self.data[start..end];`
//! It changes only when that line itself (or the function's name) changes.

use std::collections::HashMap;
use std::sync::Mutex;

static CACHE: Mutex<Option<HashMap<String, Option<Vec<String>>>>> = Mutex::new(None);

fn fn_name_of(line: &str) -> Option<String> {
    let t = line.trim_start();
    if t.starts_with("//") {
        return None;
    }
    let idx = if t.starts_with("fn ") {
        Some(0)
    } else {
        t.find(" fn ").map(|i| i + 1)
    }?;
    // everything before must be qualifiers only
    let before = &t[..idx];
    if !before
        .split_whitespace()
        .all(|w| w == "pub" || w.starts_with("pub(") || w == "const" || w == "unsafe" || w == "async" || w == "extern" || w.starts_with('"') || w == "default")
    {
        return None;
    }
    let rest = &t[idx + 3..];
    let name: String = rest.chars().take_while(|c| c.is_alphanumeric() || *c == '_').collect();
    if name.is_empty() {
        None
    } else {
        Some(name)
    }
}

fn squeeze(s: &str) -> String {
    let mut out = String::new();
    let mut last_space = false;
    for c in s.trim().chars() {
        let c = if c == '|' { '¦' } else { c };
        if c.is_whitespace() {
            if !last_space {
                out.push(' ');
            }
            last_space = true;
        } else {
            out.push(c);
            last_space = false;
        }
    }
    out.chars().take(70).collect()
}

/// `file` is relative to /repo (`src/...`). Falls back to `file:line` when the source cannot be read.
pub fn stable(file: &str, line: u32) -> String {
    let fallback = format!("{}:{}", file, line);
    if !file.starts_with("src/") || line == 0 {
        return fallback;
    }
    let mut g = match CACHE.lock() {
        Ok(g) => g,
        Err(_) => return fallback,
    };
    let cache = g.get_or_insert_with(HashMap::new);
    let lines = cache
        .entry(file.to_string())
        .or_insert_with(|| std::fs::read_to_string(format!("/repo/{}", file)).ok().map(|s| s.lines().map(|l| l.to_string()).collect()));
    let lines = match lines {
        Some(l) => l,
        None => return fallback,
    };
    let idx = (line as usize).saturating_sub(1);
    if idx >= lines.len() {
        return fallback;
    }
    let mut fname = String::from("?");
    for i in (0..=idx).rev() {
        if let Some(n) = fn_name_of(&lines[i]) {
            fname = n;
            break;
        }
    }
    format!("{}:{}:{}", file, fname, squeeze(&lines[idx]))
}

/// Converts a `src/x.rs:LINE` string (as printed by panic messages) into the stable form.
pub fn stable_from_str(site: &str) -> String {
    let parts: Vec<&str> = site.split(':').collect();
    if parts.len() >= 2 && parts[0].starts_with("src/") {
        if let Ok(l) = parts[1].parse::<u32>() {
            return stable(parts[0], l);
        }
    }
    if let Some(rest) = site.strip_prefix("/repo/") {
        return stable_from_str(rest);
    }
    site.to_string()
}
