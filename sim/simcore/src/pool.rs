//! Fork-per-run worker pool.
//!
//! The coordinator stays single-threaded and forks one child per simulated run, at most
//! `workers` at a time. A child runs exactly one simulation on a fresh thread (fresh
//! thread-local hash keys), writes its `RunOutcome` as JSON into its scratch directory and
//! `_exit`s. A child that panics, aborts, is killed by a signal or exceeds the watchdog is
//! reported as such, never takes the batch with it, and never leaves state behind for the
//! next run (TurDB statics, simdisk tables and hooks are per process).

use crate::outcome::RunOutcome;
use std::collections::HashMap;
use std::path::{Path, PathBuf};
use std::sync::OnceLock;
use std::time::{Duration, Instant};

#[derive(Debug, Clone)]
pub enum JobStatus {
    Done(Box<RunOutcome>),
    Crashed { status: String, stderr_tail: String },
    TimedOut { stderr_tail: String },
}

pub struct PoolCfg {
    pub workers: usize,
    pub timeout: Duration,
    pub scratch: PathBuf,
    /// Stop launching new jobs after this instant (jobs not launched are not reported).
    pub deadline: Option<Instant>,
}

static CHILD_SCRATCH: OnceLock<PathBuf> = OnceLock::new();

/// Scratch directory of the current child (simulation root lives here). In a process that
/// is not a pool child (e.g. a unit test) falls back to a pid-named directory.
pub fn child_scratch() -> PathBuf {
    CHILD_SCRATCH
        .get()
        .cloned()
        .unwrap_or_else(|| default_scratch_base().join(format!("solo-{}", std::process::id())))
}

pub fn default_scratch_base() -> PathBuf {
    PathBuf::from(format!("/dev/shm/vsim-{}", std::process::id()))
}

fn tail_of(path: &Path, max: usize) -> String {
    match std::fs::read(path) {
        Ok(b) => {
            let start = b.len().saturating_sub(max);
            String::from_utf8_lossy(&b[start..]).to_string()
        }
        Err(_) => String::new(),
    }
}

struct Running {
    job: u64,
    started: Instant,
    dir: PathBuf,
}

/// Runs `f(job)` for every job in `jobs`, each in its own forked child.
/// Results are returned in job order (independent of worker count and completion order).
pub fn run_jobs<F>(cfg: &PoolCfg, jobs: &[u64], f: F) -> Vec<(u64, JobStatus)>
where
    F: Fn(u64) -> RunOutcome,
{
    let _ = std::fs::create_dir_all(&cfg.scratch);
    let mut results: HashMap<u64, JobStatus> = HashMap::new();
    let mut running: HashMap<i32, Running> = HashMap::new();
    let mut next = 0usize;
    let workers = cfg.workers.max(1);

    loop {
        // launch
        while running.len() < workers && next < jobs.len() {
            if let Some(d) = cfg.deadline {
                if Instant::now() >= d {
                    next = jobs.len();
                    break;
                }
            }
            let job = jobs[next];
            next += 1;
            let dir = cfg.scratch.join(format!("job-{}", job));
            let _ = std::fs::remove_dir_all(&dir);
            let _ = std::fs::create_dir_all(&dir);
            // SAFETY: the coordinator is single-threaded; the child only continues this thread.
            let pid = unsafe { libc::fork() };
            if pid < 0 {
                results.insert(
                    job,
                    JobStatus::Crashed {
                        status: "fork failed".into(),
                        stderr_tail: String::new(),
                    },
                );
                continue;
            }
            if pid == 0 {
                child_main(&dir, job, &f);
            }
            running.insert(
                pid,
                Running {
                    job,
                    started: Instant::now(),
                    dir,
                },
            );
        }
        if running.is_empty() {
            if next >= jobs.len() {
                break;
            }
            continue;
        }
        // reap
        let mut status: libc::c_int = 0;
        // SAFETY: plain waitpid.
        let pid = unsafe { libc::waitpid(-1, &mut status, libc::WNOHANG) };
        if pid > 0 {
            if let Some(r) = running.remove(&pid) {
                let st = collect(&r, status);
                let _ = std::fs::remove_dir_all(&r.dir);
                results.insert(r.job, st);
            }
            continue;
        }
        // watchdog
        let now = Instant::now();
        let expired: Vec<i32> = running
            .iter()
            .filter(|(_, r)| now.duration_since(r.started) > cfg.timeout)
            .map(|(p, _)| *p)
            .collect();
        for p in expired {
            // SAFETY: killing our own child.
            unsafe {
                libc::kill(p, libc::SIGKILL);
                let mut st = 0;
                libc::waitpid(p, &mut st, 0);
            }
            if let Some(r) = running.remove(&p) {
                let tail = tail_of(&r.dir.join("stderr.txt"), 2000);
                let _ = std::fs::remove_dir_all(&r.dir);
                results.insert(r.job, JobStatus::TimedOut { stderr_tail: tail });
            }
        }
        std::thread::sleep(Duration::from_micros(500));
    }

    let mut out: Vec<(u64, JobStatus)> = results.into_iter().collect();
    out.sort_by_key(|(j, _)| *j);
    out
}

fn collect(r: &Running, status: libc::c_int) -> JobStatus {
    let res_path = r.dir.join("result.json");
    let exited = libc::WIFEXITED(status);
    let code = if exited { libc::WEXITSTATUS(status) } else { -1 };
    if exited && code == 0 {
        match std::fs::read(&res_path) {
            Ok(bytes) => match serde_json::from_slice::<RunOutcome>(&bytes) {
                Ok(o) => return JobStatus::Done(Box::new(o)),
                Err(e) => {
                    return JobStatus::Crashed {
                        status: format!("result unparsable: {}", e),
                        stderr_tail: tail_of(&r.dir.join("stderr.txt"), 2000),
                    }
                }
            },
            Err(e) => {
                return JobStatus::Crashed {
                    status: format!("no result file: {}", e),
                    stderr_tail: tail_of(&r.dir.join("stderr.txt"), 2000),
                }
            }
        }
    }
    let st = if exited {
        format!("exit code {}", code)
    } else if libc::WIFSIGNALED(status) {
        format!("signal {}", libc::WTERMSIG(status))
    } else {
        format!("status {:#x}", status)
    };
    JobStatus::Crashed {
        status: st,
        stderr_tail: tail_of(&r.dir.join("stderr.txt"), 4000),
    }
}

fn child_main<F>(dir: &Path, job: u64, f: &F) -> !
where
    F: Fn(u64) -> RunOutcome,
{
    let _ = CHILD_SCRATCH.set(dir.to_path_buf());
    // stderr of the child goes to a file (TurDB prints diagnostics with eprintln!).
    if let Ok(cpath) = std::ffi::CString::new(dir.join("stderr.txt").to_string_lossy().as_bytes()) {
        // SAFETY: plain open/dup2 on our own fds.
        unsafe {
            let fd = libc::open(
                cpath.as_ptr(),
                libc::O_CREAT | libc::O_WRONLY | libc::O_TRUNC,
                0o644,
            );
            if fd >= 0 {
                libc::dup2(fd, 2);
                libc::close(fd);
            }
        }
    }
    struct Shared<T>(*const T);
    // SAFETY: the child process has exactly one thread using `f` at a time: this thread blocks
    // in `join` while the simulation thread runs.
    unsafe impl<T> Send for Shared<T> {}
    impl<T> Shared<T> {
        fn get(&self) -> &T {
            // SAFETY: points at `f`, which outlives the scope below.
            unsafe { &*self.0 }
        }
    }
    let fp = Shared(f as *const F);
    let outcome = std::thread::scope(|s| {
        let h = std::thread::Builder::new()
            .name("sim".into())
            .stack_size(256 << 20)
            .spawn_scoped(s, move || (fp.get())(job));
        match h {
            Ok(h) => match h.join() {
                Ok(o) => o,
                Err(p) => {
                    let msg = if let Some(s) = p.downcast_ref::<String>() {
                        s.clone()
                    } else if let Some(s) = p.downcast_ref::<&str>() {
                        s.to_string()
                    } else {
                        "panic".to_string()
                    };
                    RunOutcome {
                        harness_error: Some(format!("uncaught panic in run: {}", msg)),
                        ..Default::default()
                    }
                }
            },
            Err(e) => RunOutcome {
                harness_error: Some(format!("thread spawn failed: {}", e)),
                ..Default::default()
            },
        }
    });
    let bytes = serde_json::to_vec(&outcome).unwrap_or_else(|_| b"{}".to_vec());
    let _ = std::fs::write(dir.join("result.json"), bytes);
    // SAFETY: leave without running the parent's atexit handlers / destructors.
    unsafe { libc::_exit(0) }
}

/// Remove the whole scratch base of this process (called by the coordinator at exit).
pub fn cleanup(base: &Path) {
    let _ = std::fs::remove_dir_all(base);
}
