//! Re-execute the current binary once with address-space randomisation off and a fixed
//! environment, so that no address can differ between a run and its replay.

use std::ffi::CString;

const MARK: &str = "VSIM_NOASLR";

pub fn ensure() {
    if std::env::var_os(MARK).is_some() {
        return;
    }
    // SAFETY: personality() only changes a per-process flag.
    unsafe {
        let cur = libc::personality(0xffff_ffff);
        if cur == -1 || libc::personality((cur as libc::c_ulong) | libc::ADDR_NO_RANDOMIZE as libc::c_ulong) == -1 {
            // not permitted here: continue with ASLR on (hash-order plugs still apply)
            return;
        }
    }
    let exe = match std::fs::read_link("/proc/self/exe") {
        Ok(p) => p,
        Err(_) => return,
    };
    let exe_c = match CString::new(exe.to_string_lossy().as_bytes()) {
        Ok(c) => c,
        Err(_) => return,
    };
    let args: Vec<CString> = std::env::args()
        .filter_map(|a| CString::new(a).ok())
        .collect();
    let mut argv: Vec<*const libc::c_char> = args.iter().map(|a| a.as_ptr()).collect();
    argv.push(std::ptr::null());
    // fixed, minimal environment (keeps stack layout identical between run and replay)
    let keep = ["VERIF_SEED", "VERIF_TIER", "VSIM_WORKERS", "VSIM_RUNS", "VSIM_DEBUG", "VSIM_RUN_TIMEOUT_MS", "RUST_BACKTRACE"];
    let mut envs: Vec<CString> = vec![
        CString::new(format!("{}=1", MARK)).unwrap(),
        CString::new("PATH=/usr/bin:/bin").unwrap(),
    ];
    for k in keep {
        if let Ok(v) = std::env::var(k) {
            if let Ok(c) = CString::new(format!("{}={}", k, v)) {
                envs.push(c);
            }
        }
    }
    let mut envp: Vec<*const libc::c_char> = envs.iter().map(|a| a.as_ptr()).collect();
    envp.push(std::ptr::null());
    // SAFETY: argv/envp are NUL-terminated arrays of valid C strings that outlive the call.
    unsafe {
        libc::execve(exe_c.as_ptr(), argv.as_ptr(), envp.as_ptr());
    }
    // exec failed: carry on in this process
}
