//! The check driver: seeded batch -> aggregate -> minimise -> replay-verify -> known
//! findings -> evidence -> exit code.

use crate::findings::{self, Finding};
use crate::outcome::{RunOutcome, Tier, Violation};
use crate::pool::{self, JobStatus, PoolCfg};
use crate::rng::fnv1a;
use serde_json::{json, Map, Value};
use std::collections::{BTreeMap, BTreeSet, HashSet};
use std::path::{Path, PathBuf};
use std::time::{Duration, Instant};

pub const VERIF_DIR: &str = "/verif";

pub trait Engine {
    fn name(&self) -> &'static str;
    /// One simulated run; must be a pure function of its arguments.
    fn run_seeded(&self, profile: &str, seed: u64, run: u64, tier: Tier) -> RunOutcome;
    /// Re-run an explicit case (replay, minimisation).
    fn run_case(&self, case: &Value) -> RunOutcome;
    /// Strictly simpler variants of `case`, most aggressive first.
    fn shrink(&self, case: &Value) -> Vec<Value>;
    /// Text for evidence `rule`.
    fn rule(&self, profile: &str) -> String;
    fn real_vs_stub(&self) -> Value;
    fn assumptions(&self, profile: &str) -> Vec<String>;
    /// Is the per-run event-log hash of this tier a pure function of the seed? (determinism canary)
    fn event_log_is_replayable(&self, _tier: crate::Tier) -> bool {
        true
    }
}

pub struct CheckSpec {
    pub property: String,
    pub profile: String,
    pub tier: Tier,
    pub seed: u64,
    pub runs: u64,
    pub workers: usize,
    pub run_timeout: Duration,
    pub batch_budget: Duration,
    pub level: String,
    /// Extra properties whose verdicts this check also owns (normally empty).
    pub also_owns: Vec<String>,
    pub min_budget_runs: usize,
    pub min_budget_wall: Duration,
    pub max_minimise: usize,
}

fn seeded_case(engine: &str, profile: &str, seed: u64, run: u64, tier: Tier) -> Value {
    json!({"engine": engine, "seeded": {"profile": profile, "seed": seed, "run": run, "tier": tier.as_str()}})
}

pub fn exec_case_inline(engine: &dyn Engine, case: &Value) -> RunOutcome {
    if let Some(s) = case.get("seeded") {
        let profile = s["profile"].as_str().unwrap_or("");
        let seed = s["seed"].as_u64().unwrap_or(1);
        let run = s["run"].as_u64().unwrap_or(0);
        let tier = Tier::parse(s["tier"].as_str().unwrap_or("quick"));
        engine.run_seeded(profile, seed, run, tier)
    } else {
        engine.run_case(case)
    }
}

fn status_to_violations(property: &str, st: &JobStatus, case: &Value) -> (Vec<Violation>, Option<String>) {
    match st {
        JobStatus::Done(o) => {
            let mut vs = o.violations.clone();
            for v in vs.iter_mut() {
                if let Some(site) = v.sig.get("site").cloned() {
                    v.sig.insert("site".to_string(), crate::site::stable_from_str(&site));
                }
            }
            (vs, o.harness_error.clone())
        }
        JobStatus::Crashed { status, stderr_tail } => {
            let mut sig = BTreeMap::new();
            sig.insert("status".to_string(), status.clone());
            let site = panic_site(stderr_tail);
            if let Some(s) = &site {
                sig.insert("site".to_string(), crate::site::stable_from_str(s));
            }
            (
                vec![Violation {
                    property: property.to_string(),
                    verdict: "process-died".into(),
                    sig,
                    detail: format!("child {}; stderr tail: {}", status, stderr_tail),
                    case: case.clone(),
                }],
                None,
            )
        }
        JobStatus::TimedOut { stderr_tail } => (
            vec![Violation {
                property: property.to_string(),
                verdict: "hang".into(),
                sig: BTreeMap::new(),
                detail: format!("watchdog expired; stderr tail: {}", stderr_tail),
                case: case.clone(),
            }],
            None,
        ),
    }
}

/// Extracts `file:line` of a panic message from a stderr tail.
pub fn panic_site(stderr: &str) -> Option<String> {
    // "thread 'x' panicked at src/foo.rs:12:5:"
    let idx = stderr.rfind("panicked at ")?;
    let rest = &stderr[idx + "panicked at ".len()..];
    let end = rest.find(|c: char| c == '\n' || c == ',').unwrap_or(rest.len());
    let mut site = rest[..end].trim().trim_end_matches(':').to_string();
    // drop the column
    let parts: Vec<&str> = site.split(':').collect();
    if parts.len() >= 3 {
        site = format!("{}:{}", parts[0], parts[1]);
    }
    Some(site)
}

struct Ctx<'a> {
    engine: &'a dyn Engine,
    scratch: PathBuf,
    workers: usize,
    run_timeout: Duration,
}

impl<'a> Ctx<'a> {
    fn exec_cases(&self, cases: &[Value]) -> Vec<JobStatus> {
        let cfg = PoolCfg {
            workers: self.workers,
            timeout: self.run_timeout,
            scratch: self.scratch.clone(),
            deadline: None,
        };
        let jobs: Vec<u64> = (0..cases.len() as u64).collect();
        let res = pool::run_jobs(&cfg, &jobs, |j| exec_case_inline(self.engine, &cases[j as usize]));
        res.into_iter().map(|(_, s)| s).collect()
    }
}

fn owned(spec: &CheckSpec, v: &Violation) -> bool {
    v.property == spec.property || spec.also_owns.iter().any(|p| *p == v.property)
}

/// Greedy minimisation: keep taking the first shrink candidate that still shows a violation of
/// the same class (property + verdict).
fn minimise(ctx: &Ctx, spec: &CheckSpec, v: &Violation) -> (Violation, usize) {
    let class = v.class();
    let mut cur = v.clone();
    let mut executed = 0usize;
    let t0 = Instant::now();
    'outer: loop {
        if executed >= spec.min_budget_runs || t0.elapsed() > spec.min_budget_wall {
            break;
        }
        let cands = ctx.engine.shrink(&cur.case);
        if cands.is_empty() {
            break;
        }
        for chunk in cands.chunks(ctx.workers.max(1) * 2) {
            if executed >= spec.min_budget_runs || t0.elapsed() > spec.min_budget_wall {
                break 'outer;
            }
            let sts = ctx.exec_cases(chunk);
            executed += chunk.len();
            for (i, st) in sts.iter().enumerate() {
                let (vs, herr) = status_to_violations(&v.property, st, &chunk[i]);
                if herr.is_some() {
                    continue;
                }
                if let Some(nv) = vs.into_iter().find(|x| x.class() == class) {
                    cur = nv;
                    continue 'outer;
                }
            }
        }
        break;
    }
    (cur, executed)
}

fn replay_file_name(v: &Violation) -> String {
    let h = fnv1a(format!("{}|{}", v.sig_string(), v.case).as_bytes());
    format!("{}-{:08x}.json", v.property, (h & 0xffff_ffff) as u32)
}

pub fn write_replay(dir: &Path, engine: &str, v: &Violation) -> PathBuf {
    let _ = std::fs::create_dir_all(dir);
    let path = dir.join(replay_file_name(v));
    let doc = json!({
        "format": 1,
        "property": v.property,
        "engine": engine,
        "case": v.case,
        "expect": {"verdict": v.verdict, "signature": v.sig},
        "detail": v.detail,
    });
    let _ = std::fs::write(&path, serde_json::to_vec_pretty(&doc).unwrap_or_default());
    path
}

/// `check replay <file>`: exit 1 with a VIOLATION line if the recorded verdict reproduces, 0 if the
/// case no longer violates, 2 on harness trouble.
pub fn replay(engine: &dyn Engine, path: &Path) -> i32 {
    let bytes = match std::fs::read(path) {
        Ok(b) => b,
        Err(e) => {
            eprintln!("cannot read {}: {}", path.display(), e);
            return 2;
        }
    };
    let doc: Value = match serde_json::from_slice(&bytes) {
        Ok(v) => v,
        Err(e) => {
            eprintln!("cannot parse {}: {}", path.display(), e);
            return 2;
        }
    };
    let property = doc["property"].as_str().unwrap_or("").to_string();
    let verdict = doc["expect"]["verdict"].as_str().unwrap_or("").to_string();
    let base = pool::default_scratch_base();
    let ctx = Ctx {
        engine,
        scratch: base.join("replay"),
        workers: 1,
        run_timeout: Duration::from_secs(300),
    };
    let case = doc["case"].clone();
    let st = ctx.exec_cases(std::slice::from_ref(&case)).into_iter().next();
    pool::cleanup(&base);
    let st = match st {
        Some(s) => s,
        None => return 2,
    };
    let (vs, herr) = status_to_violations(&property, &st, &case);
    if let Some(e) = herr {
        eprintln!("HARNESS-ERROR: {}", e);
        return 2;
    }
    let hit: Vec<&Violation> = vs
        .iter()
        .filter(|v| v.property == property && (verdict.is_empty() || v.verdict == verdict))
        .collect();
    if let Some(v) = hit.first() {
        println!("reproduced: {} {}", v.sig_string(), v.detail);
        println!("VIOLATION property={} replay={}", property, path.display());
        1
    } else {
        println!(
            "not reproduced: case ran, {} violations, none of class {}:{}",
            vs.len(),
            property,
            verdict
        );
        for v in &vs {
            println!("  other: {} {}", v.sig_string(), v.detail);
        }
        0
    }
}

pub fn run_check(engine: &dyn Engine, spec: &CheckSpec) -> i32 {
    let t0 = Instant::now();
    let base = pool::default_scratch_base();
    let verif = PathBuf::from(VERIF_DIR);
    let known: Vec<Finding> = match findings::load(&verif.join("known_findings.json")) {
        Ok(k) => k,
        Err(e) => {
            eprintln!("HARNESS-ERROR: {}", e);
            return 2;
        }
    };
    println!(
        "check property={} engine={} profile={} tier={} VERIF_SEED={} runs={} workers={}",
        spec.property,
        engine.name(),
        spec.profile,
        spec.tier.as_str(),
        spec.seed,
        spec.runs,
        spec.workers
    );

    // ---- seeded batch
    let cfg = PoolCfg {
        workers: spec.workers,
        timeout: spec.run_timeout,
        scratch: base.join("batch"),
        deadline: Some(t0 + spec.batch_budget),
    };
    let jobs: Vec<u64> = (0..spec.runs).collect();
    let results = pool::run_jobs(&cfg, &jobs, |j| {
        engine.run_seeded(&spec.profile, spec.seed, j, spec.tier)
    });
    let batch_wall = t0.elapsed().as_secs_f64();

    let mut counters: BTreeMap<String, u64> = BTreeMap::new();
    let mut fingerprints: HashSet<u64> = HashSet::new();
    let mut states: HashSet<u64> = HashSet::new();
    let mut samples: Vec<Value> = vec![];
    let mut sim_time_us: u64 = 0;
    let mut harness_errors: Vec<String> = vec![];
    let mut all_viol: Vec<Violation> = vec![];
    let mut other_prop: BTreeMap<String, u64> = BTreeMap::new();
    let mut nontrivial_runs = 0u64;
    let mut log_hash: u64 = 0;
    let evaluations = results.len() as u64;
    for (job, st) in &results {
        let case = seeded_case(engine.name(), &spec.profile, spec.seed, *job, spec.tier);
        if let JobStatus::Done(o) = st {
            for (k, v) in &o.counters {
                *counters.entry(k.clone()).or_insert(0) += v;
            }
            if o.nontrivial {
                nontrivial_runs += 1;
                fingerprints.insert(o.fingerprint);
            }
            for s in &o.states {
                states.insert(*s);
            }
            sim_time_us += o.sim_time_us;
            log_hash = crate::rng::mix(log_hash, o.events_hash);
            if samples.len() < 3 && !o.sample.is_null() && (o.nontrivial || *job < 3) {
                samples.push(o.sample.clone());
            }
        }
        let (vs, herr) = status_to_violations(&spec.property, st, &case);
        if let Some(e) = herr {
            harness_errors.push(format!("run {}: {}", job, e));
        }
        for v in vs {
            if owned(spec, &v) {
                all_viol.push(v);
            } else {
                *other_prop.entry(v.class()).or_insert(0) += 1;
            }
        }
    }

    // ---- determinism canary: the first three runs once more, in fresh children; their event-log
    // hashes must repeat (a leak of real entropy / clock / address-space layout into a run would
    // make violations unreplayable, so it is a harness error, not a verdict)
    if engine.event_log_is_replayable(spec.tier) {
        let canary: Vec<u64> = jobs.iter().copied().take(3).collect();
        let cfg2 = PoolCfg { workers: canary.len().max(1), timeout: spec.run_timeout, scratch: base.join("canary"), deadline: None };
        let again = pool::run_jobs(&cfg2, &canary, |j| engine.run_seeded(&spec.profile, spec.seed, j, spec.tier));
        for (j, st) in &again {
            if let (JobStatus::Done(b), Some((_, JobStatus::Done(a)))) = (st, results.iter().find(|(k, _)| k == j)) {
                if a.events_hash != b.events_hash && a.events_hash != 0 && b.events_hash != 0 {
                    harness_errors.push(format!("determinism canary: run {} gave event-log hash {:016x} in the batch and {:016x} when repeated", j, a.events_hash, b.events_hash));
                }
            }
        }
    }

    // ---- triage of violations
    let ctx = Ctx {
        engine,
        scratch: base.join("min"),
        workers: spec.workers,
        run_timeout: spec.run_timeout,
    };
    let mut known_hits: BTreeMap<String, u64> = BTreeMap::new();
    let mut unlisted: Vec<(Violation, PathBuf, bool)> = vec![];
    let mut seen_sig: BTreeSet<String> = BTreeSet::new();
    let mut minimised = 0usize;
    let mut min_execs = 0usize;
    let mut not_reproduced: Vec<String> = vec![];
    let mut hangs_not_reproduced = 0u64;
    let replays_dir = verif.join("replays");
    // A watchdog expiry during the batch can be load (16 runs in parallel, other processes on
    // the machine) rather than a hang: re-execute the case alone with four times the budget and
    // use what that run says. Only a second expiry is reported as a hang.
    let mut slow_runs = 0u64;
    {
        let slow_ctx = Ctx { engine, scratch: base.join("slow"), workers: 1, run_timeout: spec.run_timeout * 4 };
        let mut confirmed: Vec<Violation> = vec![];
        let mut hangs_checked = 0;
        for v in all_viol.drain(..) {
            if v.verdict != "hang" {
                confirmed.push(v);
                continue;
            }
            hangs_checked += 1;
            if hangs_checked > 6 {
                confirmed.push(v);
                continue;
            }
            match slow_ctx.exec_cases(std::slice::from_ref(&v.case)).into_iter().next() {
                Some(st @ JobStatus::Done(_)) | Some(st @ JobStatus::Crashed { .. }) => {
                    slow_runs += 1;
                    let (vs, herr) = status_to_violations(&spec.property, &st, &v.case);
                    if let Some(e) = herr {
                        harness_errors.push(format!("slow re-run: {}", e));
                    }
                    for nv in vs {
                        if owned(spec, &nv) {
                            confirmed.push(nv);
                        }
                    }
                }
                _ => confirmed.push(v),
            }
        }
        all_viol = confirmed;
    }
    for v in &all_viol {
        if let Some(f) = findings::find_match(&known, v) {
            *known_hits.entry(f.id.clone()).or_insert(0) += 1;
            continue;
        }
        let key = v.sig_string();
        if !seen_sig.insert(key.clone()) {
            continue;
        }
        // unknown by raw signature: minimise, then look again
        let (mv, execs) = if minimised < spec.max_minimise {
            minimised += 1;
            minimise(&ctx, spec, v)
        } else {
            (v.clone(), 0)
        };
        min_execs += execs;
        if let Some(f) = findings::find_match(&known, &mv) {
            *known_hits.entry(f.id.clone()).or_insert(0) += 1;
            continue;
        }
        // a minimised signature equal to one already reported is a duplicate; the raw key itself
        // (minimisation left the signature unchanged) is not
        let msig = mv.sig_string();
        if msig != key && !seen_sig.insert(msig) {
            continue;
        }
        // must replay in a fresh process before it is printed
        let st = ctx.exec_cases(std::slice::from_ref(&mv.case)).into_iter().next();
        let reproduced = match &st {
            Some(s) => {
                let (vs, _) = status_to_violations(&mv.property, s, &mv.case);
                vs.iter().any(|x| x.class() == mv.class())
            }
            None => false,
        };
        if !reproduced && (mv.verdict == "hang" || mv.verdict == "abort") {
            // a resource-limit verdict (CPU-time limit reached, allocation refused under the
            // address-space cap) that does not repeat when its case is executed alone says the limit
            // was reached because of where the budget / the heap stood, not what the call does:
            // counted, neither a violation (it cannot be replayed) nor a harness error
            hangs_not_reproduced += 1;
            continue;
        }
        let path = write_replay(&replays_dir, engine.name(), &mv);
        if !reproduced {
            not_reproduced.push(format!("{} ({})", mv.sig_string(), path.display()));
        }
        unlisted.push((mv, path, reproduced));
    }

    // ---- evidence
    let wall = t0.elapsed().as_secs_f64();
    let runs_per_hour = if batch_wall > 0.0 {
        (evaluations as f64 / batch_wall * 3600.0) as u64
    } else {
        0
    };
    let mut cov = Map::new();
    cov.insert("evaluations".into(), json!(evaluations));
    cov.insert("distinct_nontrivial".into(), json!(fingerprints.len()));
    cov.insert("nontrivial_runs".into(), json!(nontrivial_runs));
    cov.insert("rule".into(), json!(engine.rule(&spec.profile)));
    if samples.is_empty() {
        samples.push(json!({"note": "no run produced a sample"}));
    }
    cov.insert("samples".into(), json!(samples));
    cov.insert("runs_per_hour".into(), json!(runs_per_hour));
    cov.insert("runs_requested".into(), json!(spec.runs));
    cov.insert("sim_time_us".into(), json!(sim_time_us));
    cov.insert("distinct_states".into(), json!(states.len()));
    cov.insert("counters".into(), json!(counters));
    cov.insert("event_log_hash".into(), json!(format!("{:016x}", log_hash)));
    cov.insert("real_vs_stub".into(), engine.real_vs_stub());
    cov.insert("known_findings_hit".into(), json!(known_hits));
    cov.insert("other_property_verdicts_seen".into(), json!(other_prop));
    cov.insert("minimisation_executions".into(), json!(min_execs));
    cov.insert("watchdog_expiries_that_completed_when_rerun_alone".into(), json!(slow_runs));
    cov.insert("time_limit_verdicts_that_did_not_repeat_when_run_alone".into(), json!(hangs_not_reproduced));
    cov.insert("engine".into(), json!(engine.name()));
    cov.insert("profile".into(), json!(spec.profile));
    cov.insert("workers".into(), json!(spec.workers));
    let evidence = json!({
        "property_id": spec.property,
        "tier": spec.tier.as_str(),
        "seed": spec.seed,
        "level": spec.level,
        "coverage": Value::Object(cov),
        "assumptions": engine.assumptions(&spec.profile),
        "wall_s": wall,
        "violations": unlisted.len(),
    });
    let ev_dir = verif.join("evidence");
    let _ = std::fs::create_dir_all(&ev_dir);
    let ev_path = ev_dir.join(format!("{}.json", spec.property));
    if let Err(e) = std::fs::write(&ev_path, serde_json::to_vec_pretty(&evidence).unwrap_or_default()) {
        eprintln!("HARNESS-ERROR: cannot write {}: {}", ev_path.display(), e);
        pool::cleanup(&base);
        return 2;
    }
    pool::cleanup(&base);

    // ---- report
    println!(
        "runs={} nontrivial={} distinct={} states={} wall={:.1}s runs/h={}",
        evaluations,
        nontrivial_runs,
        fingerprints.len(),
        states.len(),
        wall,
        runs_per_hour
    );
    for (id, n) in &known_hits {
        if let Some(f) = known.iter().find(|f| &f.id == id) {
            let prop = if f.property == "*" { spec.property.as_str() } else { f.property.as_str() };
            println!("KNOWN-FINDING: property={} {} {} (hit {}x)", prop, f.id, f.what, n);
        }
    }
    if !harness_errors.is_empty() {
        for e in harness_errors.iter().take(5) {
            eprintln!("HARNESS-ERROR: {}", e);
        }
        return 2;
    }
    if !not_reproduced.is_empty() {
        for e in &not_reproduced {
            eprintln!("HARNESS-ERROR: violation did not replay in a fresh process (determinism leak): {}", e);
        }
        return 2;
    }
    if evaluations == 0 {
        eprintln!("HARNESS-ERROR: no run completed");
        return 2;
    }
    if unlisted.is_empty() {
        println!("OK property={} held on everything explored", spec.property);
        0
    } else {
        for (v, path, _) in &unlisted {
            println!("violation: {}\n  {}", v.sig_string(), v.detail.replace('\n', "\n  "));
            // a verdict blamed on a neighbouring property that this check also owns is reported as a
            // violation of the property this check decides
            println!("VIOLATION property={} replay={}", spec.property, path.display());
        }
        1
    }
}

/// Maintenance tool (never part of a registered check): for every open known finding of
/// `spec.property` that has no replay file yet, find a violation matching it in a seeded batch,
/// minimise it and write `/verif/known_replays/<id>.json`.
pub fn make_known_replays(engine: &dyn Engine, spec: &CheckSpec) -> i32 {
    let base = pool::default_scratch_base();
    let verif = PathBuf::from(VERIF_DIR);
    let known: Vec<Finding> = findings::load(&verif.join("known_findings.json")).unwrap_or_default();
    let cfg = PoolCfg {
        workers: spec.workers,
        timeout: spec.run_timeout,
        scratch: base.join("batch"),
        deadline: Some(Instant::now() + spec.batch_budget),
    };
    let jobs: Vec<u64> = (0..spec.runs).collect();
    let results = pool::run_jobs(&cfg, &jobs, |j| engine.run_seeded(&spec.profile, spec.seed, j, spec.tier));
    let ctx = Ctx {
        engine,
        scratch: base.join("min"),
        workers: spec.workers,
        run_timeout: spec.run_timeout,
    };
    let dir = verif.join("known_replays");
    let _ = std::fs::create_dir_all(&dir);
    let mut done: BTreeSet<String> = BTreeSet::new();
    for (job, st) in &results {
        let case = seeded_case(engine.name(), &spec.profile, spec.seed, *job, spec.tier);
        let (vs, _) = status_to_violations(&spec.property, st, &case);
        for v in vs {
            if let Some(f) = findings::find_match(&known, &v) {
                let path = dir.join(format!("{}.json", f.id));
                if done.contains(&f.id) || path.exists() {
                    continue;
                }
                let (mv, n) = minimise(&ctx, spec, &v);
                if findings::find_match(&known, &mv).map(|g| g.id.clone()) != Some(f.id.clone()) {
                    println!("{}: minimised case no longer matches the pattern, keeping the raw case", f.id);
                    let doc = json!({"format": 1, "property": v.property, "engine": engine.name(), "case": v.case,
                        "expect": {"verdict": v.verdict, "signature": v.sig}, "detail": v.detail});
                    let _ = std::fs::write(&path, serde_json::to_vec_pretty(&doc).unwrap_or_default());
                } else {
                    let doc = json!({"format": 1, "property": mv.property, "engine": engine.name(), "case": mv.case,
                        "expect": {"verdict": mv.verdict, "signature": mv.sig}, "detail": mv.detail});
                    let _ = std::fs::write(&path, serde_json::to_vec_pretty(&doc).unwrap_or_default());
                }
                println!("{}: wrote {} ({} minimisation runs): {}", f.id, path.display(), n, mv.detail.chars().take(300).collect::<String>());
                done.insert(f.id.clone());
            }
        }
    }
    pool::cleanup(&base);
    0
}

/// Keep-sets for delta debugging over a list of length n: drop halves, quarters, ..., singles.
pub fn ddmin_keepsets(n: usize) -> Vec<Vec<usize>> {
    let mut out = vec![];
    if n == 0 {
        return out;
    }
    let mut chunk = n.div_ceil(2);
    loop {
        let mut start = 0;
        while start < n {
            let end = (start + chunk).min(n);
            let keep: Vec<usize> = (0..n).filter(|i| *i < start || *i >= end).collect();
            if keep.len() < n {
                out.push(keep);
            }
            start = end;
        }
        if chunk == 1 {
            break;
        }
        chunk = chunk.div_ceil(2);
        if out.len() > 400 {
            break;
        }
    }
    out
}
