pub mod site;
pub mod driver;
pub mod findings;
pub mod noaslr;
pub mod outcome;
pub mod pool;
pub mod rng;

pub use driver::{run_check, CheckSpec, Engine};
pub use outcome::{RunOutcome, Tier, Violation};
pub use rng::Rng;
