//! One PRNG decides everything: xoshiro256** seeded from VERIF_SEED via splitmix64.
//! `fork(label)` derives an independent stream so that drawing from one stream
//! (e.g. crash-image choices) never perturbs another (e.g. workload).

#[derive(Clone, Debug)]
pub struct Rng {
    s: [u64; 4],
}

pub fn splitmix64(x: &mut u64) -> u64 {
    *x = x.wrapping_add(0x9E3779B97F4A7C15);
    let mut z = *x;
    z = (z ^ (z >> 30)).wrapping_mul(0xBF58476D1CE4E5B9);
    z = (z ^ (z >> 27)).wrapping_mul(0x94D049BB133111EB);
    z ^ (z >> 31)
}

/// Mix two integers into one seed (run i of batch seed s).
pub fn mix(a: u64, b: u64) -> u64 {
    let mut x = a ^ b.wrapping_mul(0xD6E8FEB86659FD93).rotate_left(17);
    let r = splitmix64(&mut x);
    r ^ splitmix64(&mut x)
}

pub fn fnv1a(bytes: &[u8]) -> u64 {
    let mut h: u64 = 0xcbf29ce484222325;
    for b in bytes {
        h ^= *b as u64;
        h = h.wrapping_mul(0x100000001b3);
    }
    h
}

impl Rng {
    pub fn new(seed: u64) -> Self {
        let mut x = seed;
        let s = [
            splitmix64(&mut x),
            splitmix64(&mut x),
            splitmix64(&mut x),
            splitmix64(&mut x),
        ];
        Rng { s }
    }

    pub fn fork(&self, label: &str) -> Rng {
        let h = fnv1a(label.as_bytes());
        Rng::new(mix(self.s[0] ^ self.s[2].rotate_left(13), h))
    }

    pub fn next_u64(&mut self) -> u64 {
        let result = self.s[1].wrapping_mul(5).rotate_left(7).wrapping_mul(9);
        let t = self.s[1] << 17;
        self.s[2] ^= self.s[0];
        self.s[3] ^= self.s[1];
        self.s[1] ^= self.s[2];
        self.s[0] ^= self.s[3];
        self.s[2] ^= t;
        self.s[3] = self.s[3].rotate_left(45);
        result
    }

    /// Uniform in 0..n (n > 0).
    pub fn below(&mut self, n: u64) -> u64 {
        if n <= 1 {
            return 0;
        }
        // Lemire-style rejection is overkill here; modulo bias is irrelevant for n << 2^64.
        self.next_u64() % n
    }

    pub fn usize_below(&mut self, n: usize) -> usize {
        self.below(n as u64) as usize
    }

    /// Inclusive range.
    pub fn range(&mut self, lo: i64, hi: i64) -> i64 {
        if hi <= lo {
            return lo;
        }
        lo + self.below((hi - lo + 1) as u64) as i64
    }

    /// True with probability num/den.
    pub fn chance(&mut self, num: u64, den: u64) -> bool {
        self.below(den) < num
    }

    pub fn pick<'a, T>(&mut self, xs: &'a [T]) -> &'a T {
        &xs[self.usize_below(xs.len())]
    }

    /// Pick an index according to integer weights (at least one weight must be > 0).
    pub fn weighted(&mut self, weights: &[u32]) -> usize {
        let total: u64 = weights.iter().map(|w| *w as u64).sum();
        if total == 0 {
            return 0;
        }
        let mut r = self.below(total);
        for (i, w) in weights.iter().enumerate() {
            if r < *w as u64 {
                return i;
            }
            r -= *w as u64;
        }
        weights.len() - 1
    }

    pub fn shuffle<T>(&mut self, xs: &mut [T]) {
        for i in (1..xs.len()).rev() {
            let j = self.usize_below(i + 1);
            xs.swap(i, j);
        }
    }

    pub fn fill_bytes(&mut self, out: &mut [u8]) {
        for chunk in out.chunks_mut(8) {
            let v = self.next_u64().to_le_bytes();
            chunk.copy_from_slice(&v[..chunk.len()]);
        }
    }
}

#[cfg(test)]
mod tests {
    use super::*;
    #[test]
    fn deterministic() {
        let mut a = Rng::new(7);
        let mut b = Rng::new(7);
        for _ in 0..100 {
            assert_eq!(a.next_u64(), b.next_u64());
        }
        let mut f1 = a.fork("x");
        let mut f2 = b.fork("x");
        assert_eq!(f1.next_u64(), f2.next_u64());
        assert_ne!(a.fork("x").next_u64(), a.fork("y").next_u64());
    }
}
