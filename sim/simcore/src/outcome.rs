use serde::{Deserialize, Serialize};
use serde_json::Value;
use std::collections::BTreeMap;

#[derive(Clone, Copy, Debug, PartialEq, Eq, Serialize, Deserialize)]
#[serde(rename_all = "lowercase")]
pub enum Tier {
    Quick,
    Thorough,
}

impl Tier {
    pub fn parse(s: &str) -> Tier {
        match s {
            "thorough" => Tier::Thorough,
            _ => Tier::Quick,
        }
    }
    pub fn as_str(&self) -> &'static str {
        match self {
            Tier::Quick => "quick",
            Tier::Thorough => "thorough",
        }
    }
}

/// One violated oracle, with everything needed to replay it.
#[derive(Serialize, Deserialize, Clone, Debug, Default)]
pub struct Violation {
    /// Property that owns this verdict class (C01 ...).
    pub property: String,
    /// Verdict class, e.g. `acked-row-missing`.
    pub verdict: String,
    /// Structured signature (matched against known-finding patterns).
    pub sig: BTreeMap<String, String>,
    /// Observed vs expected, human readable.
    pub detail: String,
    /// Explicit replayable case (engine specific), never regenerated from the seed.
    pub case: Value,
}

impl Violation {
    /// Class preserved by minimisation: property, verdict and — when the engine sets them — the
    /// signature fields `what` and `site` (sub-class of the verdict, panic site).
    pub fn class(&self) -> String {
        let mut s = format!("{}:{}", self.property, self.verdict);
        for k in ["what", "site"] {
            if let Some(v) = self.sig.get(k) {
                s.push_str(&format!(":{}", v));
            }
        }
        s
    }
    pub fn sig_string(&self) -> String {
        let mut s = format!("{}:{}", self.property, self.verdict);
        for (k, v) in &self.sig {
            s.push_str(&format!("|{}={}", k, v));
        }
        s
    }
}

/// Result of one simulated run.
#[derive(Serialize, Deserialize, Clone, Debug, Default)]
pub struct RunOutcome {
    pub violations: Vec<Violation>,
    /// Summed over runs by the coordinator (fault kinds fired, crash points by kind/role, probes ...).
    pub counters: BTreeMap<String, u64>,
    /// Distinctness fingerprint of the run (stated per engine in `rule`).
    pub fingerprint: u64,
    /// Non-trivial by the profile's stated rule.
    pub nontrivial: bool,
    /// Hash of the event log: determinism witness.
    pub events_hash: u64,
    /// Hashes of distinct states/schedules reached (unioned by the coordinator).
    pub states: Vec<u64>,
    /// A written-out trace of this run, for evidence samples.
    pub sample: Value,
    /// Simulated time covered by this run, microseconds.
    pub sim_time_us: u64,
    /// Set when the harness itself (not TurDB) broke.
    pub harness_error: Option<String>,
}

impl RunOutcome {
    pub fn count(&mut self, key: &str, n: u64) {
        *self.counters.entry(key.to_string()).or_insert(0) += n;
    }
}
