//! Known findings: committed file, never written at run time.

use crate::outcome::Violation;
use serde::{Deserialize, Serialize};
use serde_json::Value;
use std::collections::BTreeMap;
use std::path::Path;

#[derive(Serialize, Deserialize, Clone, Debug)]
pub struct Finding {
    pub id: String,
    pub property: String,
    /// "open" or "fixed"
    pub status: String,
    /// Keys: "verdict" and signature field names. Value: string (exact) or list (any of).
    pub pattern: BTreeMap<String, Value>,
    pub what: String,
    #[serde(default)]
    pub replay: Option<String>,
    #[serde(default)]
    pub commit: Option<String>,
    /// For fixed entries: the line `fixed: property=<id> <commit> <what failed>`.
    #[serde(default)]
    pub record: Option<String>,
}

pub fn load(path: &Path) -> Result<Vec<Finding>, String> {
    if !path.exists() {
        return Ok(vec![]);
    }
    let bytes = std::fs::read(path).map_err(|e| format!("{}: {}", path.display(), e))?;
    serde_json::from_slice(&bytes).map_err(|e| format!("{}: {}", path.display(), e))
}

fn value_matches(pat: &Value, actual: Option<&str>) -> bool {
    match pat {
        Value::Null => actual.is_none(),
        Value::String(s) => actual == Some(s.as_str()),
        Value::Array(xs) => xs.iter().any(|x| value_matches(x, actual)),
        Value::Bool(b) => actual == Some(if *b { "true" } else { "false" }),
        Value::Number(n) => actual == Some(n.to_string().as_str()),
        // {"contains": "x"}: substring; {"not_contains": "x"}
        Value::Object(m) => {
            let a = actual.unwrap_or("");
            m.iter().all(|(k, v)| match (k.as_str(), v.as_str()) {
                ("contains", Some(x)) => a.contains(x),
                ("not_contains", Some(x)) => !a.contains(x),
                _ => match (k.as_str(), v.as_array()) {
                    // {"contains_any": ["x", "y"]}
                    ("contains_any", Some(xs)) => xs.iter().filter_map(|x| x.as_str()).any(|x| a.contains(x)),
                    _ => false,
                },
            })
        }
        _ => false,
    }
}

impl Finding {
    pub fn matches(&self, v: &Violation) -> bool {
        // property "*": a crash site that any check may run into while it drives the database
        // (a panic is reported under the property whose check observed it)
        if self.status != "open" || (self.property != v.property && self.property != "*") {
            return false;
        }
        for (k, pat) in &self.pattern {
            let actual: Option<&str> = if k == "verdict" {
                Some(v.verdict.as_str())
            } else if k == "detail" {
                // free-text description of the mismatch (use with {"contains": ..})
                Some(v.detail.as_str())
            } else {
                v.sig.get(k).map(|s| s.as_str())
            };
            if !value_matches(pat, actual) {
                return false;
            }
        }
        true
    }
}

pub fn find_match<'a>(fs: &'a [Finding], v: &Violation) -> Option<&'a Finding> {
    fs.iter().find(|f| f.matches(v))
}
