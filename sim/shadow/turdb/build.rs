fn main() {
    println!("cargo:rustc-cfg=kahflane_turdb_verif");
    println!("cargo:rustc-check-cfg=cfg(kahflane_turdb_verif)");
    println!("cargo:rustc-check-cfg=cfg(kahflane_turdb_verif_sched)");
    // Rebuild whenever anything under /repo/src changes.
    println!("cargo:rerun-if-changed=/repo/src");
    println!("cargo:rerun-if-changed=build.rs");
}
